#!/bin/sh
# usage: tools/gen1.sh <unit> [verus args]  -- extract one unit into build/<unit>.rs and run verus on it (development helper)
u=$1; shift
/verif/tools/vx/target/release/vx gen --repo /repo --unit /verif/units/$u --out /verif/build/$u.rs --map /verif/build/$u.map.json || exit 2
cd /verif/build && verus --crate-type=lib $u.rs --multiple-errors 10 "$@" 2>&1 | grep -v "^note: \|^  *= note" 
