#!/bin/sh
# usage: tools/gen1.sh <unit> [verus args]  -- extract one unit into build/<unit>.rs and run verus on it (development helper)
u=$1; shift
gen=$(python3 - "$u" <<'PY'
import sys; sys.path.insert(0,'/verif/lib')
import runner
un=runner.load_units()[sys.argv[1]]
d=runner.generated_dir_for(un,'/repo','/verif/build/w')
print(d or '')
PY
)
garg=""; [ -n "$gen" ] && garg="--generated $gen"
/verif/tools/vx/target/release/vx gen --repo /repo --unit /verif/units/$u --out /verif/build/$u.rs --map /verif/build/$u.map.json $garg || exit 2
cd /verif/build && verus --crate-type=lib $u.rs --multiple-errors 10 "$@" 2>&1 | grep -v "^note: \|^  *= note" 
