#!/bin/bash
# runs every claimed check (quick tier) on the unchanged /repo tree and prints the summary lines
cd /verif
tier=${1:-quick}
for p in $(python3 -c "import json;print(' '.join(sorted(json.load(open('props.json')))))"); do
  ./check $p --tier $tier 2>&1 | tail -1
done
