#!/bin/bash
# usage: confirm_seed.sh <Cxx> [seed-dir] [record-name]   — confirms a seeded change in its own scratch worktree and records it under /verif/seeded/<id>/
#   1. demo passes without the patch   2. demo fails with it   3. the workspace still compiles and the existing suite passes with it
id=$1; wt=${2:-/tmp/seed/$id}; sd=$wt/${4:-SEED}; rec=${3:-$id}
cd $wt || exit 2
export CARGO_TARGET_DIR=$wt/target CARGO_NET_OFFLINE=true
git checkout -q -- . ; 
cmd=$(python3 -c "import json;print(json.load(open('$sd/meta.json'))['demo_command'])")
echo "== demo without patch"; (timeout 1200 bash -c "$cmd") > $sd/confirm_without.log 2>&1; r0=$?
git apply $sd/patch.diff || { echo "PATCH DOES NOT APPLY"; exit 3; }
echo "== demo with patch"; (timeout 1200 bash -c "$cmd") > $sd/confirm_with.log 2>&1; r1=$?
echo "== test suite with patch (demo files moved away)"
# the demo may have edited tracked files (e.g. appended a `mod` line): go back to exactly patch.diff
git checkout -q -- . ; git apply $sd/patch.diff
# the demo must not be part of the suite run
git status --short | grep '^??' | grep -v SEED | grep -v PROPERTY.json | grep -v ALREADY_TRIED | grep -v '^?? target' | awk '{print $2}' > $sd/demo_files.txt
mkdir -p $sd/.stash; while read f; do mkdir -p $sd/.stash/$(dirname $f); mv $f $sd/.stash/$f; done < $sd/demo_files.txt
timeout 2400 cargo test --workspace --no-fail-fast --offline > $sd/confirm_suite.log 2>&1; r2=$?
nfail=$(grep -E "^test result: FAILED|failed;" $sd/confirm_suite.log | grep -v " 0 failed" | wc -l)
git checkout -q -- . ; rm -rf $sd/.stash
echo "demo_without=$r0 demo_with=$r1 suite=$r2 failing_groups=$nfail"
ok=no; [ $r0 -eq 0 ] && [ $r1 -ne 0 ] && [ $r2 -eq 0 ] && ok=yes
mkdir -p /verif/seeded/$rec && cp $sd/patch.diff /verif/seeded/$rec/patch.diff && rm -rf /verif/seeded/$rec/demo && cp -r $sd/demo /verif/seeded/$rec/demo
python3 - <<PY
import json
m=json.load(open('$sd/meta.json'))
m['confirmed_by_me']={'demo_without_patch_exit':$r0,'demo_with_patch_exit':$r1,'suite_with_patch_exit':$r2,'confirmed':'$ok'=='yes',
  'what_i_ran':['<demo_command> on the clean worktree','git apply patch.diff; <demo_command>','cargo test --workspace --no-fail-fast --offline (with patch, demo files removed)']}
json.dump(m,open('/verif/seeded/$rec/meta.json','w'),indent=1)
PY
echo "confirmed=$ok"
# build output of a confirmed seed is not needed any more (disk space is limited)
[ "$KEEP_TARGET" = 1 ] || rm -rf $wt/target
