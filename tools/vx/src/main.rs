//! vx — mechanical extractor: cuts the functions a verification unit names out of the *current*
//! /repo sources (syn), applies the fixed rewrite rules R1..R11 of DESIGN.md §2.1 and nothing
//! else, attaches the contracts of `contracts.vx` as Verus attributes, and prints one file for
//! `verus`.  It also writes a map (generated line -> function / clause) and per-function token
//! hashes so that the runner can name the failed obligation.
//!
//! usage: vx gen --repo /repo --unit units/<u> --out build/<u>.rs --map build/<u>.map.json
//!               [--vacuity <fn-key>]
//! exit: 0 ok, 2 anything that cannot be extracted soundly (lost anchor, construct outside rules)

use proc_macro2::{Span, TokenStream, TokenTree};
use quote::ToTokens;
use serde::{Deserialize, Serialize};
use sha2::{Digest, Sha256};
use std::collections::{BTreeMap, BTreeSet, HashMap};
use std::fmt::Write as _;
use std::path::{Path, PathBuf};
use syn::visit_mut::{self, VisitMut};

mod contracts;
use contracts::*;

#[derive(Deserialize, Debug, Clone)]
struct UnitToml {
    name: String,
    serves: Vec<String>,
    #[serde(default)]
    features: Vec<String>,
    #[serde(default)]
    cfg_flags: Vec<String>,
    #[serde(default)]
    item: Vec<ItemSpec>,
    #[serde(default)]
    typemap: BTreeMap<String, String>,
    #[serde(default)]
    pathmap: BTreeMap<String, String>,
    /// macros (last path segment) whose statement-level invocations are dropped in addition to tracing (R2)
    #[serde(default)]
    drop_stmt_macros: Vec<String>,
    /// generated-source files: path relative to scratch build OUT_DIR (prost)
    #[serde(default)]
    generated_root: Option<String>,
    /// call-site census: every call of a guarded function must sit in a function that is under contract in this unit
    #[serde(default)]
    census: Vec<CensusSpec>,
    /// R20: `*x = v` (x a plain identifier) becomes `x.vx_store(v)`: a DerefMut store through a lock guard whose stand-in
    /// type implements `vx_store`.  If `x` is an ordinary `&mut T` the rewritten text does not compile => undecided.
    #[serde(default)]
    deref_store: bool,
    /// R20 (index form): `X[i] = v` -> `X.set(i, v)`
    #[serde(default)]
    index_store: bool,
    /// R21: `X.map_or_else(D, |p| B)` becomes `match X { None => D(), Some(p) => B }` (the definition of the std combinator)
    #[serde(default)]
    expand_map_or_else: bool,
    /// R21 (extended): `X.and_then(|p| B)` -> `match X { Some(p) => B, None => None }`, `X.map(|p| B)` -> `match X { Some(p) =>
    /// Some(B), None => None }` for literal one-parameter closures without `return`/`?`/`.await` in B.  Only type-correct when X is an
    /// `Option` (for a `Result` or an iterator the rewritten text does not compile => undecided)
    #[serde(default)]
    expand_option_combinators: bool,
    /// R21 (extended): `X.filter(|p| B)` on an Option -> match (off by default: `filter` is far more common on iterators)
    #[serde(default)]
    expand_option_filter: bool,
    /// R34: `for P in E.values_mut() { B }` -> an index loop over the stand-in enumeration of E's values:
    /// `{ let mut vx_i: usize = 0; let vx_n: usize = E.vx_len(); while vx_i < vx_n { let P = E.vx_value_mut_at(vx_i); B; vx_i += 1; } }`
    /// (std: `values_mut()` visits every value exactly once, in an unspecified order; the stand-in fixes one enumeration). Refused
    /// (left alone) when B contains `continue`
    #[serde(default)]
    expand_values_mut_loops: bool,
    /// R37: `E.retain_mut(|P| B)` (a literal one-parameter closure without `return`/`?`/`.await`) -> the index loop that is the
    /// documented meaning of `retain_mut` (every element visited exactly once, in order; kept iff the closure returns true):
    /// `{ let mut vx_i: usize = 0; while vx_i < E.vx_len() { let vx_keep: bool = { let P = E.vx_item_mut_at(vx_i); B }; if vx_keep
    /// { vx_i += 1; } else { E.vx_remove_at(vx_i); } } }`
    #[serde(default)]
    expand_retain_mut_loops: bool,
    /// R35: `match E.as_str() { "A" => a, "B" => b, _ => d }` (string-literal arms without guards, the wildcard last) ->
    /// `if vx_str_is(&E, "A") { a } else if vx_str_is(&E, "B") { b } else { d }` (Verus does not reason about string patterns: it
    /// treats the choice of arm as opaque; the if-chain is the meaning of the match, first arm first)
    #[serde(default)]
    expand_str_match: bool,
    /// R26: `cast!(A, M)` is expanded to `A.cast(M).map_err(|e| RactorErr::from(e))`, the body of `macro_rules! cast` in
    /// ractor/src/macros.rs (checked against the file on every run: a different definition => undecided)
    #[serde(default)]
    expand_cast_macro: bool,
    /// R29: `crate::concurrency::select! { p1 = e1 => b1 .. }` is projected to ONE poll round of its arms in their textual order:
    /// `match vx_select_biased_N(e1, .., eN) { VxSelN::A0(p1) => b1, .. }` when `macro_rules! select` in
    /// ractor/src/concurrency/tokio_primitives.rs is the wrapper that inserts `biased;` (checked on every run), and
    /// `vx_select_fair_N` (a stand-in that promises no order) when the wrapper no longer inserts it
    #[serde(default)]
    expand_select_macro: bool,
    /// R31: a path to a tuple-variant constructor passed as a function value (`.map(ActorPortMessage::Signal)`) is eta-expanded to
    /// the closure `|vx_x| ActorPortMessage::Signal(vx_x)` (listed method names only)
    #[serde(default)]
    eta_expand_in: Vec<String>,
    /// R25: inside closure bodies a call of method X is renamed to the mapped name: a stand-in WITHOUT ghost parameters (closures
    /// cannot carry the tracked ghost heap), whose result is therefore unconstrained
    #[serde(default)]
    closure_method_map: BTreeMap<String, String>,
    /// R22: a chain of closure-free std adapter calls, e.g. `into_values().collect()`, is renamed to ONE stand-in method
    /// (whose specification states the std semantics of the chain; trusted)
    #[serde(default)]
    chainmap: BTreeMap<String, String>,
}

/// A function whose contract has a PRECONDITION only its verified callers discharge (a protocol-step guard) generates one proof
/// obligation per call site.  Call sites inside functions under contract are discharged by Verus; this census finds every
/// other call site in the crate (syntactically, non-test code): such a call site's obligation has nobody to discharge it.
#[derive(Deserialize, Debug, Clone)]
struct CensusSpec {
    /// obligation name
    name: String,
    /// method / function name (last path segment)
    callee: String,
    /// directory (relative to the repo) scanned recursively
    root: String,
    /// enclosing functions (`Type::fn` or `fn`) whose call sites are verified in this unit
    allowed_in: Vec<String>,
    props: Vec<String>,
}
#[derive(Serialize, Debug, Clone, Default)]
struct CensusOut {
    name: String,
    callee: String,
    props: Vec<String>,
    ok: bool,
    sites: Vec<String>,
    offenders: Vec<String>,
}

#[derive(Deserialize, Debug, Clone)]
struct ItemSpec {
    file: String,
    path: String,
    #[serde(default)]
    methods: Vec<String>,
    #[serde(default)]
    as_inherent: bool,
    #[serde(default)]
    as_free_fns: bool,
    /// R7: "" (off) | "erase" (`e.await` -> `e`) | "call" (`e.await` -> `vx_await(e)`)
    #[serde(default)]
    async_projection: String,
    #[serde(default)]
    keep_derives: Vec<String>,
    #[serde(default)]
    inside: Option<String>,
    #[serde(default)]
    drop_supertraits: bool,
    #[serde(default)]
    drop_where: bool,
    /// replace generic bounds wholesale: "T" -> "Bound1 + Bound2" (R9 on bounds)
    #[serde(default)]
    rename: Option<String>,
    #[serde(default)]
    extra_attrs: Vec<String>,
    /// for struct items: fields to keep (others are dropped, listed as R9-opaque) -- not used unless set
    #[serde(default)]
    drop_fields: Vec<String>,
    /// R8: calls (by callee last segment) whose arguments are replaced by `()`
    #[serde(default)]
    erase_args_of: Vec<String>,
    /// do not verify (external_body): signature only; body replaced by unimplemented!()
    #[serde(default)]
    external_body: bool,
    /// with async_projection = "call": awaits whose operand is a call to one of these (projected) functions are erased instead
    #[serde(default)]
    await_erase_calls: Vec<String>,
    /// R15: rewrite every `e?` in the item to `match e { Ok(v) => v, Err(e) => return Err(From::from(e)) }`
    /// (the documented desugaring of `?` on `Result`; Verus loses the `From` specification through `?`)
    #[serde(default)]
    desugar_try_result: bool,
    /// with as_inherent: impl generics that only the dropped trait constrained are moved onto each method (with the
    /// where-predicates that mention them)
    #[serde(default)]
    generics_to_methods: Vec<String>,
    /// R19 (gate projection): keep only the first N statements of the body; everything after them is replaced by the tail call
    /// `vx_rest_tail()` (an opaque stub that logs one `Rest` effect and returns any value).  Only sound for contracts that say
    /// "the rest is not reached when ..." -- which is exactly what an authentication/precondition gate claims.
    #[serde(default)]
    keep_stmts: Option<usize>,
    /// R19 variant: keep the leading GUARD statements (`if cond { ..; return ..; }` without else) and erase from the first
    /// statement that is not such a guard
    #[serde(default)]
    keep_guards: bool,
    /// R19 (arm projection): in the method's top-level `match`, keep only the arms whose pattern names one of these enum variants;
    /// all other arms are replaced by ONE trailing arm `_ => vx_rest_tail()` (opaque `Rest` effect).  Sound for contracts of the form
    /// "when the message is X then ...".
    #[serde(default)]
    keep_arms: Vec<String>,
    /// R30: an `async move { .. }` block of method `of` that leaves through `return`/`?` (so it cannot be evaluated in place) is
    /// outlined into a sibling method `name` with the declared parameter list and return type (its body is the block's text,
    /// verbatim); the block is replaced by the call `Self::name(args)`
    #[serde(default)]
    outline_async: Vec<OutlineSpec>,
    /// extract this item only when the feature is active
    #[serde(default)]
    only_feature: Option<String>,
    /// for `impl Trait for Type` items: keep only impls whose trait path (whitespace-free token text) contains this text
    /// (selects one of several `impl From<X> for T`)
    #[serde(default)]
    trait_contains: Option<String>,
    /// drop generic params by name from impl/fn (with their bounds)
    #[serde(default)]
    drop_generics: Vec<String>,
}

#[derive(Deserialize, Debug, Clone, Default)]
struct OutlineSpec {
    of: String,
    name: String,
    /// generic parameters of the outlined method, e.g. `<'a>`
    #[serde(default)]
    generics: String,
    params: String,
    ret: String,
    args: String,
}

#[derive(Serialize, Debug, Clone, Default)]
struct ClauseOut {
    name: String,
    kind: String,
    strength: String,
    text: String,
    out_line_start: usize,
    out_line_end: usize,
    src_line: usize,
}

#[derive(Serialize, Debug, Clone, Default)]
struct FnOut {
    key: String,
    repo_file: String,
    repo_line: usize,
    token_hash: String,
    out_line_start: usize,
    out_line_end: usize,
    rules: Vec<String>,
    has_contract: bool,
    external_body: bool,
    props: Vec<String>,
    n_loops: usize,
    dropped_loops: Vec<String>,
    clauses: Vec<ClauseOut>,
    #[serde(skip)]
    orig_norm: String,
    #[serde(skip)]
    derived_closures: Vec<(String, String)>,
}

#[derive(Serialize, Debug, Clone, Default)]
struct ItemOut {
    path: String,
    repo_file: String,
    token_hash: String,
    rules: Vec<String>,
}

#[derive(Serialize, Debug, Default)]
struct MapOut {
    unit: String,
    serves: Vec<String>,
    features: Vec<String>,
    prelude_lines: usize,
    functions: Vec<FnOut>,
    items: Vec<ItemOut>,
    assumptions: Vec<String>,
    shape_checks: Vec<String>,
    shape_failures: Vec<String>,
    vacuity_target: Option<String>,
    census: Vec<CensusOut>,
}

fn die(msg: impl AsRef<str>) -> ! {
    eprintln!("vx: UNDECIDED: {}", msg.as_ref());
    std::process::exit(2);
}

fn norm_tokens(ts: &TokenStream) -> String {
    ts.to_string().split_whitespace().collect::<Vec<_>>().join("")
}

fn sha(s: &str) -> String {
    let mut h = Sha256::new();
    h.update(s.as_bytes());
    let d = h.finalize();
    let mut out = String::new();
    for b in d.iter().take(12) {
        write!(out, "{:02x}", b).unwrap();
    }
    out
}

// ---------------------------------------------------------------- cfg evaluation (R3)

struct CfgEnv {
    features: BTreeSet<String>,
    flags: BTreeSet<String>,
}

impl CfgEnv {
    fn eval_meta(&self, m: &syn::Meta) -> bool {
        match m {
            syn::Meta::Path(p) => {
                let id = p.get_ident().map(|i| i.to_string()).unwrap_or_default();
                match id.as_str() {
                    "test" | "kani" | "tokio_unstable" | "rust_analyzer" | "doc" | "miri" => false,
                    "debug_assertions" => self.flags.contains("debug_assertions"),
                    "unix" => true,
                    other => {
                        if self.flags.contains(other) {
                            true
                        } else {
                            die(format!("R3: unknown cfg flag `{}`", other))
                        }
                    }
                }
            }
            syn::Meta::NameValue(nv) => {
                let id = nv.path.get_ident().map(|i| i.to_string()).unwrap_or_default();
                let val = match &nv.value {
                    syn::Expr::Lit(syn::ExprLit { lit: syn::Lit::Str(s), .. }) => s.value(),
                    _ => die("R3: cfg value not a string"),
                };
                match id.as_str() {
                    "feature" => self.features.contains(&val),
                    "target_arch" => val == "x86_64",
                    "target_os" => val == "linux",
                    "target_family" => val == "unix",
                    "target_pointer_width" => val == "64",
                    other => die(format!("R3: unknown cfg key `{}`", other)),
                }
            }
            syn::Meta::List(l) => {
                let id = l.path.get_ident().map(|i| i.to_string()).unwrap_or_default();
                let inner: syn::punctuated::Punctuated<syn::Meta, syn::Token![,]> = l
                    .parse_args_with(syn::punctuated::Punctuated::parse_terminated)
                    .unwrap_or_else(|e| die(format!("R3: cannot parse cfg list: {}", e)));
                match id.as_str() {
                    "not" => !self.eval_meta(inner.first().unwrap_or_else(|| die("R3: empty not()"))),
                    "all" => inner.iter().all(|m| self.eval_meta(m)),
                    "any" => inner.iter().any(|m| self.eval_meta(m)),
                    other => die(format!("R3: unknown cfg combinator `{}`", other)),
                }
            }
        }
    }

    /// Some(true/false) if the attribute list has cfg attrs; None if no cfg attr present.
    fn keep(&self, attrs: &[syn::Attribute]) -> bool {
        for a in attrs {
            if a.path().is_ident("cfg") {
                let m: syn::Meta = a
                    .parse_args()
                    .unwrap_or_else(|e| die(format!("R3: cannot parse cfg: {}", e)));
                if !self.eval_meta(&m) {
                    return false;
                }
            }
        }
        true
    }
}

// ---------------------------------------------------------------- the rewriting visitor

struct Rewriter<'a> {
    cfg: &'a CfgEnv,
    typemap: &'a BTreeMap<String, syn::Type>,
    pathmap: &'a BTreeMap<String, String>,
    drop_macros: &'a BTreeSet<String>,
    async_projection: String,
    desugar_try: bool,
    await_erase_calls: BTreeSet<String>,
    erase_args_of: BTreeSet<String>,
    rules: BTreeSet<String>,
    keep_derives: BTreeSet<String>,
    deref_store: bool,
    index_store: bool,
    expand_map_or_else: bool,
    expand_option_combinators: bool,
    expand_option_filter: bool,
    expand_values_mut_loops: bool,
    expand_retain_mut_loops: bool,
    expand_str_match: bool,
    chainmap: Vec<(syn::Expr, syn::Expr)>,
    closure_method_map: BTreeMap<String, String>,
    expand_cast_macro: bool,
    /// R29: None = rule off, Some(true) = the wrapper inserts `biased;`, Some(false) = it does not
    select_biased: Option<bool>,
    eta_expand_in: BTreeSet<String>,
    escaping_async_blocks_allowed: usize,
    /// R27: sibling methods of the impl under extraction that are neither extracted, nor stand-ins of the prelude: inlined at call sites
    inline_table: BTreeMap<String, syn::ImplItemFn>,
    /// R27 for free functions of the file: `helper(args)`
    inline_free: BTreeMap<String, syn::ImplItemFn>,
    inline_depth: usize,
}

/// `self` inside an inlined helper body becomes the receiver expression of the call
struct SelfSubst<'a> { recv: &'a syn::Expr }
impl<'a> VisitMut for SelfSubst<'a> {
    fn visit_macro_mut(&mut self, m: &mut syn::Macro) {
        // `self` inside macro arguments (matches!(self, ..), format args): token-level substitution
        fn subst(ts: TokenStream, recv: &TokenStream) -> TokenStream {
            ts.into_iter().flat_map(|tt| -> Vec<TokenTree> {
                match tt {
                    TokenTree::Ident(ref i) if i == "self" => vec![TokenTree::Group(proc_macro2::Group::new(proc_macro2::Delimiter::Parenthesis, recv.clone()))],
                    TokenTree::Group(g) => { let mut ng = proc_macro2::Group::new(g.delimiter(), subst(g.stream(), recv)); ng.set_span(g.span()); vec![TokenTree::Group(ng)] }
                    other => vec![other],
                }
            }).collect()
        }
        let recv = self.recv.to_token_stream();
        m.tokens = subst(m.tokens.clone(), &recv);
    }
    fn visit_expr_mut(&mut self, e: &mut syn::Expr) {
        if let syn::Expr::Path(p) = e {
            if p.qself.is_none() && p.path.is_ident("self") { *e = self.recv.clone(); return; }
        }
        visit_mut::visit_expr_mut(self, e);
    }
    fn visit_item_mut(&mut self, _i: &mut syn::Item) {}
}
/// guard-style early returns at the top level of a helper body are turned into the equivalent expression form:
///   `A; if c { B; return v; } R`            ->  `A; if c { B; v } else { R' }`
///   `A; let P = e else { return v; }; R`     ->  `A; match e { P => { R' } _ => v }`
/// (R' = the same applied to R).  Returns None when a `return` remains anywhere else.
fn eliminate_guard_returns(stmts: &[syn::Stmt]) -> Option<Vec<syn::Stmt>> {
    struct HasRet(bool);
    impl<'ast> syn::visit::Visit<'ast> for HasRet {
        fn visit_expr_return(&mut self, _r: &'ast syn::ExprReturn) { self.0 = true; }
        fn visit_expr_closure(&mut self, _c: &'ast syn::ExprClosure) {}
    }
    let has_ret_stmt = |st: &syn::Stmt| { let mut h = HasRet(false); syn::visit::Visit::visit_stmt(&mut h, st); h.0 };
    for (i, st) in stmts.iter().enumerate() {
        if !has_ret_stmt(st) { continue; }
        let rest = eliminate_guard_returns(&stmts[i + 1..])?;
        let before: Vec<syn::Stmt> = stmts[..i].to_vec();
        match st {
            syn::Stmt::Expr(syn::Expr::If(ifx), _) if ifx.else_branch.is_none() => {
                let tb = &ifx.then_branch.stmts;
                let (last, init) = tb.split_last()?;
                if init.iter().any(|s| has_ret_stmt(s)) { return None; }
                let v: syn::Expr = match last {
                    syn::Stmt::Expr(syn::Expr::Return(r), _) => match &r.expr { Some(x) => (**x).clone(), None => syn::parse_quote!(()) },
                    _ => return None,
                };
                let cond = &ifx.cond;
                let new_if: syn::Expr = syn::parse_quote!(if #cond { #(#init)* #v } else { #(#rest)* });
                let mut out = before;
                out.push(syn::Stmt::Expr(new_if, None));
                return Some(out);
            }
            syn::Stmt::Local(l) => {
                let init = l.init.as_ref()?;
                let (_, div) = init.diverge.as_ref()?;
                let v: syn::Expr = match &**div {
                    syn::Expr::Block(b) if b.block.stmts.len() == 1 => match &b.block.stmts[0] {
                        syn::Stmt::Expr(syn::Expr::Return(r), _) => match &r.expr { Some(x) => (**x).clone(), None => syn::parse_quote!(()) },
                        _ => return None,
                    },
                    _ => return None,
                };
                let mut h = HasRet(false); syn::visit::Visit::visit_expr(&mut h, &init.expr); if h.0 { return None; }
                let pat = &l.pat; let ex = &init.expr;
                let new_m: syn::Expr = syn::parse_quote!(match #ex { #pat => { #(#rest)* } _ => #v });
                let mut out = before;
                out.push(syn::Stmt::Expr(new_m, None));
                return Some(out);
            }
            _ => return None,
        }
    }
    Some(stmts.to_vec())
}
/// type parameters of an inlined generic helper become the type arguments of the call's turbofish
struct TySubst<'a> { map: &'a BTreeMap<String, syn::Type> }
impl<'a> VisitMut for TySubst<'a> {
    fn visit_type_mut(&mut self, t: &mut syn::Type) {
        if let syn::Type::Path(tp) = t {
            if tp.qself.is_none() {
                if let Some(id) = tp.path.get_ident() {
                    if let Some(rep) = self.map.get(&id.to_string()) { *t = rep.clone(); return; }
                }
            }
        }
        visit_mut::visit_type_mut(self, t);
    }
}
fn is_place(e: &syn::Expr) -> bool {
    match e {
        syn::Expr::Path(p) => p.qself.is_none() && p.path.get_ident().is_some(),
        syn::Expr::Field(f) => is_place(&f.base),
        syn::Expr::Paren(p) => is_place(&p.expr),
        _ => false,
    }
}

/// chainmap key/value: an expression over metavariables; a text that starts with a method name gets the receiver `__`
fn parse_chain(t: &str) -> syn::Expr {
    let t = t.trim();
    let full = if t.contains("__") { t.to_string() } else { format!("__.{}", t) };
    syn::parse_str::<syn::Expr>(&full).unwrap_or_else(|e| die(format!("chainmap `{}`: {}", t, e)))
}
fn metavar(e: &syn::Expr) -> Option<String> {
    if let syn::Expr::Path(p) = e { if let Some(id) = p.path.get_ident() { let n = id.to_string(); if n.starts_with("__") { return Some(n); } } }
    None
}
fn match_pat(pat: &syn::Expr, e: &syn::Expr, binds: &mut BTreeMap<String, syn::Expr>) -> bool {
    if let Some(n) = metavar(pat) {
        if let Some(prev) = binds.get(&n) { return norm_tokens(&prev.to_token_stream()) == norm_tokens(&e.to_token_stream()); }
        binds.insert(n, e.clone());
        return true;
    }
    match (pat, e) {
        (syn::Expr::MethodCall(p), syn::Expr::MethodCall(m)) => {
            p.method == m.method && p.turbofish.is_none() && p.args.len() == m.args.len()
                && match_pat(&p.receiver, &m.receiver, binds)
                && p.args.iter().zip(m.args.iter()).all(|(a, b)| match_pat(a, b, binds))
        }
        (syn::Expr::Range(p), syn::Expr::Range(m)) => {
            let same_limits = matches!((&p.limits, &m.limits), (syn::RangeLimits::HalfOpen(_), syn::RangeLimits::HalfOpen(_)) | (syn::RangeLimits::Closed(_), syn::RangeLimits::Closed(_)));
            let opt = |a: &Option<Box<syn::Expr>>, b: &Option<Box<syn::Expr>>, binds: &mut BTreeMap<String, syn::Expr>| match (a, b) {
                (None, None) => true,
                (Some(x), Some(y)) => match_pat(x, y, binds),
                _ => false,
            };
            same_limits && opt(&p.start, &m.start, binds) && opt(&p.end, &m.end, binds)
        }
        (syn::Expr::Index(p), syn::Expr::Index(m)) => match_pat(&p.expr, &m.expr, binds) && match_pat(&p.index, &m.index, binds),
        (syn::Expr::Field(p), syn::Expr::Field(m)) => norm_tokens(&p.member.to_token_stream()) == norm_tokens(&m.member.to_token_stream()) && match_pat(&p.base, &m.base, binds),
        (syn::Expr::Paren(p), _) => match_pat(&p.expr, e, binds),
        (_, syn::Expr::Paren(m)) => match_pat(pat, &m.expr, binds),
        (syn::Expr::Reference(p), syn::Expr::Reference(m)) => p.mutability.is_some() == m.mutability.is_some() && match_pat(&p.expr, &m.expr, binds),
        (syn::Expr::Call(p), syn::Expr::Call(m)) => p.args.len() == m.args.len() && match_pat(&p.func, &m.func, binds)
            && p.args.iter().zip(m.args.iter()).all(|(a, b)| match_pat(a, b, binds)),
        (syn::Expr::Path(p), syn::Expr::Path(m)) => norm_tokens(&p.to_token_stream()) == norm_tokens(&m.to_token_stream()),
        (syn::Expr::Binary(p), syn::Expr::Binary(m)) => norm_tokens(&p.op.to_token_stream()) == norm_tokens(&m.op.to_token_stream())
            && match_pat(&p.left, &m.left, binds) && match_pat(&p.right, &m.right, binds),
        (syn::Expr::Unary(p), syn::Expr::Unary(m)) => norm_tokens(&p.op.to_token_stream()) == norm_tokens(&m.op.to_token_stream()) && match_pat(&p.expr, &m.expr, binds),
        _ => false,
    }
}
struct Subst<'a> { binds: &'a BTreeMap<String, syn::Expr> }
impl<'a> VisitMut for Subst<'a> {
    fn visit_expr_mut(&mut self, e: &mut syn::Expr) {
        if let Some(n) = metavar(e) {
            if let Some(b) = self.binds.get(&n) { *e = b.clone(); return; }
        }
        visit_mut::visit_expr_mut(self, e);
    }
}

fn is_tracing_macro(p: &syn::Path) -> bool {
    let segs: Vec<String> = p.segments.iter().map(|s| s.ident.to_string()).collect();
    if segs.len() == 2 && (segs[0] == "tracing" || segs[0] == "log") {
        return matches!(segs[1].as_str(), "trace" | "debug" | "info" | "warn" | "error" | "event");
    }
    false
}

/// R2's syntactic allow-list for the arguments of a dropped logging macro.
fn log_args_side_effect_free(ts: &TokenStream) -> bool {
    // allowed: idents, literals, punctuation, field access, and calls to a fixed list of getters
    const GETTERS: &[&str] = &[
        "get_id", "get_name", "len", "is_some", "is_none", "clone", "pid", "node", "to_string",
        "as_str", "is_empty", "get_cell", "name", "peer_addr", "as_ref", "as_deref", "unwrap_or",
        "get_status", "local_addr", "elapsed", "as_millis", "unwrap_or_default", "get_type_name",
        "type_name", "map", "display", "is_local", "object_addr",
    ];
    let mut prev_ident: Option<String> = None;
    for tt in ts.clone() {
        match &tt {
            TokenTree::Group(g) => {
                if g.delimiter() == proc_macro2::Delimiter::Parenthesis {
                    if let Some(id) = &prev_ident {
                        // a call: ident(...)
                        if !GETTERS.contains(&id.as_str())
                            && !id.chars().next().map(|c| c.is_uppercase()).unwrap_or(false)
                        {
                            return false;
                        }
                    }
                }
                if !log_args_side_effect_free(&g.stream()) {
                    return false;
                }
                prev_ident = None;
            }
            TokenTree::Ident(i) => prev_ident = Some(i.to_string()),
            TokenTree::Punct(p) => {
                // assignment operators other than `=` in `field = value` are refused
                if p.as_char() == '!' {
                    // nested macro
                    if let Some(id) = &prev_ident {
                        if id != "format" && id != "stringify" {
                            return false;
                        }
                    }
                }
                prev_ident = None;
            }
            TokenTree::Literal(_) => prev_ident = None,
        }
    }
    true
}

impl<'a> Rewriter<'a> {
    fn filter_attrs(&mut self, attrs: &mut Vec<syn::Attribute>) {
        let before = attrs.len();
        let keep_derives = self.keep_derives.clone();
        let mut new_attrs = vec![];
        for a in attrs.drain(..) {
            if a.path().is_ident("derive") && !keep_derives.is_empty() {
                // keep only selected derives
                let mut kept: Vec<syn::Path> = vec![];
                let _ = a.parse_nested_meta(|m| {
                    let last = m.path.segments.last().map(|s| s.ident.to_string()).unwrap_or_default();
                    if keep_derives.contains(&last) {
                        kept.push(m.path.clone());
                    }
                    Ok(())
                });
                if !kept.is_empty() {
                    let a2: syn::Attribute = syn::parse_quote!(#[derive(#(#kept),*)]);
                    new_attrs.push(a2);
                }
            } else if a.path().is_ident("vx_keep") {
                new_attrs.push(a);
            }
        }
        *attrs = new_attrs;
        if before != attrs.len() {
            self.rules.insert("R1".into());
        }
    }

    fn map_path(&mut self, p: &mut syn::Path) {
        // explicit pathmap first (longest prefix)
        let idents: Vec<String> = p.segments.iter().map(|s| s.ident.to_string()).collect();
        let mut best: Option<(usize, &String)> = None;
        for n in (1..=idents.len()).rev() {
            let key = idents[..n].join("::");
            if let Some(rep) = self.pathmap.get(&key) {
                best = Some((n, rep));
                break;
            }
        }
        if let Some((n, rep)) = best {
            let rep_path: syn::Path = syn::parse_str(rep)
                .unwrap_or_else(|e| die(format!("pathmap: bad replacement `{}`: {}", rep, e)));
            let last_args = p.segments[n - 1].arguments.clone();
            let mut segs: Vec<syn::PathSegment> = rep_path.segments.into_iter().collect();
            if let Some(l) = segs.last_mut() {
                if matches!(l.arguments, syn::PathArguments::None) {
                    l.arguments = last_args;
                }
            }
            for s in p.segments.iter().skip(n) {
                segs.push(s.clone());
            }
            p.leading_colon = None;
            p.segments = segs.into_iter().collect();
            self.rules.insert("R11".into());
            return;
        }
        // R11 default: strip crate::/super::/self:: and following snake_case module segments
        let first = idents[0].as_str();
        if (first == "crate" || first == "super" || first == "self") && idents.len() > 1 {
            let mut k = 1;
            while k < idents.len() - 1
                && idents[k].chars().next().map(|c| c.is_lowercase()).unwrap_or(false)
                && matches!(p.segments[k].arguments, syn::PathArguments::None)
            {
                k += 1;
            }
            // also allow `super::super::x`
            let segs: Vec<syn::PathSegment> = p.segments.iter().skip(k).cloned().collect();
            p.segments = segs.into_iter().collect();
            self.rules.insert("R11".into());
        }
    }
}

impl<'a> VisitMut for Rewriter<'a> {
    fn visit_type_mut(&mut self, t: &mut syn::Type) {
        let key = norm_tokens(&t.to_token_stream());
        if let Some(rep) = self.typemap.get(&key) {
            *t = rep.clone();
            self.rules.insert("R9".into());
            return;
        }
        visit_mut::visit_type_mut(self, t);
    }

    fn visit_path_mut(&mut self, p: &mut syn::Path) {
        self.map_path(p);
        visit_mut::visit_path_mut(self, p);
    }

    fn visit_expr_path_mut(&mut self, ep: &mut syn::ExprPath) {
        // `<T as a::b::Trait>::f`: keep the qualified-self position consistent when the trait path is shortened
        if let Some(q) = &mut ep.qself {
            let before = ep.path.segments.len();
            self.map_path(&mut ep.path);
            let after = ep.path.segments.len();
            if after < before && q.position >= before - after { q.position -= before - after; }
            self.visit_type_mut(&mut q.ty);
            for seg in ep.path.segments.iter_mut() { self.visit_path_arguments_mut(&mut seg.arguments); }
            return;
        }
        visit_mut::visit_expr_path_mut(self, ep);
    }

    fn visit_fields_named_mut(&mut self, f: &mut syn::FieldsNamed) {
        let cfg = self.cfg;
        let n = f.named.len();
        let kept: Vec<syn::Field> = f.named.iter().filter(|x| cfg.keep(&x.attrs)).cloned().collect();
        if kept.len() != n {
            self.rules.insert("R3".into());
        }
        f.named = kept.into_iter().collect();
        for fld in f.named.iter_mut() {
            self.filter_attrs(&mut fld.attrs);
        }
        visit_mut::visit_fields_named_mut(self, f);
    }

    fn visit_fields_unnamed_mut(&mut self, f: &mut syn::FieldsUnnamed) {
        for fld in f.unnamed.iter_mut() {
            self.filter_attrs(&mut fld.attrs);
        }
        visit_mut::visit_fields_unnamed_mut(self, f);
    }

    fn visit_variant_mut(&mut self, v: &mut syn::Variant) {
        self.filter_attrs(&mut v.attrs);
        visit_mut::visit_variant_mut(self, v);
    }

    fn visit_item_enum_mut(&mut self, e: &mut syn::ItemEnum) {
        let cfg = self.cfg;
        let kept: Vec<syn::Variant> = e.variants.iter().filter(|x| cfg.keep(&x.attrs)).cloned().collect();
        e.variants = kept.into_iter().collect();
        visit_mut::visit_item_enum_mut(self, e);
    }

    fn visit_signature_mut(&mut self, s: &mut syn::Signature) {
        let cfg = self.cfg;
        let kept: Vec<syn::FnArg> = s
            .inputs
            .iter()
            .filter(|a| match a {
                syn::FnArg::Typed(t) => cfg.keep(&t.attrs),
                syn::FnArg::Receiver(r) => cfg.keep(&r.attrs),
            })
            .cloned()
            .collect();
        s.inputs = kept.into_iter().collect();
        for a in s.inputs.iter_mut() {
            match a {
                syn::FnArg::Typed(t) => self.filter_attrs(&mut t.attrs),
                syn::FnArg::Receiver(r) => self.filter_attrs(&mut r.attrs),
            }
        }
        if !self.async_projection.is_empty() && s.asyncness.is_some() {
            s.asyncness = None;
            self.rules.insert("R7".into());
        }
        // R7: a function that returns `impl Future<Output = T> [+ ..]` is projected like an async fn: it returns T
        if !self.async_projection.is_empty() {
            if let syn::ReturnType::Type(_, ty) = &mut s.output {
                if let syn::Type::ImplTrait(it) = &**ty {
                    let mut out_ty: Option<syn::Type> = None;
                    for b in it.bounds.iter() {
                        if let syn::TypeParamBound::Trait(tb) = b {
                            if let Some(seg) = tb.path.segments.last() {
                                if seg.ident == "Future" {
                                    if let syn::PathArguments::AngleBracketed(ab) = &seg.arguments {
                                        for a in ab.args.iter() {
                                            if let syn::GenericArgument::AssocType(at) = a { if at.ident == "Output" { out_ty = Some(at.ty.clone()); } }
                                        }
                                    }
                                }
                            }
                        }
                    }
                    if let Some(t) = out_ty { **ty = t; self.rules.insert("R7".into()); self.escaping_async_blocks_allowed += 1; }
                }
            }
        }
        visit_mut::visit_signature_mut(self, s);
    }

    fn visit_block_mut(&mut self, b: &mut syn::Block) {
        let cfg = self.cfg;
        let mut out = Vec::with_capacity(b.stmts.len());
        for st in b.stmts.drain(..) {
            // R3 on statements
            let keep = match &st {
                syn::Stmt::Local(l) => cfg.keep(&l.attrs),
                syn::Stmt::Item(_) => true,
                syn::Stmt::Expr(e, _) => cfg.keep(expr_attrs(e)),
                syn::Stmt::Macro(m) => cfg.keep(&m.attrs),
            };
            if !keep {
                self.rules.insert("R3".into());
                continue;
            }
            // `use` declarations inside a body are dropped: names are resolved by the unit prelude (R11)
            if let syn::Stmt::Item(syn::Item::Use(_)) = &st {
                self.rules.insert("R11".into());
                continue;
            }
            // R29: a statement-position `select! { .. }` is an expression
            let st = match st {
                syn::Stmt::Macro(m) if self.select_biased.is_some() && m.mac.path.segments.last().map(|x| x.ident == "select").unwrap_or(false) => {
                    syn::Stmt::Expr(syn::Expr::Macro(syn::ExprMacro { attrs: m.attrs, mac: m.mac }), m.semi_token)
                }
                other => other,
            };
            // R36: `_ = E;` (an assignment to the wildcard: evaluate and drop) is `let _ = E;` (Verus rejects destructuring assignment)
            let st = match st {
                syn::Stmt::Expr(syn::Expr::Assign(a), Some(semi)) if matches!(&*a.left, syn::Expr::Infer(_)) && a.attrs.is_empty() => {
                    let rhs = (*a.right).clone();
                    self.rules.insert("R36".into());
                    let _ = semi;
                    let l: syn::Stmt = syn::parse_quote!(let _ = #rhs;);
                    l
                }
                other => other,
            };
            // R2 on statement-level logging macros
            if let syn::Stmt::Macro(m) = &st {
                let last = m.mac.path.segments.last().map(|s| s.ident.to_string()).unwrap_or_default();
                if is_tracing_macro(&m.mac.path) || self.drop_macros.contains(&last) {
                    if !log_args_side_effect_free(&m.mac.tokens) {
                        die(format!(
                            "R2 refuses: logging macro argument outside the side-effect-free allow-list: {}",
                            m.mac.tokens
                        ));
                    }
                    self.rules.insert("R2".into());
                    continue;
                }
            }
            if let syn::Stmt::Expr(syn::Expr::Macro(m), _) = &st {
                let last = m.mac.path.segments.last().map(|s| s.ident.to_string()).unwrap_or_default();
                if is_tracing_macro(&m.mac.path) || self.drop_macros.contains(&last) {
                    if !log_args_side_effect_free(&m.mac.tokens) {
                        die(format!(
                            "R2 refuses: logging macro argument outside the side-effect-free allow-list: {}",
                            m.mac.tokens
                        ));
                    }
                    self.rules.insert("R2".into());
                    continue;
                }
            }
            // a kept statement loses its (already evaluated) cfg and lint attributes (R1/R3)
            let mut st = st;
            match &mut st {
                syn::Stmt::Expr(e, _) => { if let Some(a) = expr_attrs_mut(e) { if !a.is_empty() { a.clear(); self.rules.insert("R3".into()); } } }
                syn::Stmt::Macro(m) => { m.attrs.clear(); }
                _ => {}
            }
            // R13: (debug_)assert_eq!/assert_ne!(a, b, ..) -> (debug_)assert!(a == b) / (a != b): same panic condition
            let mut st = st;
            if let syn::Stmt::Macro(m) = &mut st {
                let last = m.mac.path.segments.last().map(|s| s.ident.to_string()).unwrap_or_default();
                let (newname, op) = match last.as_str() {
                    "debug_assert_ne" => ("debug_assert", "!="),
                    "debug_assert_eq" => ("debug_assert", "=="),
                    "assert_ne" => ("assert", "!="),
                    "assert_eq" => ("assert", "=="),
                    _ => ("", ""),
                };
                if !newname.is_empty() {
                    let args: syn::punctuated::Punctuated<syn::Expr, syn::Token![,]> = m
                        .mac
                        .parse_body_with(syn::punctuated::Punctuated::parse_terminated)
                        .unwrap_or_else(|e| die(format!("R13: cannot parse {}!: {}", last, e)));
                    if args.len() < 2 { die("R13: assert_eq/ne needs two arguments"); }
                    let a = &args[0];
                    let b2 = &args[1];
                    let ts: TokenStream = if op == "!=" { quote::quote!((#a) != (#b2)) } else { quote::quote!((#a) == (#b2)) };
                    m.mac.tokens = ts;
                    m.mac.path = syn::parse_str(newname).unwrap();
                    self.rules.insert("R13".into());
                }
            }
            out.push(st);
        }
        b.stmts = out;
        visit_mut::visit_block_mut(self, b);
    }

    fn visit_expr_closure_mut(&mut self, c: &mut syn::ExprClosure) {
        // R18: a destructuring closure parameter `|(a, b)| body` becomes `|vx_pN| { let (a, b) = vx_pN; body }`
        {
            let mut lets: Vec<syn::Stmt> = vec![];
            let mut k = 0;
            for p in c.inputs.iter_mut() {
                let is_pattern = matches!(p, syn::Pat::Tuple(_) | syn::Pat::TupleStruct(_) | syn::Pat::Struct(_) | syn::Pat::Reference(_));
                if is_pattern {
                    let id = syn::Ident::new(&format!("vx_p{}", k), Span::call_site());
                    let pat = p.clone();
                    lets.push(syn::parse_quote!(let #pat = #id;));
                    *p = syn::parse_quote!(#id);
                    self.rules.insert("R18".into());
                }
                k += 1;
            }
            if !lets.is_empty() {
                let body = (*c.body).clone();
                c.body = Box::new(syn::parse_quote!({ #(#lets)* #body }));
            }
        }
        // R12: a wildcard closure parameter `_` becomes a fresh unused identifier (Verus accepts only variables there)
        let mut n = 0;
        for p in c.inputs.iter_mut() {
            if let syn::Pat::Wild(_) = p {
                let id = syn::Ident::new(&format!("_vx_wild{}", n), Span::call_site());
                *p = syn::parse_quote!(#id);
                self.rules.insert("R12".into());
            }
            n += 1;
        }
        if !self.closure_method_map.is_empty() {
            struct Ren<'m> { map: &'m BTreeMap<String, String>, hit: bool }
            impl<'m> VisitMut for Ren<'m> {
                fn visit_expr_method_call_mut(&mut self, m: &mut syn::ExprMethodCall) {
                    if let Some(t) = self.map.get(&m.method.to_string()) { m.method = syn::Ident::new(t, m.method.span()); self.hit = true; }
                    visit_mut::visit_expr_method_call_mut(self, m);
                }
            }
            let mut r = Ren { map: &self.closure_method_map, hit: false };
            r.visit_expr_mut(&mut c.body);
            if r.hit { self.rules.insert("R25".into()); }
        }
        visit_mut::visit_expr_closure_mut(self, c);
    }

    fn visit_local_mut(&mut self, l: &mut syn::Local) {
        self.filter_attrs(&mut l.attrs);
        visit_mut::visit_local_mut(self, l);
    }

    fn visit_expr_struct_mut(&mut self, e: &mut syn::ExprStruct) {
        let cfg = self.cfg;
        let kept: Vec<syn::FieldValue> = e.fields.iter().filter(|f| cfg.keep(&f.attrs)).cloned().collect();
        e.fields = kept.into_iter().collect();
        for f in e.fields.iter_mut() {
            self.filter_attrs(&mut f.attrs);
        }
        visit_mut::visit_expr_struct_mut(self, e);
    }

    fn visit_expr_match_mut(&mut self, e: &mut syn::ExprMatch) {
        let cfg = self.cfg;
        e.arms.retain(|a| cfg.keep(&a.attrs));
        for a in e.arms.iter_mut() {
            self.filter_attrs(&mut a.attrs);
        }
        visit_mut::visit_expr_match_mut(self, e);
    }

    fn visit_expr_mut(&mut self, e: &mut syn::Expr) {
        // R24: `for .. { A; if c { continue; } B }` becomes `for .. { A; if c { } else { B } }` (Verus has no `continue` in for-loops)
        if let syn::Expr::ForLoop(f) = e {
            loop {
                let pos = f.body.stmts.iter().position(|st| match st {
                    syn::Stmt::Expr(syn::Expr::If(i), _) => i.else_branch.is_none() && i.then_branch.stmts.len() == 1
                        && matches!(&i.then_branch.stmts[0], syn::Stmt::Expr(syn::Expr::Continue(c), _) if c.label.is_none()),
                    _ => false,
                });
                let Some(pos) = pos else { break };
                let rest: Vec<syn::Stmt> = f.body.stmts.split_off(pos + 1);
                let cond = match f.body.stmts.pop() { Some(syn::Stmt::Expr(syn::Expr::If(i), _)) => (*i.cond).clone(), _ => unreachable!() };
                f.body.stmts.push(syn::Stmt::Expr(syn::parse_quote!(if #cond { } else { #(#rest)* }), None));
                self.rules.insert("R24".into());
            }
        }
        // R35: match on `E.as_str()` with string-literal arms -> if-chain over `vx_str_is(&E, "lit")`
        if self.expand_str_match {
            let mut repl: Option<syn::Expr> = None;
            if let syn::Expr::Match(mt) = e {
                if let syn::Expr::MethodCall(mc) = &*mt.expr {
                    if mc.method == "as_str" && mc.args.is_empty() && !mt.arms.is_empty() {
                        let n = mt.arms.len();
                        let shape_ok = mt.arms.iter().enumerate().all(|(i, a)| a.guard.is_none() && if i + 1 == n { matches!(a.pat, syn::Pat::Wild(_)) } else {
                            matches!(&a.pat, syn::Pat::Lit(l) if matches!(l.lit, syn::Lit::Str(_))) });
                        if shape_ok {
                            let recv = (*mc.receiver).clone();
                            let mut acc: syn::Expr = { let b = &mt.arms[n - 1].body; syn::parse_quote!({ #b }) };
                            for a in mt.arms[..n - 1].iter().rev() {
                                let lit = match &a.pat { syn::Pat::Lit(l) => l.lit.clone(), _ => unreachable!() };
                                let b = &a.body;
                                acc = syn::parse_quote!(if vx_str_is(&#recv, #lit) { #b } else #acc);
                            }
                            repl = Some(acc);
                        }
                    }
                }
            }
            if let Some(r) = repl { *e = r; self.rules.insert("R35".into()); }
        }
        // R37: `E.retain_mut(|P| B)` -> the index loop that `retain_mut` means
        if self.expand_retain_mut_loops {
            let mut repl: Option<syn::Expr> = None;
            if let syn::Expr::MethodCall(mc) = e {
                if mc.method == "retain_mut" && mc.args.len() == 1 && mc.turbofish.is_none() {
                    if let syn::Expr::Closure(c) = &mc.args[0] {
                        struct Esc3(bool);
                        impl<'ast> syn::visit::Visit<'ast> for Esc3 {
                            fn visit_expr_return(&mut self, _r: &'ast syn::ExprReturn) { self.0 = true; }
                            fn visit_expr_try(&mut self, _r: &'ast syn::ExprTry) { self.0 = true; }
                            fn visit_expr_await(&mut self, _r: &'ast syn::ExprAwait) { self.0 = true; }
                            fn visit_expr_closure(&mut self, _c: &'ast syn::ExprClosure) {}
                        }
                        let mut esc = Esc3(false);
                        syn::visit::Visit::visit_expr(&mut esc, &c.body);
                        if c.inputs.len() == 1 && !esc.0 && c.asyncness.is_none() {
                            let recv = (*mc.receiver).clone();
                            let pat = c.inputs[0].clone();
                            let body = (*c.body).clone();
                            repl = Some(syn::parse_quote!({
                                let mut vx_i: usize = 0;
                                while vx_i < #recv.vx_len() {
                                    let vx_keep: bool = { let #pat = #recv.vx_item_mut_at(vx_i); #body };
                                    if vx_keep { vx_i += 1; } else { #recv.vx_remove_at(vx_i); }
                                }
                            }));
                        }
                    }
                }
            }
            if let Some(r) = repl { *e = r; self.rules.insert("R37".into()); }
        }
        // R34: `for P in E.values_mut() { B }` -> index loop over the stand-in enumeration of the map's values
        if self.expand_values_mut_loops {
            let mut repl: Option<syn::Expr> = None;
            if let syn::Expr::ForLoop(f) = e {
                if let syn::Expr::MethodCall(mc) = &*f.expr {
                    if f.label.is_none() && mc.method == "values_mut" && mc.args.is_empty() {
                        struct HasCont(bool);
                        impl<'ast> syn::visit::Visit<'ast> for HasCont {
                            fn visit_expr_continue(&mut self, _c: &'ast syn::ExprContinue) { self.0 = true; }
                            fn visit_expr_closure(&mut self, _c: &'ast syn::ExprClosure) {}
                        }
                        let mut hc = HasCont(false);
                        syn::visit::Visit::visit_block(&mut hc, &f.body);
                        if !hc.0 {
                            let recv = (*mc.receiver).clone();
                            let pat = (*f.pat).clone();
                            let stmts = f.body.stmts.clone();
                            // a body ending in a tail expression (of type `()`) gets its `;`
                            let mut stmts2: Vec<syn::Stmt> = vec![];
                            for st in stmts { match st { syn::Stmt::Expr(x, None) => stmts2.push(syn::Stmt::Expr(x, Some(Default::default()))), o => stmts2.push(o) } }
                            repl = Some(syn::parse_quote!({
                                let mut vx_i: usize = 0;
                                let vx_n: usize = #recv.vx_len();
                                while vx_i < vx_n {
                                    let #pat = #recv.vx_value_mut_at(vx_i);
                                    #(#stmts2)*
                                    vx_i += 1;
                                }
                            }));
                        }
                    }
                }
            }
            if let Some(r) = repl { *e = r; self.rules.insert("R34".into()); }
        }
        // R7: an async block is projected to the block itself (evaluated where it stands; its output is the block's value)
        if !self.async_projection.is_empty() {
            if let syn::Expr::Async(a) = e {
                // `?` / `return` inside an async block leave the BLOCK; after projection they would leave the function: only the same
                // thing when the block is the future the function returns (tail position of an `impl Future` function)
                struct Esc2(bool);
                impl<'ast> syn::visit::Visit<'ast> for Esc2 {
                    fn visit_expr_return(&mut self, _r: &'ast syn::ExprReturn) { self.0 = true; }
                    fn visit_expr_try(&mut self, _r: &'ast syn::ExprTry) { self.0 = true; }
                    fn visit_expr_closure(&mut self, _c: &'ast syn::ExprClosure) {}
                    fn visit_expr_async(&mut self, _c: &'ast syn::ExprAsync) {}
                }
                let mut esc = Esc2(false);
                syn::visit::Visit::visit_block(&mut esc, &a.block);
                // a spawned task of the form `async move { loop { .. return; .. } }`: a value-less `return` directly inside that single
                // loop ends the task, exactly like `break` ends the loop that is the whole block
                if esc.0 && a.block.stmts.len() == 1 {
                    let is_loop = matches!(&a.block.stmts[0], syn::Stmt::Expr(syn::Expr::Loop(_), _));
                    if is_loop {
                        struct RetToBreak { depth: usize, ok: bool, hit: bool }
                        impl VisitMut for RetToBreak {
                            fn visit_expr_mut(&mut self, e: &mut syn::Expr) {
                                match e {
                                    syn::Expr::Return(r) => {
                                        if r.expr.is_some() || self.depth != 1 { self.ok = false; } else { *e = syn::parse_quote!(break); self.hit = true; }
                                    }
                                    syn::Expr::Try(_) => { self.ok = false; }
                                    syn::Expr::Loop(_) | syn::Expr::While(_) | syn::Expr::ForLoop(_) => { self.depth += 1; visit_mut::visit_expr_mut(self, e); self.depth -= 1; }
                                    syn::Expr::Closure(_) | syn::Expr::Async(_) => {}
                                    _ => visit_mut::visit_expr_mut(self, e),
                                }
                            }
                        }
                        let mut rb = RetToBreak { depth: 0, ok: true, hit: false };
                        let mut blk = a.block.clone();
                        rb.visit_block_mut(&mut blk);
                        if rb.ok && rb.hit { a.block = blk; esc.0 = false; self.rules.insert("R7".into()); }
                    }
                }
                if esc.0 {
                    if self.escaping_async_blocks_allowed == 0 { die("R7 refuses: an async block that is not the returned future contains `?`/`return`"); }
                    self.escaping_async_blocks_allowed -= 1;
                }
                let b = a.block.clone();
                *e = syn::Expr::Block(syn::ExprBlock { attrs: vec![], label: None, block: b });
                self.rules.insert("R7".into());
            }
        }
        // R7: drop `.await`
        if !self.async_projection.is_empty() {
            if let syn::Expr::Await(a) = e {
                let inner = (*a.base).clone();
                let callee_last = match &inner {
                    syn::Expr::Call(c) => match &*c.func { syn::Expr::Path(p) => p.path.segments.last().map(|s| s.ident.to_string()), _ => None },
                    syn::Expr::MethodCall(m) => Some(m.method.to_string()),
                    _ => None,
                };
                // awaiting a call to an `async fn` free helper that R27 will inline: the await of its future is the evaluation of its body
                let inlined_async_helper = match &inner {
                    syn::Expr::Call(c) => match &*c.func {
                        syn::Expr::Path(p) if p.qself.is_none() && p.path.segments.len() == 1 =>
                            self.inline_free.get(&p.path.segments[0].ident.to_string()).map(|h| h.sig.asyncness.is_some()).unwrap_or(false),
                        _ => false },
                    _ => false,
                };
                let erase = inlined_async_helper || callee_last.map(|n| self.await_erase_calls.contains(&n)).unwrap_or(false);
                if self.async_projection == "call" && !erase {
                    *e = syn::parse_quote!(vx_await(#inner));
                } else {
                    *e = inner;
                }
                self.rules.insert("R7".into());
            }
        }
        // R8: erase arguments of listed callees
        if !self.erase_args_of.is_empty() {
            if let syn::Expr::Call(c) = e {
                if let syn::Expr::Path(p) = &*c.func {
                    let last = p.path.segments.last().map(|s| s.ident.to_string()).unwrap_or_default();
                    if self.erase_args_of.contains(&last) {
                        c.args = syn::punctuated::Punctuated::new();
                        c.args.push(syn::parse_quote!(()));
                        self.rules.insert("R8".into());
                    }
                }
            }
        }
        // R17: `matches!(e, pat [if g])` is expanded to its definition `match e { pat [if g] => true, _ => false }`
        // (so that paths inside the macro tokens are seen by the other rules and by the verifier's own macro-free view)
        if let syn::Expr::Macro(m) = e {
            if m.mac.path.is_ident("matches") {
                struct MatchesArgs { e: syn::Expr, pat: syn::Pat, guard: Option<syn::Expr> }
                impl syn::parse::Parse for MatchesArgs {
                    fn parse(input: syn::parse::ParseStream) -> syn::Result<Self> {
                        let e: syn::Expr = input.parse()?;
                        let _: syn::Token![,] = input.parse()?;
                        let pat = syn::Pat::parse_multi_with_leading_vert(input)?;
                        let guard = if input.peek(syn::Token![if]) { let _: syn::Token![if] = input.parse()?; Some(input.parse()?) } else { None };
                        let _: Option<syn::Token![,]> = input.parse()?;
                        Ok(MatchesArgs { e, pat, guard })
                    }
                }
                if let Ok(a) = syn::parse2::<MatchesArgs>(m.mac.tokens.clone()) {
                    let (ex, pat) = (a.e, a.pat);
                    *e = match a.guard {
                        Some(g) => syn::parse_quote!(match #ex { #pat if #g => true, _ => false }),
                        None => syn::parse_quote!(match #ex { #pat => true, _ => false }),
                    };
                    self.rules.insert("R17".into());
                }
            }
        }
        // R16: `format!(..)` in expression position becomes `vx_format()` (an unconstrained String): the contracts
        // never depend on message text; arguments must be side-effect free (R2's allow-list)
        if let syn::Expr::Macro(m) = e {
            let last = m.mac.path.segments.last().map(|s| s.ident.to_string()).unwrap_or_default();
            if last == "format" {
                if !log_args_side_effect_free(&m.mac.tokens) {
                    die(format!("R16 refuses: format! argument outside the side-effect-free allow-list: {}", m.mac.tokens));
                }
                *e = syn::parse_quote!(vx_format());
                self.rules.insert("R16".into());
            }
        }
        visit_mut::visit_expr_mut(self, e);
        // R27: a call `recv.helper(args)` of a sibling method that has no contract and no stand-in is replaced by the helper's body
        // (arguments bound first, `self` := recv).  Only for helpers without `return`/`?`/await, with plain identifier parameters,
        // called on a place expression; anything else is left alone (=> the call does not resolve => undecided)
        if !self.inline_table.is_empty() && self.inline_depth < 2 {
            if let syn::Expr::MethodCall(m) = e {
                if let Some(mut h) = self.inline_table.get(&m.method.to_string()).cloned() {
                    if let Some(st2) = eliminate_guard_returns(&h.block.stmts) { h.block.stmts = st2; }
                    struct Esc3(bool);
                    impl<'ast> syn::visit::Visit<'ast> for Esc3 {
                        fn visit_expr_return(&mut self, _r: &'ast syn::ExprReturn) { self.0 = true; }
                        fn visit_expr_try(&mut self, _r: &'ast syn::ExprTry) { self.0 = true; }
                        fn visit_expr_await(&mut self, _r: &'ast syn::ExprAwait) { self.0 = true; }
                        fn visit_expr_closure(&mut self, _c: &'ast syn::ExprClosure) {}
                    }
                    let mut esc = Esc3(false);
                    syn::visit::Visit::visit_block(&mut esc, &h.block);
                    let recv_ok = is_place(&m.receiver);
                    let has_ref_recv = matches!(h.sig.inputs.first(), Some(syn::FnArg::Receiver(r)) if r.reference.is_some());
                    let mut params: Vec<syn::Ident> = vec![];
                    let mut params_ok = true;
                    for a in h.sig.inputs.iter().skip(1) {
                        match a {
                            syn::FnArg::Typed(t) => match &*t.pat { syn::Pat::Ident(pi) if pi.by_ref.is_none() && pi.subpat.is_none() => params.push(pi.ident.clone()), _ => params_ok = false },
                            _ => params_ok = false,
                        }
                    }
                    // generic helper: only type parameters, all given by the call's turbofish
                    let mut tymap: BTreeMap<String, syn::Type> = BTreeMap::new();
                    let mut generics_ok = true;
                    let gparams: Vec<&syn::GenericParam> = h.sig.generics.params.iter().collect();
                    if !gparams.is_empty() {
                        match &m.turbofish {
                            Some(tf) if tf.args.len() == gparams.len() => {
                                for (gp, ga) in gparams.iter().zip(tf.args.iter()) {
                                    match (gp, ga) {
                                        (syn::GenericParam::Type(tp), syn::GenericArgument::Type(ty)) => { tymap.insert(tp.ident.to_string(), ty.clone()); }
                                        _ => generics_ok = false,
                                    }
                                }
                            }
                            _ => generics_ok = false,
                        }
                    }
                    if !esc.0 && recv_ok && has_ref_recv && params_ok && h.sig.asyncness.is_none() && generics_ok && params.len() == m.args.len() {
                        let mut body = h.block.clone();
                        if !tymap.is_empty() { TySubst { map: &tymap }.visit_block_mut(&mut body); }
                        let recv = (*m.receiver).clone();
                        SelfSubst { recv: &recv }.visit_block_mut(&mut body);
                        let args: Vec<syn::Expr> = m.args.iter().cloned().collect();
                        let stmts = &body.stmts;
                        let mut new_e: syn::Expr = syn::parse_quote!({ #( let #params = #args; )* #(#stmts)* });
                        self.inline_depth += 1;
                        self.visit_expr_mut(&mut new_e);
                        self.inline_depth -= 1;
                        *e = new_e;
                        self.rules.insert(format!("R27({})", h.sig.ident));
                        return;
                    }
                }
            }
        }
        // R27 (associated functions): `Self::helper(args)` / `Type::helper(args)` without a receiver
        if (!self.inline_table.is_empty() || !self.inline_free.is_empty()) && self.inline_depth < 2 {
            if let syn::Expr::Call(c) = e {
                if let syn::Expr::Path(fp) = &*c.func {
                    let segs: Vec<String> = fp.path.segments.iter().map(|s| s.ident.to_string()).collect();
                    let looked_up = if fp.qself.is_some() { None }
                        else if segs.len() == 2 { self.inline_table.get(&segs[1]).cloned() }
                        else if segs.len() == 1 { self.inline_free.get(&segs[0]).cloned() }
                        else { None };
                    if looked_up.is_some() {
                        if let Some(mut h) = looked_up {
                            let no_recv = !matches!(h.sig.inputs.first(), Some(syn::FnArg::Receiver(_)));
                            if let Some(st2) = eliminate_guard_returns(&h.block.stmts) { h.block.stmts = st2; }
                            struct Esc4(bool);
                            impl<'ast> syn::visit::Visit<'ast> for Esc4 {
                                fn visit_expr_return(&mut self, _r: &'ast syn::ExprReturn) { self.0 = true; }
                                fn visit_expr_try(&mut self, _r: &'ast syn::ExprTry) { self.0 = true; }
                                fn visit_expr_await(&mut self, _r: &'ast syn::ExprAwait) { self.0 = true; }
                                fn visit_expr_closure(&mut self, _c: &'ast syn::ExprClosure) {}
                            }
                            let mut esc = Esc4(false);
                            syn::visit::Visit::visit_block(&mut esc, &h.block);
                            let mut params: Vec<syn::Ident> = vec![];
                            let mut params_ok = true;
                            for a in h.sig.inputs.iter() {
                                match a {
                                    syn::FnArg::Typed(t) => match &*t.pat { syn::Pat::Ident(pi) if pi.by_ref.is_none() && pi.subpat.is_none() => params.push(pi.ident.clone()), _ => params_ok = false },
                                    _ => params_ok = false,
                                }
                            }
                            // an `async fn` helper / a helper that awaits is only read where the enclosing item is projected by R7 (its awaits
                            // are then projected like the caller's own); `return`/`?` still refuse
                            struct Esc5(bool);
                            impl<'ast> syn::visit::Visit<'ast> for Esc5 {
                                fn visit_expr_return(&mut self, _r: &'ast syn::ExprReturn) { self.0 = true; }
                                fn visit_expr_try(&mut self, _r: &'ast syn::ExprTry) { self.0 = true; }
                                fn visit_expr_closure(&mut self, _c: &'ast syn::ExprClosure) {}
                            }
                            let mut esc5 = Esc5(false);
                            syn::visit::Visit::visit_block(&mut esc5, &h.block);
                            let is_free = segs.len() == 1;
                            let async_ok = if is_free && !self.async_projection.is_empty() { !esc5.0 } else { !esc.0 && h.sig.asyncness.is_none() };
                            // generic free helper: type parameters only; given by the call's turbofish, else left to inference (`_`)
                            let mut tymap: BTreeMap<String, syn::Type> = BTreeMap::new();
                            let mut generics_ok = true;
                            let gparams: Vec<&syn::GenericParam> = h.sig.generics.params.iter().collect();
                            if !gparams.is_empty() && !is_free { generics_ok = false; }
                            if !gparams.is_empty() && is_free {
                                let tf: Option<Vec<syn::GenericArgument>> = match &fp.path.segments.last().unwrap().arguments {
                                    syn::PathArguments::AngleBracketed(a) => Some(a.args.iter().cloned().collect()),
                                    syn::PathArguments::None => None,
                                    _ => { generics_ok = false; None }
                                };
                                for (i, gp) in gparams.iter().enumerate() {
                                    match gp {
                                        syn::GenericParam::Type(tp) => {
                                            let ty: syn::Type = match &tf {
                                                Some(v) if v.len() == gparams.len() => match &v[i] { syn::GenericArgument::Type(t) => t.clone(), _ => { generics_ok = false; syn::parse_quote!(_) } },
                                                Some(_) => { generics_ok = false; syn::parse_quote!(_) }
                                                None => syn::parse_quote!(_),
                                            };
                                            tymap.insert(tp.ident.to_string(), ty);
                                        }
                                        _ => generics_ok = false,
                                    }
                                }
                            }
                            if no_recv && async_ok && params_ok && generics_ok && params.len() == c.args.len() {
                                let args: Vec<syn::Expr> = c.args.iter().cloned().collect();
                                if !tymap.is_empty() { TySubst { map: &tymap }.visit_block_mut(&mut h.block); }
                                let stmts = &h.block.stmts;
                                let mut new_e: syn::Expr = syn::parse_quote!({ #( let #params = #args; )* #(#stmts)* });
                                self.inline_depth += 1;
                                self.visit_expr_mut(&mut new_e);
                                self.inline_depth -= 1;
                                *e = new_e;
                                self.rules.insert(format!("R27({})", h.sig.ident));
                                return;
                            }
                        }
                    }
                }
            }
        }
        // R20 (index form): `X[i] = v` (X a plain identifier) becomes `X.set(i, v)` -- vstd's name for the same store on a Vec
        if self.index_store {
            if let syn::Expr::Assign(a) = e {
                if let syn::Expr::Index(ix) = &*a.left {
                    if let syn::Expr::Path(p) = &*ix.expr {
                        if p.path.get_ident().is_some() {
                            let (x, i, v) = (p.clone(), (*ix.index).clone(), (*a.right).clone());
                            *e = syn::parse_quote!(#x.set(#i, #v));
                            self.rules.insert("R20".into());
                        }
                    }
                }
            }
        }
        // R20: store through a guard
        if self.deref_store {
            if let syn::Expr::Assign(a) = e {
                if let syn::Expr::Unary(u) = &*a.left {
                    if matches!(u.op, syn::UnOp::Deref(_)) {
                        if let syn::Expr::Path(p) = &*u.expr {
                            if p.path.get_ident().is_some() {
                                let (x, v) = (p.clone(), (*a.right).clone());
                                *e = syn::parse_quote!(#x.vx_store(#v));
                                self.rules.insert("R20".into());
                            }
                        }
                    }
                }
            }
        }
        // R21: map_or_else
        if self.expand_map_or_else {
            if let syn::Expr::MethodCall(m) = e {
                if m.method == "map_or_else" && m.args.len() == 2 {
                    if let (syn::Expr::Path(d), syn::Expr::Closure(c)) = (&m.args[0], &m.args[1]) {
                        if c.inputs.len() == 1 {
                            let (recv, d, pat, body) = ((*m.receiver).clone(), d.clone(), c.inputs[0].clone(), (*c.body).clone());
                            *e = syn::parse_quote!(match (#recv) { None => #d(), Some(#pat) => #body });
                            self.rules.insert("R21".into());
                        }
                    }
                }
            }
        }
        if self.expand_option_combinators {
            if let syn::Expr::MethodCall(m) = e {
                if (m.method == "and_then" || m.method == "map" || (m.method == "filter" && self.expand_option_filter)) && m.args.len() == 1 && m.turbofish.is_none() {
                    if let syn::Expr::Closure(c) = &m.args[0] {
                        struct Esc(bool);
                        impl<'ast> syn::visit::Visit<'ast> for Esc {
                            fn visit_expr_return(&mut self, _r: &'ast syn::ExprReturn) { self.0 = true; }
                            fn visit_expr_try(&mut self, _r: &'ast syn::ExprTry) { self.0 = true; }
                            fn visit_expr_await(&mut self, _r: &'ast syn::ExprAwait) { self.0 = true; }
                            fn visit_expr_closure(&mut self, _c: &'ast syn::ExprClosure) {}
                        }
                        let mut esc = Esc(false);
                        syn::visit::Visit::visit_expr(&mut esc, &c.body);
                        if c.inputs.len() == 1 && !esc.0 && c.capture.is_none() {
                            let pat0 = match &c.inputs[0] { syn::Pat::Type(pt) => (*pt.pat).clone(), p => p.clone() };
                            let (recv, pat, body) = ((*m.receiver).clone(), pat0, (*c.body).clone());
                            *e = if m.method == "and_then" {
                                syn::parse_quote!(match (#recv) { Some(#pat) => #body, None => None })
                            } else if m.method == "filter" {
                                // `Option::filter(|p| B)`: the predicate sees a reference to the value
                                syn::parse_quote!(match (#recv) { Some(vx_some) => { let keep = { let #pat = &vx_some; #body }; if keep { Some(vx_some) } else { None } }, None => None })
                            } else {
                                syn::parse_quote!(match (#recv) { Some(#pat) => Some(#body), None => None })
                            };
                            self.rules.insert("R21".into());
                        }
                    }
                }
            }
        }
        // R31: eta-expansion of constructor paths passed as function values
        if let syn::Expr::MethodCall(mc) = e {
            if self.eta_expand_in.contains(&mc.method.to_string()) && mc.args.len() == 1 {
                if let syn::Expr::Path(p) = &mc.args[0] {
                    let last_upper = p.path.segments.last().map(|x| x.ident.to_string().chars().next().map(|c| c.is_uppercase()).unwrap_or(false)).unwrap_or(false);
                    if last_upper && p.path.segments.len() >= 2 {
                        let path = p.clone();
                        mc.args[0] = syn::parse_quote!(|vx_x| #path(vx_x));
                        self.rules.insert("R31".into());
                    }
                }
            }
        }
        // R22: chainmap: pattern expressions with metavariables `__`, `__1`, .. (any expression) over closure-free method chains
        if !self.chainmap.is_empty() {
            for (pat, templ) in self.chainmap.clone() {
                let mut binds: BTreeMap<String, syn::Expr> = BTreeMap::new();
                if match_pat(&pat, e, &mut binds) {
                    let mut out = templ.clone();
                    Subst { binds: &binds }.visit_expr_mut(&mut out);
                    *e = out;
                    self.rules.insert("R22".into());
                    break;
                }
            }
        }
        // R32: `if let [x] = E.as_slice() { B }` (a one-element slice pattern) is `if E.len() == 1 { let x = &E[0]; B }`
        if let syn::Expr::If(ifx) = e {
            if let syn::Expr::Let(l) = &*ifx.cond {
                if let (syn::Pat::Slice(ps), syn::Expr::MethodCall(mc)) = (&*l.pat, &*l.expr) {
                    if ps.elems.len() == 1 && mc.method == "as_slice" && mc.args.is_empty() {
                        if let syn::Pat::Ident(pi) = &ps.elems[0] {
                            if pi.by_ref.is_none() && pi.mutability.is_none() && pi.subpat.is_none() {
                                let x = pi.ident.clone();
                                let recv = (*mc.receiver).clone();
                                let then_stmts = ifx.then_branch.stmts.clone();
                                ifx.cond = Box::new(syn::parse_quote!(#recv.len() == 1));
                                ifx.then_branch = syn::parse_quote!({ let #x = &#recv[0]; #(#then_stmts)* });
                                self.rules.insert("R32".into());
                            }
                        }
                    }
                }
            }
        }
        // R29: select!
        if let Some(biased) = self.select_biased {
            if let syn::Expr::Macro(m) = e {
                if m.mac.path.segments.last().map(|x| x.ident == "select").unwrap_or(false) {
                    struct Arm { pat: syn::Pat, fut: syn::Expr, body: syn::Expr }
                    struct Arms(Vec<Arm>);
                    impl syn::parse::Parse for Arms {
                        fn parse(input: syn::parse::ParseStream) -> syn::Result<Self> {
                            let mut v = vec![];
                            while !input.is_empty() {
                                let pat = syn::Pat::parse_single(input)?;
                                let _: syn::Token![=] = input.parse()?;
                                let fut: syn::Expr = input.parse()?;
                                let _: syn::Token![=>] = input.parse()?;
                                let body: syn::Expr = input.parse()?;
                                if input.peek(syn::Token![,]) { let _: syn::Token![,] = input.parse()?; }
                                v.push(Arm { pat, fut, body });
                            }
                            Ok(Arms(v))
                        }
                    }
                    let arms = syn::parse2::<Arms>(m.mac.tokens.clone()).unwrap_or_else(|er| die(format!("R29: cannot read the arms of select!: {}", er))).0;
                    let n = arms.len();
                    let f = syn::Ident::new(&format!("vx_select_{}_{}", if biased { "biased" } else { "fair" }, n), Span::call_site());
                    let ty = syn::Ident::new(&format!("VxSel{}", n), Span::call_site());
                    let mut futs: Vec<syn::Expr> = vec![];
                    let mut marms: Vec<syn::Arm> = vec![];
                    for (i, a) in arms.into_iter().enumerate() {
                        let mut fut = a.fut; let mut body = a.body;
                        self.visit_expr_mut(&mut fut);
                        self.visit_expr_mut(&mut body);
                        let v = syn::Ident::new(&format!("A{}", i), Span::call_site());
                        let pat = a.pat;
                        futs.push(fut);
                        marms.push(syn::parse_quote!(#ty::#v(#pat) => #body,));
                    }
                    *e = syn::parse_quote!(match #f(#(#futs),*) { #(#marms)* });
                    self.rules.insert("R29".into());
                    return;
                }
            }
        }
        // R26: cast!
        if self.expand_cast_macro {
            if let syn::Expr::Macro(m) = e {
                if m.mac.path.segments.last().map(|x| x.ident == "cast").unwrap_or(false) {
                    let parser = syn::punctuated::Punctuated::<syn::Expr, syn::Token![,]>::parse_terminated;
                    if let Ok(args) = syn::parse::Parser::parse2(parser, m.mac.tokens.clone()) {
                        if args.len() == 2 {
                            let mut a = args[0].clone();
                            let mut msg = args[1].clone();
                            self.visit_expr_mut(&mut a);
                            self.visit_expr_mut(&mut msg);
                            *e = syn::parse_quote!(#a.cast(#msg).map_err(|vx_e| RactorErr::from(vx_e)));
                            self.rules.insert("R26".into());
                            return;
                        }
                    }
                }
            }
        }
        // R7 (pinning): `std::pin::pin!(e)` pins a future in place; in the projection a future is a value: `vx_pin(e)` (identity stand-in)
        if let syn::Expr::Macro(m) = e {
            let segs: Vec<String> = m.mac.path.segments.iter().map(|x| x.ident.to_string()).collect();
            let is_pin = segs.last().map(|x| x == "pin").unwrap_or(false) && (segs.len() == 1 || segs[0] == "std" || segs[0] == "core");
            if is_pin && (self.async_projection == "erase" || self.async_projection == "call") {
                if let Ok(mut inner) = syn::parse2::<syn::Expr>(m.mac.tokens.clone()) {
                    self.visit_expr_mut(&mut inner);
                    *e = syn::parse_quote!(vx_pin(#inner));
                    self.rules.insert("R7".into());
                    return;
                }
            }
        }
        // R23: `vec![a, b, ..]` (list form) is expanded to its meaning: a fresh vector and one push per element
        if let syn::Expr::Macro(m) = e {
            if m.mac.path.is_ident("vec") {
                let parser = syn::punctuated::Punctuated::<syn::Expr, syn::Token![,]>::parse_terminated;
                struct Rep { x: syn::Expr, n: syn::Expr }
                impl syn::parse::Parse for Rep {
                    fn parse(input: syn::parse::ParseStream) -> syn::Result<Self> {
                        let x: syn::Expr = input.parse()?; let _: syn::Token![;] = input.parse()?; let n: syn::Expr = input.parse()?;
                        Ok(Rep { x, n })
                    }
                }
                if let Ok(mut rep) = syn::parse2::<Rep>(m.mac.tokens.clone()) {
                    // R23 (repeat form): `vec![x; n]` is the stand-in `vx_vec_repeat(x, n)` (n copies of x)
                    self.visit_expr_mut(&mut rep.x); self.visit_expr_mut(&mut rep.n);
                    let (x, n) = (rep.x, rep.n);
                    *e = syn::parse_quote!(vx_vec_repeat(#x, #n));
                    self.rules.insert("R23".into());
                    return;
                }
                if let Ok(elems) = syn::parse::Parser::parse2(parser, m.mac.tokens.clone()) {
                    let mut elems: Vec<syn::Expr> = elems.into_iter().collect();
                    for x in elems.iter_mut() { self.visit_expr_mut(x); }
                    *e = syn::parse_quote!({ let mut vx_vec = Vec::new(); #( vx_vec.push(#elems); )* vx_vec });
                    self.rules.insert("R23".into());
                }
            }
        }
        // R15 (after visiting children, so nested `?` are handled innermost first)
        if self.desugar_try {
            if let syn::Expr::Try(t) = e {
                let inner = (*t.expr).clone();
                *e = syn::parse_quote!(match (#inner) { Ok(vx_ok) => vx_ok, Err(vx_err) => return Err(From::from(vx_err)) });
                self.rules.insert("R15".into());
            }
        }
    }
}

fn expr_attrs_mut(e: &mut syn::Expr) -> Option<&mut Vec<syn::Attribute>> {
    use syn::Expr::*;
    Some(match e {
        Array(x) => &mut x.attrs, Assign(x) => &mut x.attrs, Async(x) => &mut x.attrs, Await(x) => &mut x.attrs,
        Binary(x) => &mut x.attrs, Block(x) => &mut x.attrs, Break(x) => &mut x.attrs, Call(x) => &mut x.attrs,
        Cast(x) => &mut x.attrs, Closure(x) => &mut x.attrs, Continue(x) => &mut x.attrs, Field(x) => &mut x.attrs,
        ForLoop(x) => &mut x.attrs, If(x) => &mut x.attrs, Index(x) => &mut x.attrs, Let(x) => &mut x.attrs,
        Lit(x) => &mut x.attrs, Loop(x) => &mut x.attrs, Macro(x) => &mut x.attrs, Match(x) => &mut x.attrs,
        MethodCall(x) => &mut x.attrs, Paren(x) => &mut x.attrs, Path(x) => &mut x.attrs, Range(x) => &mut x.attrs,
        Reference(x) => &mut x.attrs, Repeat(x) => &mut x.attrs, Return(x) => &mut x.attrs, Struct(x) => &mut x.attrs,
        Try(x) => &mut x.attrs, Tuple(x) => &mut x.attrs, Unary(x) => &mut x.attrs, While(x) => &mut x.attrs,
        _ => return None,
    })
}

fn expr_attrs(e: &syn::Expr) -> &[syn::Attribute] {
    use syn::Expr::*;
    match e {
        Array(x) => &x.attrs, Assign(x) => &x.attrs, Async(x) => &x.attrs, Await(x) => &x.attrs,
        Binary(x) => &x.attrs, Block(x) => &x.attrs, Break(x) => &x.attrs, Call(x) => &x.attrs,
        Cast(x) => &x.attrs, Closure(x) => &x.attrs, Continue(x) => &x.attrs, Field(x) => &x.attrs,
        ForLoop(x) => &x.attrs, If(x) => &x.attrs, Index(x) => &x.attrs, Let(x) => &x.attrs,
        Lit(x) => &x.attrs, Loop(x) => &x.attrs, Macro(x) => &x.attrs, Match(x) => &x.attrs,
        MethodCall(x) => &x.attrs, Paren(x) => &x.attrs, Path(x) => &x.attrs, Range(x) => &x.attrs,
        Reference(x) => &x.attrs, Repeat(x) => &x.attrs, Return(x) => &x.attrs, Struct(x) => &x.attrs,
        Try(x) => &x.attrs, Tuple(x) => &x.attrs, Unary(x) => &x.attrs, While(x) => &x.attrs,
        _ => &[],
    }
}

/// R14: `fn f(mut self, ..) { B }` -> `fn f(self, ..) { let mut vx_self = self; B[self := vx_self] }` (Verus rejects `mut self`)
struct SelfRenamer;
impl VisitMut for SelfRenamer {
    fn visit_expr_path_mut(&mut self, p: &mut syn::ExprPath) {
        if p.qself.is_none() && p.path.is_ident("self") {
            p.path = syn::parse_quote!(vx_self);
        }
    }
    fn visit_item_mut(&mut self, _i: &mut syn::Item) {}
}
/// R33: a destructuring parameter `PAT: T` -> `vx_arg<k>: T` (k = position among the non-receiver parameters, from 0) plus
/// `let PAT = vx_arg<k>;` as the first statement (the definition of a pattern parameter; Verus accepts only variables there)
fn rewrite_pat_params(sig: &mut syn::Signature, block: &mut syn::Block) -> bool {
    let mut lets: Vec<syn::Stmt> = vec![];
    let mut k = 0usize;
    for a in sig.inputs.iter_mut() {
        if let syn::FnArg::Typed(pt) = a {
            let simple = matches!(&*pt.pat, syn::Pat::Ident(pi) if pi.subpat.is_none() && pi.by_ref.is_none());
            if !simple && !matches!(&*pt.pat, syn::Pat::Wild(_)) {
                let id = syn::Ident::new(&format!("vx_arg{}", k), Span::call_site());
                let pat = (*pt.pat).clone();
                lets.push(syn::parse_quote!(let #pat = #id;));
                pt.pat = Box::new(syn::parse_quote!(#id));
            }
            k += 1;
        }
    }
    let hit = !lets.is_empty();
    for (i, l) in lets.into_iter().enumerate() { block.stmts.insert(i, l); }
    hit
}
fn rewrite_mut_self(sig: &mut syn::Signature, block: &mut syn::Block) -> bool {
    let mut hit = false;
    if let Some(syn::FnArg::Receiver(r)) = sig.inputs.first_mut() {
        if r.reference.is_none() && r.mutability.is_some() {
            r.mutability = None;
            hit = true;
        }
    }
    if hit {
        SelfRenamer.visit_block_mut(block);
        block.stmts.insert(0, syn::parse_quote!(let mut vx_self = self;));
    }
    hit
}

// ---------------------------------------------------------------- contract insertion (R5, R6, R10)

/// Numbers loops in source order (pre-order), attaches `#[vx_loop_<fn>_<k>]`, inserts proof
/// placeholders, and wraps call sites that need the ghost argument.
struct Annotator<'a> {
    fn_idx: usize,
    contract: Option<&'a FnContract>,
    loop_counter: usize,
    closure_counter: usize,
    /// anchor of the closure about to be visited: (callee, k) = k-th closure passed to a call of callee
    cur_anchor: Option<(String, usize)>,
    cur_arg_pos: usize,
    call_closure_counter: BTreeMap<String, usize>,
    uncontracted_closures: usize,
    derived_closures: Vec<(String, String)>,
    used_closures: BTreeSet<usize>,
    used_loops: BTreeSet<usize>,
    used_calls: BTreeSet<usize>,
    used_points: BTreeSet<usize>,
    rules: BTreeSet<String>,
}
/// names of the functions / methods a statement calls outside nested blocks and closures
struct DirectCalls { names: Vec<String> }
impl<'ast> syn::visit::Visit<'ast> for DirectCalls {
    fn visit_block(&mut self, _b: &'ast syn::Block) {}
    fn visit_expr_closure(&mut self, _c: &'ast syn::ExprClosure) {}
    fn visit_expr_method_call(&mut self, m: &'ast syn::ExprMethodCall) {
        self.names.push(m.method.to_string());
        syn::visit::visit_expr_method_call(self, m);
    }
    fn visit_expr_call(&mut self, c: &'ast syn::ExprCall) {
        if let syn::Expr::Path(p) = &*c.func { if let Some(l) = p.path.segments.last() { self.names.push(l.ident.to_string()); } }
        syn::visit::visit_expr_call(self, c);
    }
}

fn callee_name(e: &syn::Expr) -> Option<String> {
    match e {
        syn::Expr::Call(c) => match &*c.func {
            syn::Expr::Path(p) => Some(
                p.path.segments.iter().map(|s| s.ident.to_string()).collect::<Vec<_>>().join("::"),
            ),
            _ => None,
        },
        syn::Expr::MethodCall(m) => {
            let recv = norm_tokens(&m.receiver.to_token_stream());
            Some(format!("{}.{}", recv, m.method))
        }
        _ => None,
    }
}

impl<'a> Annotator<'a> {
    fn call_with(&mut self, e: &syn::Expr) -> Option<String> {
        let c = self.contract?;
        let name = callee_name(e)?;
        for (i, cw) in c.calls.iter().enumerate() {
            let matches = if cw.pattern.contains('.') || cw.pattern.contains("::") {
                name == cw.pattern || name.ends_with(&format!(".{}", cw.pattern)) && false
            } else {
                // bare name: last segment of a path call or method name
                name.rsplit(|ch| ch == '.' || ch == ':').next() == Some(cw.pattern.as_str())
            };
            if matches {
                self.used_calls.insert(i);
                return Some(cw.with.clone());
            }
        }
        None
    }
}

impl<'a> VisitMut for Annotator<'a> {
    fn visit_expr_closure_mut(&mut self, c: &mut syn::ExprClosure) {
        // closures are numbered in source order; a contract with `match <text>` is attached to the first closure whose
        // body contains that token text instead, one with `at <callee>#k` to the k-th closure passed to a call of <callee>
        // (ordinal-independent anchors)
        let k = self.closure_counter;
        self.closure_counter += 1;
        let anchor = self.cur_anchor.take();
        let body_txt = norm_tokens(&c.body.to_token_stream());
        let mut chosen: Option<usize> = None;
        if let Some(ct) = self.contract {
            for (id, cc) in ct.closures.iter() {
                if self.used_closures.contains(id) { continue; }
                if let Some(at) = &cc.at_call {
                    if anchor.as_ref() == Some(at) { chosen = Some(*id); break; }
                    continue;
                }
                match &cc.match_text {
                    Some(t) => { if body_txt.contains(t.as_str()) { chosen = Some(*id); break; } }
                    None => { if *id == k { chosen = Some(*id); break; } }
                }
            }
        }
        if let Some(id) = chosen {
            self.used_closures.insert(id);
            let idn = syn::Ident::new(&format!("vx_closure_{}_{}", self.fn_idx, id), Span::call_site());
            // the parameter names travel with the marker: `$1`, `$2` in the clauses stand for them
            let names: Vec<syn::Ident> = c.inputs.iter().map(|p| {
                let mut q = p;
                if let syn::Pat::Type(t) = q { q = &*t.pat; }
                match q { syn::Pat::Ident(i) => i.ident.clone(), _ => syn::Ident::new("vx_no_name", Span::call_site()) }
            }).collect();
            c.attrs.push(syn::parse_quote!(#[#idn(#(#names),*)]));
            self.rules.insert("R5".into());
        } else {
            // R28: derived postcondition for a pure-expression closure passed to a listed callee
            let ty = anchor.as_ref().and_then(|(callee, _)| self.contract.and_then(|ct| ct.pure_closures.get(&format!("{}.{}", callee, self.cur_arg_pos)).or_else(|| ct.pure_closures.get(callee))));
            match ty {
                Some(ty) if is_pure_spec_expr(&c.body) => {
                    let idn = syn::Ident::new(&format!("vx_pcl_{}_{}", self.fn_idx, self.derived_closures.len()), Span::call_site());
                    self.derived_closures.push((ty.clone(), c.body.to_token_stream().to_string()));
                    c.attrs.push(syn::parse_quote!(#[#idn]));
                    self.rules.insert("R28".into());
                }
                _ => { self.uncontracted_closures += 1; }
            }
        }
        visit_mut::visit_expr_closure_mut(self, c);
    }

    fn visit_expr_method_call_mut(&mut self, m: &mut syn::ExprMethodCall) {
        self.visit_expr_mut(&mut m.receiver);
        let name = m.method.to_string();
        for (pos, a) in m.args.iter_mut().enumerate() {
            if matches!(a, syn::Expr::Closure(_)) {
                let k = self.call_closure_counter.entry(name.clone()).or_insert(0);
                self.cur_anchor = Some((name.clone(), *k));
                self.cur_arg_pos = pos;
                *k += 1;
            }
            self.visit_expr_mut(a);
            self.cur_anchor = None;
        }
    }

    fn visit_expr_call_mut(&mut self, m: &mut syn::ExprCall) {
        self.visit_expr_mut(&mut m.func);
        let name = match &*m.func { syn::Expr::Path(p) => p.path.segments.last().map(|s| s.ident.to_string()).unwrap_or_default(), _ => String::new() };
        for (pos, a) in m.args.iter_mut().enumerate() {
            if matches!(a, syn::Expr::Closure(_)) {
                let k = self.call_closure_counter.entry(name.clone()).or_insert(0);
                self.cur_anchor = Some((name.clone(), *k));
                self.cur_arg_pos = pos;
                *k += 1;
            }
            self.visit_expr_mut(a);
            self.cur_anchor = None;
        }
    }

    fn visit_stmt_mut(&mut self, s: &mut syn::Stmt) {
        // R10: a call whose value is discarded and that needs a ghost argument is wrapped in a block
        if let syn::Stmt::Expr(e, Some(_semi)) = s {
            if let Some(with) = self.call_with(e) {
                let mut inner = e.clone();
                // visit children first (arguments may contain calls too)
                visit_mut::visit_expr_mut(self, &mut inner);
                let attr = make_with_attr(&with);
                push_attr(&mut inner, attr);
                let blk: syn::Expr = syn::parse_quote!({ #inner });
                *s = syn::Stmt::Expr(blk, Some(Default::default()));
                self.rules.insert("R6".into());
                self.rules.insert("R10".into());
                return;
            }
        }
        visit_mut::visit_stmt_mut(self, s);
    }

    fn visit_block_mut(&mut self, b: &mut syn::Block) {
        // (loop contracts located by body text: see loop_key_for)
        let pts: Vec<ProofPoint> = self.contract.map(|c| c.proof_points.clone()).unwrap_or_default();
        if pts.is_empty() { visit_mut::visit_block_mut(self, b); return; }
        let mut out: Vec<syn::Stmt> = vec![];
        for mut st in std::mem::take(&mut b.stmts) {
            let direct_loop = matches!(&st, syn::Stmt::Expr(syn::Expr::While(_) | syn::Expr::Loop(_) | syn::Expr::ForLoop(_), _));
            if direct_loop {
                let k = match &st { syn::Stmt::Expr(le, _) => loop_key_for(self.contract, le, self.loop_counter).unwrap_or(usize::MAX), _ => usize::MAX };
                for (i, p) in pts.iter().enumerate() {
                    if matches!(&p.at, ProofAt::BeforeLoop(n) if *n == k) {
                        let mid = syn::Ident::new(&format!("vx_proof_pt_{}_{}", self.fn_idx, i), Span::call_site());
                        out.push(syn::parse_quote!(#mid!();));
                        self.used_points.insert(i);
                    }
                }
            }
            // calls made directly by this statement (not inside nested blocks / closures, which are handled at their own level)
            let mut dc = DirectCalls { names: vec![] };
            syn::visit::Visit::visit_stmt(&mut dc, &st);
            for (i, p) in pts.iter().enumerate() {
                if let ProofAt::BeforeCall(n) = &p.at {
                    if dc.names.iter().any(|x| x == n) {
                        let mid = syn::Ident::new(&format!("vx_proof_pt_{}_{}", self.fn_idx, i), Span::call_site());
                        out.push(syn::parse_quote!(#mid!();));
                        self.used_points.insert(i);
                    }
                }
            }
            self.visit_stmt_mut(&mut st);
            out.push(st);
            for (i, p) in pts.iter().enumerate() {
                if let ProofAt::AfterCall(n) = &p.at {
                    if dc.names.iter().any(|x| x == n) {
                        let mid = syn::Ident::new(&format!("vx_proof_pt_{}_{}", self.fn_idx, i), Span::call_site());
                        out.push(syn::parse_quote!(#mid!();));
                        self.used_points.insert(i);
                    }
                }
            }
        }
        b.stmts = out;
    }
    fn visit_expr_mut(&mut self, e: &mut syn::Expr) {
        let is_loop = matches!(e, syn::Expr::While(_) | syn::Expr::Loop(_) | syn::Expr::ForLoop(_));
        if is_loop {
            let key = loop_key_for(self.contract, e, self.loop_counter);
            self.loop_counter += 1;
            let has = key.is_some();
            let k = key.unwrap_or(0);
            if has {
                if !self.used_loops.insert(k) { die(format!("loop contract {} matches more than one loop (lost anchor)", k)); }
                let id = syn::Ident::new(&format!("vx_loop_{}_{}", self.fn_idx, k), Span::call_site());
                let attr: syn::Attribute = syn::parse_quote!(#[#id]);
                push_attr(e, attr);
                // loop-head proof placeholder
                if let Some(c) = self.contract {
                    if c.loops[&k].proof_head.is_some() {
                        let mid = syn::Ident::new(
                            &format!("vx_proof_loop_{}_{}", self.fn_idx, k),
                            Span::call_site(),
                        );
                        let st: syn::Stmt = syn::parse_quote!(#mid!(););
                        let body = match e {
                            syn::Expr::While(w) => &mut w.body,
                            syn::Expr::Loop(l) => &mut l.body,
                            syn::Expr::ForLoop(f) => &mut f.body,
                            _ => unreachable!(),
                        };
                        body.stmts.insert(0, st);
                    }
                    if c.loops[&k].ghost_head.is_some() {
                        let mid = syn::Ident::new(&format!("vx_ghost_loop_{}_{}", self.fn_idx, k), Span::call_site());
                        let st: syn::Stmt = syn::parse_quote!(#mid!(););
                        let body = match e { syn::Expr::While(w) => &mut w.body, syn::Expr::Loop(l) => &mut l.body, syn::Expr::ForLoop(f) => &mut f.body, _ => unreachable!() };
                        body.stmts.insert(0, st);
                    }
                    if c.loops[&k].proof_tail.is_some() {
                        let mid = syn::Ident::new(&format!("vx_tail_loop_{}_{}", self.fn_idx, k), Span::call_site());
                        let st: syn::Stmt = syn::parse_quote!(#mid!(););
                        let body = match e { syn::Expr::While(w) => &mut w.body, syn::Expr::Loop(l) => &mut l.body, syn::Expr::ForLoop(f) => &mut f.body, _ => unreachable!() };
                        body.stmts.push(st);
                    }
                }
                self.rules.insert("R5".into());
            }
            visit_mut::visit_expr_mut(self, e);
            return;
        }
        // call-site ghost arguments (R6)
        if let Some(with) = self.call_with(e) {
            visit_mut::visit_expr_mut(self, e);
            let attr = make_with_attr(&with);
            push_attr(e, attr);
            // an attributed call used as a sub-expression must be parenthesised
            let inner = e.clone();
            *e = syn::parse_quote!((#inner));
            self.rules.insert("R6".into());
            return;
        }
        visit_mut::visit_expr_mut(self, e);
    }
}

/// which loop contract belongs to the loop expression `e` (the `ordinal`-th loop of the function): a contract with `match <text>`
/// whose text occurs in the loop body, else the contract numbered `ordinal` if that one is not text-anchored
fn loop_key_for(contract: Option<&FnContract>, e: &syn::Expr, ordinal: usize) -> Option<usize> {
    let c = contract?;
    let body = match e {
        syn::Expr::While(w) => &w.body,
        syn::Expr::Loop(l) => &l.body,
        syn::Expr::ForLoop(f) => &f.body,
        _ => return None,
    };
    let text: String = body.to_token_stream().to_string().split_whitespace().collect::<Vec<_>>().join("");
    for (k, lc) in c.loops.iter() {
        if let Some(m) = &lc.match_text { if text.contains(m.as_str()) { return Some(*k); } }
    }
    match c.loops.get(&ordinal) { Some(lc) if lc.match_text.is_none() => Some(ordinal), _ => None }
}

/// R28: an expression that means the same read as a specification: field reads, comparisons, boolean connectives, `Some(..)`
fn is_pure_spec_expr(e: &syn::Expr) -> bool {
    use syn::Expr::*;
    match e {
        Path(_) | Lit(_) => true,
        Field(f) => is_pure_spec_expr(&f.base),
        Paren(p) => is_pure_spec_expr(&p.expr),
        Reference(r) => r.mutability.is_none() && is_pure_spec_expr(&r.expr),
        Unary(u) => matches!(u.op, syn::UnOp::Not(_) | syn::UnOp::Deref(_)) && is_pure_spec_expr(&u.expr),
        Binary(b) => matches!(b.op, syn::BinOp::Eq(_) | syn::BinOp::Ne(_) | syn::BinOp::Lt(_) | syn::BinOp::Le(_) | syn::BinOp::Gt(_) | syn::BinOp::Ge(_) | syn::BinOp::And(_) | syn::BinOp::Or(_))
            && is_pure_spec_expr(&b.left) && is_pure_spec_expr(&b.right),
        Tuple(t) => t.elems.iter().all(is_pure_spec_expr),
        // constructors: `Some(..)`, `Ok(..)`, `Err(..)`, `Type::Variant(..)`
        Call(c) => matches!(&*c.func, syn::Expr::Path(p) if p.path.segments.last().map(|x| x.ident.to_string().chars().next().map(|ch| ch.is_uppercase()).unwrap_or(false)).unwrap_or(false)) && c.args.iter().all(is_pure_spec_expr),
        // `{ let PAT = pure; .. ; pure }` (what R18 makes of a destructuring closure parameter): a `let` of a pure expression
        // means the same in a specification
        Block(b) if b.label.is_none() && b.attrs.is_empty() => {
            let n = b.block.stmts.len();
            n >= 1 && b.block.stmts.iter().enumerate().all(|(i, st)| match st {
                syn::Stmt::Local(l) if i + 1 < n => l.attrs.is_empty() && matches!(&l.init, Some(init) if init.diverge.is_none() && is_pure_spec_expr(&init.expr)),
                syn::Stmt::Expr(x, None) if i + 1 == n => is_pure_spec_expr(x),
                _ => false,
            })
        }
        _ => false,
    }
}


/// R27 (constants): emits the module-level constants `text` mentions (see referenced_consts)
fn emit_referenced_consts(items: &[syn::Item], text: &TokenStream, provided: &BTreeSet<String>, emitted: &mut BTreeSet<String>, cfg: &CfgEnv, rw: &mut Rewriter, out: &mut String) {
    let item_refs: Vec<&syn::Item> = items.iter().collect();
    for mut c in referenced_consts(&item_refs, text, provided, emitted, cfg) {
        c.vis = syn::parse_quote!(pub);
        rw.filter_attrs(&mut c.attrs);
        struct HasCall(bool);
        impl<'ast> syn::visit::Visit<'ast> for HasCall {
            fn visit_expr_call(&mut self, _: &'ast syn::ExprCall) { self.0 = true; }
            fn visit_expr_method_call(&mut self, _: &'ast syn::ExprMethodCall) { self.0 = true; }
        }
        let mut hc = HasCall(false);
        syn::visit::Visit::visit_expr(&mut hc, &c.expr);
        out.push_str("verus! {\n");
        if hc.0 {
            // an initialiser that calls a function is not a specification expression: the constant is kept as an exec
            // constant whose value is whatever the call returns (nothing is assumed about it)
            let (n, ty, init) = (&c.ident, &c.ty, &c.expr);
            out.push_str(&format!("pub exec const {}: {} ensures true {{ {} }}\n", n, ty.to_token_stream(), init.to_token_stream()));
        } else {
            out.push_str(&render_item(syn::Item::Const(c)));
        }
        out.push_str("}\n");
        rw.rules.insert("R27".into());
    }
}

/// R27 (constants): module-level `const` items of the file that the extracted text mentions and that nobody provides are copied along
/// (a constant is data: copying it cannot change what the function does).  Returns the rendered items.
fn referenced_consts(items: &[&syn::Item], text: &TokenStream, provided: &BTreeSet<String>, emitted: &mut BTreeSet<String>, cfg: &CfgEnv) -> Vec<syn::ItemConst> {
    let mut idents: BTreeSet<String> = BTreeSet::new();
    fn walk(ts: TokenStream, out: &mut BTreeSet<String>) {
        for tt in ts { match tt { TokenTree::Ident(i) => { out.insert(i.to_string()); } TokenTree::Group(g) => walk(g.stream(), out), _ => {} } }
    }
    walk(text.clone(), &mut idents);
    let mut out = vec![];
    for it in items.iter() {
        if let syn::Item::Const(c) = it {
            let n = c.ident.to_string();
            if cfg.keep(&c.attrs) && idents.contains(&n) && !provided.contains(&n) && !emitted.contains(&n) {
                emitted.insert(n);
                out.push(c.clone());
            }
        }
    }
    out
}

fn make_with_attr(with: &str) -> syn::Attribute {
    let ts: TokenStream = with
        .parse()
        .unwrap_or_else(|e| die(format!("bad `with` tokens `{}`: {}", with, e)));
    syn::parse_quote!(#[verus_spec(with #ts)])
}

fn push_attr(e: &mut syn::Expr, a: syn::Attribute) {
    use syn::Expr::*;
    match e {
        Call(x) => x.attrs.push(a),
        MethodCall(x) => x.attrs.push(a),
        While(x) => x.attrs.push(a),
        Loop(x) => x.attrs.push(a),
        ForLoop(x) => x.attrs.push(a),
        _ => die("cannot attach attribute to this expression kind"),
    }
}

// ---------------------------------------------------------------- item lookup

fn type_last_ident(t: &syn::Type) -> Option<String> {
    match t {
        syn::Type::Path(p) => p.path.segments.last().map(|s| s.ident.to_string()),
        syn::Type::Reference(r) => type_last_ident(&r.elem),
        _ => None,
    }
}

fn find_items<'f>(items: &'f [syn::Item], inside: &[String]) -> &'f [syn::Item] {
    if inside.is_empty() {
        return items;
    }
    for it in items {
        if let syn::Item::Mod(m) = it {
            if m.ident == inside[0] {
                if let Some((_, content)) = &m.content {
                    return find_items(content, &inside[1..]);
                }
            }
        }
    }
    die(format!("lost anchor: module `{}` not found", inside.join("::")));
}

fn span_line(s: Span) -> usize {
    s.start().line
}

// ---------------------------------------------------------------- main generation

struct Gen {
    out: String,
    fns: Vec<FnOut>,
    items: Vec<ItemOut>,
    shape_checks: Vec<String>,
}

fn line_count(s: &str) -> usize {
    s.matches('\n').count()
}

fn render_item(item: syn::Item) -> String {
    let f = syn::File { shebang: None, attrs: vec![], items: vec![item] };
    prettyplease::unparse(&f)
}

#[allow(clippy::too_many_arguments)]
fn process_fn_common(
    key: &str,
    attrs: &mut Vec<syn::Attribute>,
    sig: &mut syn::Signature,
    block: Option<&mut syn::Block>,
    contracts: &Contracts,
    fn_idx: usize,
    rw_rules: &BTreeSet<String>,
    repo_file: &str,
    token_hash: String,
    repo_line: usize,
    external_body: bool,
) -> FnOut {
    let contract = contracts.fns.get(key);
    let mut dropped_loops: Vec<String> = vec![];
    let mut rules: BTreeSet<String> = rw_rules.clone();
    let mut an = Annotator {
        fn_idx,
        contract,
        loop_counter: 0,
        closure_counter: 0,
        cur_anchor: None,
        cur_arg_pos: 0,
        call_closure_counter: BTreeMap::new(),
        uncontracted_closures: 0,
        derived_closures: vec![],
        used_closures: BTreeSet::new(),
        used_loops: BTreeSet::new(),
        used_calls: BTreeSet::new(),
        used_points: BTreeSet::new(),
        rules: BTreeSet::new(),
    };
    if let Some(b) = block {
        if !external_body && rewrite_mut_self(sig, b) {
            rules.insert("R14".into());
        }
        if !external_body && rewrite_pat_params(sig, b) {
            rules.insert("R33".into());
        }
        if external_body {
            *b = syn::parse_quote!({ unimplemented!() });
        } else {
            an.visit_block_mut(b);
            if let Some(c) = contract {
                if c.proof_end.is_some() {
                    // placed after the last statement; if the body ends in a tail expression the block goes just before it,
                    // which is only allowed when that expression is effect-free (a path, literal, or a constructor of such)
                    let mid = syn::Ident::new(&format!("vx_proof_end_{}", fn_idx), Span::call_site());
                    let unit_ret = matches!(sig.output, syn::ReturnType::Default);
                    let tail = matches!(b.stmts.last(), Some(syn::Stmt::Expr(_, None))) && !unit_ret;
                    if tail {
                        fn pure(e: &syn::Expr) -> bool {
                            match e {
                                syn::Expr::Path(_) | syn::Expr::Lit(_) => true,
                                syn::Expr::Call(c) => matches!(&*c.func, syn::Expr::Path(p) if p.path.segments.last().map(|s| s.ident.to_string().chars().next().map(|ch| ch.is_uppercase()).unwrap_or(false)).unwrap_or(false)) && c.args.iter().all(pure),
                                syn::Expr::Tuple(t) => t.elems.iter().all(pure),
                                syn::Expr::Paren(p) => pure(&p.expr),
                                syn::Expr::Reference(r) => pure(&r.expr),
                                syn::Expr::Field(f) => pure(&f.base),
                                _ => false,
                            }
                        }
                        if let Some(syn::Stmt::Expr(e, None)) = b.stmts.last() {
                            if !pure(e) { die(format!("{}: `proof end` needs an effect-free tail expression", key)); }
                        }
                        let n = b.stmts.len();
                        b.stmts.insert(n - 1, syn::parse_quote!(#mid!();));
                    } else {
                        b.stmts.push(syn::parse_quote!(#mid!();));
                    }
                }
                if c.ghost_begin.is_some() {
                    let mid = syn::Ident::new(&format!("vx_ghost_begin_{}", fn_idx), Span::call_site());
                    b.stmts.insert(0, syn::parse_quote!(#mid!();));
                }
                if c.proof_begin.is_some() {
                    let mid = syn::Ident::new(&format!("vx_proof_begin_{}", fn_idx), Span::call_site());
                    b.stmts.insert(0, syn::parse_quote!(#mid!();));
                }
            }
        }
    }
    if let Some(c) = contract {
        for k in c.loops.keys() {
            if !an.used_loops.contains(k) && !external_body {
                // the loop the contract speaks about is gone: its invariants cannot be mis-attached, so they are simply not
                // emitted and the function's pre/postconditions (and the callees' guard preconditions) decide.  Recorded.
                dropped_loops.push(format!("{}: loop #{} no longer exists (its invariants were not attached)", key, k));
            }
        }
        if c.closures_exhaustive && an.uncontracted_closures > 0 && !external_body {
            die(format!("lost anchor: {}: {} closure(s) without a contract (the contract says `closures exhaustive`): a closure that was added or moved cannot be judged", key, an.uncontracted_closures));
        }
        for k in c.closures.keys() {
            if !an.used_closures.contains(k) && !external_body {
                // like a vanished loop: the closure contract is not emitted; pre/postconditions decide
                dropped_loops.push(format!("{}: closure #{} no longer exists (its contract was not attached)", key, k));
            }
        }
        for (i, cw) in c.calls.iter().enumerate() {
            // a `call` directive whose callee no longer occurs is NOT a lost anchor: the effect it would have
            // logged is then simply absent and the postcondition decides
            let _ = (i, cw);
        }
        rules.insert("R5".into());
    }
    rules.extend(an.rules.iter().cloned());
    let id = syn::Ident::new(&format!("vx_fn_spec_{}", fn_idx), Span::call_site());
    attrs.insert(0, syn::parse_quote!(#[#id]));
    let _ = sig;
    FnOut {
        key: key.to_string(),
        repo_file: repo_file.to_string(),
        repo_line,
        token_hash,
        rules: rules.into_iter().collect(),
        has_contract: contract.is_some(),
        external_body,
        props: contract.map(|c| c.props.clone()).unwrap_or_default(),
        n_loops: an.loop_counter,
        dropped_loops,
        derived_closures: an.derived_closures.clone(),
        ..Default::default()
    }
}

fn main() {
    let args: Vec<String> = std::env::args().collect();
    if args.len() < 2 || args[1] != "gen" {
        eprintln!("usage: vx gen --repo R --unit U --out F --map M [--vacuity KEY] [--generated DIR]");
        std::process::exit(2);
    }
    let mut repo = PathBuf::from("/repo");
    let mut unit = PathBuf::new();
    let mut out = PathBuf::new();
    let mut map = PathBuf::new();
    let mut vacuity: Option<String> = None;
    let mut generated: Option<PathBuf> = None;
    let mut features_override: Option<Vec<String>> = None;
    let mut drop_beyond = false;
    let mut i = 2;
    while i < args.len() {
        match args[i].as_str() {
            "--repo" => { repo = PathBuf::from(&args[i + 1]); i += 2; }
            "--unit" => { unit = PathBuf::from(&args[i + 1]); i += 2; }
            "--out" => { out = PathBuf::from(&args[i + 1]); i += 2; }
            "--map" => { map = PathBuf::from(&args[i + 1]); i += 2; }
            "--vacuity" => { vacuity = Some(args[i + 1].clone()); i += 2; }
            "--generated" => { generated = Some(PathBuf::from(&args[i + 1])); i += 2; }
            "--drop-beyond" => { drop_beyond = true; i += 1; }
            "--features" => { features_override = Some(args[i + 1].split(',').filter(|x| !x.is_empty()).map(|x| x.to_string()).collect()); i += 2; }
            other => die(format!("unknown argument {}", other)),
        }
    }
    let mut unit_toml: UnitToml = toml::from_str(
        &std::fs::read_to_string(unit.join("unit.toml")).unwrap_or_else(|e| die(format!("unit.toml: {}", e))),
    )
    .unwrap_or_else(|e| die(format!("unit.toml: {}", e)));
    if let Some(f) = features_override { unit_toml.features = f; }
    let mut select_biased: Option<bool> = None;
    let mut select_macro_hash: Option<String> = None;
    if unit_toml.expand_select_macro {
        let mpath = repo.join("ractor/src/concurrency/tokio_primitives.rs");
        let src = std::fs::read_to_string(&mpath).unwrap_or_else(|e| die(format!("R29: {}: {}", mpath.display(), e)));
        let f = syn::parse_file(&src).unwrap_or_else(|e| die(format!("R29: cannot parse tokio_primitives.rs: {}", e)));
        for it in &f.items {
            if let syn::Item::Macro(m) = it {
                if m.ident.as_ref().map(|i| i == "select").unwrap_or(false) {
                    let body = norm_tokens(&m.mac.tokens);
                    select_macro_hash = Some(sha(&body));
                    if body == "($($tokens:tt)*)=>{{tokio::select!{biased;$($tokens)*}}}" { select_biased = Some(true); }
                    else if body == "($($tokens:tt)*)=>{{tokio::select!{$($tokens)*}}}" { select_biased = Some(false); }
                    else { die(format!("R29: `macro_rules! select` is neither the biased nor the plain tokio::select! wrapper ({})", body)); }
                }
            }
        }
        if select_biased.is_none() { die("lost anchor: `macro_rules! select` not found in ractor/src/concurrency/tokio_primitives.rs"); }
    }
    if unit_toml.expand_cast_macro {
        let mpath = repo.join("ractor/src/macros.rs");
        let src = std::fs::read_to_string(&mpath).unwrap_or_else(|e| die(format!("R26: {}: {}", mpath.display(), e)));
        let f = syn::parse_file(&src).unwrap_or_else(|e| die(format!("R26: cannot parse macros.rs: {}", e)));
        let mut ok = false;
        for it in &f.items {
            if let syn::Item::Macro(m) = it {
                if m.ident.as_ref().map(|i| i == "cast").unwrap_or(false) {
                    let body = norm_tokens(&m.mac.tokens);
                    ok = body == "($actor:expr,$msg:expr)=>{$actor.cast($msg).map_err($crate::RactorErr::from)};";
                    if !ok { die(format!("R26: `macro_rules! cast` is no longer the definition the rule expands ({})", body)); }
                }
            }
        }
        if !ok { die("lost anchor: `macro_rules! cast` not found in ractor/src/macros.rs"); }
    }
    let prelude_raw = std::fs::read_to_string(unit.join("prelude.rs")).unwrap_or_else(|e| die(format!("prelude.rs: {}", e)));
    // `// @include <relative path>` lines are replaced by the file's text (shared ghost vocabulary); included files may include
    // further files (paths relative to the unit directory)
    fn expand_includes(unit: &Path, text: &str, depth: usize) -> String {
        if depth > 8 { die("@include nesting too deep"); }
        let mut out = String::new();
        for l in text.lines() {
            if let Some(rel) = l.trim().strip_prefix("// @include ") {
                let inc = std::fs::read_to_string(unit.join(rel.trim())).unwrap_or_else(|e| die(format!("@include {}: {}", rel, e)));
                out.push_str(&expand_includes(unit, &inc, depth + 1));
                if !out.ends_with('\n') { out.push('\n'); }
            } else {
                out.push_str(l);
                out.push('\n');
            }
        }
        out
    }
    let prelude = expand_includes(&unit, &prelude_raw, 0);
    let prelude_fn_names: BTreeSet<String> = {
        let mut out = BTreeSet::new();
        let toks: Vec<&str> = prelude.split(|c: char| !(c.is_alphanumeric() || c == '_')).filter(|t| !t.is_empty()).collect();
        for w in toks.windows(2) { if w[0] == "fn" { out.insert(w[1].to_string()); } }
        out
    };
    let contracts_src = std::fs::read_to_string(unit.join("contracts.vx")).unwrap_or_default();
    let mut contracts = parse_contracts(&contracts_src).unwrap_or_else(|e| die(format!("contracts.vx: {}", e)));
    if drop_beyond {
        for c in contracts.fns.values_mut() {
            c.requires.retain(|cl| cl.strength != "beyond-property");
            c.ensures.retain(|cl| cl.strength != "beyond-property");
            for l in c.loops.values_mut() { l.invariants.retain(|cl| cl.strength != "beyond-property"); l.ensures.retain(|cl| cl.strength != "beyond-property"); l.invariants_except_break.retain(|cl| cl.strength != "beyond-property"); }
            for l in c.closures.values_mut() { l.requires.retain(|cl| cl.strength != "beyond-property"); l.ensures.retain(|cl| cl.strength != "beyond-property"); }
        }
    }
    {
        let feats: BTreeSet<String> = unit_toml.features.iter().cloned().collect();
        let active = |f: &String| -> bool { if let Some(n) = f.strip_prefix('!') { !feats.contains(n) } else { feats.contains(f) } };
        contracts.fns.retain(|_, c| c.only_feature.as_ref().map(|f| active(f)).unwrap_or(true));
        let renamed: BTreeMap<String, FnContract> = std::mem::take(&mut contracts.fns).into_iter().map(|(k, v)| {
            let k2 = match k.rsplit_once(" @") { Some((a, _)) => a.trim().to_string(), None => k };
            (k2, v)
        }).collect();
        contracts.fns = renamed;
        unit_toml.item.retain(|it| it.only_feature.as_ref().map(|f| feats.contains(f)).unwrap_or(true));
    }

    let cfg = CfgEnv {
        features: unit_toml.features.iter().cloned().collect(),
        flags: unit_toml.cfg_flags.iter().cloned().collect(),
    };
    let typemap: BTreeMap<String, syn::Type> = unit_toml
        .typemap
        .iter()
        .map(|(k, v)| {
            let kt: TokenStream = k.parse().unwrap_or_else(|e| die(format!("typemap key `{}`: {}", k, e)));
            let vt: syn::Type = syn::parse_str(v).unwrap_or_else(|e| die(format!("typemap value `{}`: {}", v, e)));
            (norm_tokens(&kt), vt)
        })
        .collect();
    let drop_macros: BTreeSet<String> = unit_toml.drop_stmt_macros.iter().cloned().collect();

    let mut files: HashMap<String, syn::File> = HashMap::new();
    let mut gen = Gen { out: String::new(), fns: vec![], items: vec![], shape_checks: vec![] };
    if let Some(h) = &select_macro_hash {
        // R29 reads this definition: it is part of what the unit was cut from
        gen.items.push(ItemOut { path: "macro_rules select".into(), repo_file: "ractor/src/concurrency/tokio_primitives.rs".into(), token_hash: h.clone(), rules: vec!["R29".into()] });
    }
    gen.out.push_str(&prelude);
    if !gen.out.ends_with('\n') {
        gen.out.push('\n');
    }
    let prelude_lines = line_count(&gen.out);
    let mut used_contract_keys: BTreeSet<String> = BTreeSet::new();
    let mut fn_idx = 0usize;
    // placeholder -> replacement text, filled as we go
    let mut pending: Vec<(usize, String)> = vec![]; // (fn index in gen.fns, key)

    // constants the unit already has: listed `const X` items and anything the prelude text defines
    let provided_consts: BTreeSet<String> = {
        let mut o: BTreeSet<String> = unit_toml.item.iter().filter_map(|i| i.path.strip_prefix("const ").map(|x| x.trim().to_string())).collect();
        for l in prelude.lines() { let t = l.trim(); if let Some(r) = t.strip_prefix("pub const ").or_else(|| t.strip_prefix("const ")) { if let Some(n) = r.split(':').next() { o.insert(n.trim().to_string()); } } }
        o
    };
    let mut emitted_consts: BTreeSet<String> = BTreeSet::new();
    for spec in &unit_toml.item {
        let file_path: PathBuf = if let Some(rest) = spec.file.strip_prefix("GENERATED/") {
            generated.clone().unwrap_or_else(|| die("item needs --generated dir")).join(rest)
        } else {
            repo.join(&spec.file)
        };
        if !files.contains_key(&spec.file) {
            let src = std::fs::read_to_string(&file_path)
                .unwrap_or_else(|e| die(format!("lost anchor: cannot read {}: {}", file_path.display(), e)));
            let parsed = syn::parse_file(&src).unwrap_or_else(|e| die(format!("cannot parse {}: {}", spec.file, e)));
            files.insert(spec.file.clone(), parsed);
        }
        let file = &files[&spec.file];
        let inside: Vec<String> = spec.inside.as_deref().map(|s| s.split("::").map(|x| x.to_string()).collect()).unwrap_or_default();
        let items = find_items(&file.items, &inside);

        let words: Vec<&str> = spec.path.split_whitespace().collect();
        let mut rw = Rewriter {
            cfg: &cfg,
            typemap: &typemap,
            pathmap: &unit_toml.pathmap,
            drop_macros: &drop_macros,
            async_projection: spec.async_projection.clone(),
            desugar_try: spec.desugar_try_result,
            await_erase_calls: spec.await_erase_calls.iter().cloned().collect(),
            erase_args_of: spec.erase_args_of.iter().cloned().collect(),
            rules: BTreeSet::new(),
            keep_derives: spec.keep_derives.iter().cloned().collect(),
            deref_store: unit_toml.deref_store,
            index_store: unit_toml.index_store,
            expand_map_or_else: unit_toml.expand_map_or_else,
            expand_option_combinators: unit_toml.expand_option_combinators,
            expand_option_filter: unit_toml.expand_option_filter,
            expand_values_mut_loops: unit_toml.expand_values_mut_loops,
            expand_retain_mut_loops: unit_toml.expand_retain_mut_loops,
            expand_str_match: unit_toml.expand_str_match,
            closure_method_map: unit_toml.closure_method_map.clone(),
            expand_cast_macro: unit_toml.expand_cast_macro,
            select_biased,
            eta_expand_in: unit_toml.eta_expand_in.iter().cloned().collect(),
            escaping_async_blocks_allowed: 0,
            inline_table: BTreeMap::new(),
            inline_free: BTreeMap::new(),
            inline_depth: 0,
            // the most specific (longest) pattern is tried first
            chainmap: { let mut v: Vec<(&String, &String)> = unit_toml.chainmap.iter().collect(); v.sort_by(|a, b| b.0.len().cmp(&a.0.len()).then(a.0.cmp(b.0))); v.into_iter().map(|(k, v)| (parse_chain(k), parse_chain(v))).collect() },
        };
        // R27 (free functions): module-level functions of this file that the unit neither extracts nor stands in for
        {
            let listed_fns: BTreeSet<String> = unit_toml.item.iter().filter_map(|i| i.path.strip_prefix("fn ").map(|x| x.trim().to_string())).collect();
            let mut seen: BTreeMap<String, usize> = BTreeMap::new();
            let mut cand: BTreeMap<String, syn::ImplItemFn> = BTreeMap::new();
            for it in items.iter() {
                if let syn::Item::Fn(f) = it {
                    if !cfg.keep(&f.attrs) { continue; }
                    let n = f.sig.ident.to_string();
                    *seen.entry(n.clone()).or_insert(0) += 1;
                    if listed_fns.contains(&n) || prelude_fn_names.contains(&n) { continue; }
                    cand.insert(n, syn::ImplItemFn { attrs: f.attrs.clone(), vis: f.vis.clone(), defaultness: None, sig: f.sig.clone(), block: (*f.block).clone() });
                }
            }
            for (n, f) in cand { if seen.get(&n) == Some(&1) { rw.inline_free.insert(n, f); } }
        }
        let extra_attrs: Vec<syn::Attribute> = spec
            .extra_attrs
            .iter()
            .map(|a| {
                let ts: TokenStream = a.parse().unwrap_or_else(|e| die(format!("extra_attrs `{}`: {}", a, e)));
                syn::parse_quote!(#[#ts])
            })
            .collect();

        match words.as_slice() {
            [kind @ ("struct" | "enum" | "const" | "static" | "type"), name] => {
                let found = items.iter().find(|it| match (it, *kind) {
                    (syn::Item::Struct(s), "struct") => s.ident == name && cfg.keep(&s.attrs),
                    (syn::Item::Enum(s), "enum") => s.ident == name && cfg.keep(&s.attrs),
                    (syn::Item::Const(s), "const") => s.ident == name && cfg.keep(&s.attrs),
                    (syn::Item::Static(s), "static") => s.ident == name && cfg.keep(&s.attrs),
                    (syn::Item::Type(s), "type") => s.ident == name && cfg.keep(&s.attrs),
                    _ => false,
                });
                let mut it = found.cloned().unwrap_or_else(|| die(format!("lost anchor: {} in {}", spec.path, spec.file)));
                let item_hash = sha(&norm_tokens(&it.to_token_stream()));
                rw.visit_item_mut(&mut it);
                match &mut it {
                    syn::Item::Struct(s) => {
                        rw.filter_attrs(&mut s.attrs);
                        s.vis = syn::parse_quote!(pub);
                        if !spec.drop_fields.is_empty() {
                            if let syn::Fields::Named(n) = &mut s.fields {
                                let kept: Vec<syn::Field> = n.named.iter().filter(|f| !spec.drop_fields.contains(&f.ident.as_ref().unwrap().to_string())).cloned().collect();
                                n.named = kept.into_iter().collect();
                            }
                        }
                        if let syn::Fields::Unnamed(u) = &mut s.fields {
                            for f in u.unnamed.iter_mut() { f.vis = syn::parse_quote!(pub); }
                        }
                        if let syn::Fields::Named(n) = &mut s.fields {
                            for f in n.named.iter_mut() { f.vis = syn::parse_quote!(pub); }
                        }
                        rw.rules.insert("R4".into());
                        if spec.drop_where { s.generics.where_clause = None; }
                        drop_generics(&mut s.generics, &spec.drop_generics);
                        s.attrs.push(syn::parse_quote!(#[verus_verify]));
                        for p in s.generics.type_params() {
                            let id = &p.ident;
                            s.attrs.push(syn::parse_quote!(#[verifier::reject_recursive_types(#id)]));
                        }
                        s.attrs.extend(extra_attrs.iter().cloned());
                        if let Some(r) = &spec.rename { s.ident = syn::Ident::new(r, Span::call_site()); }
                    }
                    syn::Item::Enum(s) => {
                        rw.filter_attrs(&mut s.attrs);
                        s.vis = syn::parse_quote!(pub);
                        if spec.drop_where { s.generics.where_clause = None; }
                        s.attrs.push(syn::parse_quote!(#[verus_verify]));
                        for p in s.generics.type_params() {
                            let id = &p.ident;
                            s.attrs.push(syn::parse_quote!(#[verifier::reject_recursive_types(#id)]));
                        }
                        s.attrs.extend(extra_attrs.iter().cloned());
                    }
                    syn::Item::Const(s) => {
                        // the elided lifetime of a reference-typed const is 'static; make it explicit (Verus turns consts into functions)
                        if let syn::Type::Reference(r) = &mut *s.ty { if r.lifetime.is_none() { r.lifetime = Some(syn::parse_quote!('static)); } }
                        rw.filter_attrs(&mut s.attrs);
                        s.vis = syn::parse_quote!(pub);
                        s.attrs.push(syn::parse_quote!(#[verus_verify]));
                        s.attrs.extend(extra_attrs.iter().cloned());
                    }
                    syn::Item::Static(s) => { rw.filter_attrs(&mut s.attrs); s.vis = syn::parse_quote!(pub); }
                    syn::Item::Type(s) => { rw.filter_attrs(&mut s.attrs); s.vis = syn::parse_quote!(pub); }
                    _ => {}
                }
                gen.items.push(ItemOut { path: spec.path.clone(), repo_file: spec.file.clone(), token_hash: item_hash, rules: rw.rules.iter().cloned().collect() });
                gen.out.push_str(&render_item(it));
                gen.out.push('\n');
            }
            ["fn", name] => {
                let found = items.iter().find_map(|it| match it {
                    syn::Item::Fn(f) if f.sig.ident == name && cfg.keep(&f.attrs) => Some(f.clone()),
                    _ => None,
                });
                let mut f = found.unwrap_or_else(|| die(format!("lost anchor: fn {} in {}", name, spec.file)));
                let orig_norm = norm_tokens(&f.to_token_stream());
                let token_hash = sha(&orig_norm);
                let repo_line = span_line(f.sig.ident.span());
                check_no_unsafe(&f.to_token_stream(), &spec.path);
                rw.visit_item_fn_mut(&mut f);
                rw.filter_attrs(&mut f.attrs);
                f.vis = syn::parse_quote!(pub);
                let key = name.to_string();
                let mut fo = process_fn_common(&key, &mut f.attrs, &mut f.sig, Some(&mut f.block), &contracts, fn_idx, &rw.rules, &spec.file, token_hash, repo_line, spec.external_body);
                fo.orig_norm = orig_norm;
                used_contract_keys.insert(key.clone());
                f.attrs.extend(extra_attrs.iter().cloned());
                pending.push((gen.fns.len(), key));
                gen.fns.push(fo);
                fn_idx += 1;
                emit_referenced_consts(&items, &f.to_token_stream(), &provided_consts, &mut emitted_consts, &cfg, &mut rw, &mut gen.out);
                gen.out.push_str(&render_item(syn::Item::Fn(f)));
                gen.out.push('\n');
            }
            ["trait", name] => {
                let found = items.iter().find_map(|it| match it {
                    syn::Item::Trait(t) if t.ident == name && cfg.keep(&t.attrs) => Some(t.clone()),
                    _ => None,
                });
                let mut t = found.unwrap_or_else(|| die(format!("lost anchor: trait {} in {}", name, spec.file)));
                let item_hash = sha(&norm_tokens(&t.to_token_stream()));
                rw.visit_item_trait_mut(&mut t);
                rw.filter_attrs(&mut t.attrs);
                t.vis = syn::parse_quote!(pub);
                if spec.drop_supertraits { t.supertraits.clear(); t.colon_token = None; }
                if spec.drop_where { t.generics.where_clause = None; }
                t.attrs.push(syn::parse_quote!(#[verus_verify]));
                t.attrs.extend(extra_attrs.iter().cloned());
                // keep only listed methods when `methods` is given
                let mut new_items = vec![];
                for ti in t.items.drain(..) {
                    match ti {
                        syn::TraitItem::Fn(mut m) => {
                            if !cfg.keep(&m.attrs) { continue; }
                            let mname = m.sig.ident.to_string();
                            if !spec.methods.is_empty() && !spec.methods.contains(&mname) { continue; }
                            let key = format!("trait {}::{}", name, mname);
                            let token_hash = sha(&norm_tokens(&m.to_token_stream()));
                            let repo_line = span_line(m.sig.ident.span());
                            rw.filter_attrs(&mut m.attrs);
                            let fo = process_fn_common(&key, &mut m.attrs, &mut m.sig, m.default.as_mut(), &contracts, fn_idx, &rw.rules, &spec.file, token_hash, repo_line, false);
                            used_contract_keys.insert(key.clone());
                            pending.push((gen.fns.len(), key));
                            gen.fns.push(fo);
                            fn_idx += 1;
                            new_items.push(syn::TraitItem::Fn(m));
                        }
                        other => {
                            new_items.push(other);
                        }
                    }
                }
                t.items = new_items;
                gen.items.push(ItemOut { path: spec.path.clone(), repo_file: spec.file.clone(), token_hash: item_hash, rules: rw.rules.iter().cloned().collect() });
                gen.out.push_str(&render_item(syn::Item::Trait(t)));
                gen.out.push('\n');
            }
            ["impl", rest @ ..] => {
                // "impl Type" or "impl Trait for Type"
                let (trait_name, type_name): (Option<&str>, &str) = match rest {
                    [ty] => (None, ty),
                    [tr, "for", ty] => (Some(tr), ty),
                    _ => die(format!("bad item path `{}`", spec.path)),
                };
                let mut matched: Vec<syn::ItemImpl> = vec![];
                for it in items {
                    if let syn::Item::Impl(im) = it {
                        if !cfg.keep(&im.attrs) { continue; }
                        let ty_ok = type_last_ident(&im.self_ty).as_deref() == Some(type_name);
                        let tr_ok = match (&im.trait_, trait_name) {
                            (None, None) => true,
                            (Some((_, p, _)), Some(tn)) => p.segments.last().map(|s| s.ident == tn).unwrap_or(false),
                            _ => false,
                        };
                        let sel_ok = match (&spec.trait_contains, &im.trait_) {
                            (Some(t), Some((_, p, _))) => p.to_token_stream().to_string().replace(' ', "").contains(&t.replace(' ', "")),
                            (Some(_), None) => false,
                            (None, _) => true,
                        };
                        if ty_ok && tr_ok && sel_ok { matched.push(im.clone()); }
                    }
                }
                if matched.is_empty() { die(format!("lost anchor: `{}` in {}", spec.path, spec.file)); }
                let mut want: BTreeSet<String> = spec.methods.iter().cloned().collect();
                let all = want.is_empty();
                // R27 table: inherent methods defined in this file (of any type) that nobody else provides; a name defined more than
                // once in the file is ambiguous and left out
                {
                    let listed: BTreeSet<String> = unit_toml.item.iter().flat_map(|i| i.methods.iter().cloned()).collect();
                    // impl items of the unit that extract ALL methods of a type: every method of that type is already there
                    let all_of: BTreeSet<String> = unit_toml.item.iter().filter(|i| i.methods.is_empty() && i.path.starts_with("impl "))
                        .filter_map(|i| i.path.split_whitespace().last().map(|x| x.to_string())).collect();
                    let mut seen: BTreeMap<String, usize> = BTreeMap::new();
                    let mut cand: BTreeMap<String, syn::ImplItemFn> = BTreeMap::new();
                    for it in items.iter() {
                        if let syn::Item::Impl(im2) = it {
                            if im2.trait_.is_some() || !cfg.keep(&im2.attrs) { continue; }
                            let provided_type = type_last_ident(&im2.self_ty).map(|t| all_of.contains(&t)).unwrap_or(false);
                            for ii in im2.items.iter() {
                                if let syn::ImplItem::Fn(mf) = ii {
                                    if !cfg.keep(&mf.attrs) { continue; }
                                    let n = mf.sig.ident.to_string();
                                    // every definition counts: a name that exists twice in the file is never inlined (a call cannot be
                                    // attributed to one of them syntactically)
                                    *seen.entry(n.clone()).or_insert(0) += 1;
                                    if provided_type || listed.contains(&n) || prelude_fn_names.contains(&n) { continue; }
                                    cand.insert(n, mf.clone());
                                }
                            }
                        }
                    }
                    // R27 across files: inherent methods of the OTHER types this unit extracts method-by-method (their impl is listed with
                    // `methods = [..]`): a new helper there that nobody provides is inlined as well.  A name that the current file defines
                    // itself always means the current file's; a name that two other files define is ambiguous and left out
                    let mut xseen: BTreeMap<String, usize> = BTreeMap::new();
                    let mut xcand: BTreeMap<String, syn::ImplItemFn> = BTreeMap::new();
                    let mut done_files: BTreeSet<(String, String)> = BTreeSet::new();
                    for other in unit_toml.item.iter() {
                        if other.file == spec.file || other.file.starts_with("GENERATED/") || other.methods.is_empty() { continue; }
                        let mut parts = other.path.split_whitespace();
                        if parts.next() != Some("impl") { continue; }
                        let oty = match (parts.next(), parts.next()) { (Some(t), None) => t.to_string(), _ => continue };
                        if !done_files.insert((other.file.clone(), oty.clone())) { continue; }
                        let src = match std::fs::read_to_string(repo.join(&other.file)) { Ok(x) => x, Err(_) => continue };
                        let of = match syn::parse_file(&src) { Ok(x) => x, Err(_) => continue };
                        for it in of.items.iter() {
                            if let syn::Item::Impl(im2) = it {
                                if im2.trait_.is_some() || !cfg.keep(&im2.attrs) || type_last_ident(&im2.self_ty).as_deref() != Some(oty.as_str()) { continue; }
                                for ii in im2.items.iter() {
                                    if let syn::ImplItem::Fn(mf) = ii {
                                        if !cfg.keep(&mf.attrs) { continue; }
                                        let n = mf.sig.ident.to_string();
                                        *xseen.entry(n.clone()).or_insert(0) += 1;
                                        if listed.contains(&n) || prelude_fn_names.contains(&n) { continue; }
                                        xcand.insert(n, mf.clone());
                                    }
                                }
                            }
                        }
                    }
                    for (n, mf) in xcand { if !seen.contains_key(&n) && xseen.get(&n) == Some(&1) { rw.inline_table.insert(n, mf); } }
                    for (n, mf) in cand { if seen.get(&n) == Some(&1) { rw.inline_table.insert(n, mf); } }
                }
                for mut im in matched {
                    // select methods
                    let mut selected: Vec<syn::ImplItem> = vec![];
                    for ii in im.items.drain(..) {
                        match ii {
                            syn::ImplItem::Fn(m) => {
                                if !cfg.keep(&m.attrs) { continue; }
                                let mname = m.sig.ident.to_string();
                                if all || want.remove(&mname) { selected.push(syn::ImplItem::Fn(m)); }
                            }
                            syn::ImplItem::Type(t) if all && trait_name.is_some() && !spec.as_inherent => selected.push(syn::ImplItem::Type(t)),
                            syn::ImplItem::Const(c) if all => selected.push(syn::ImplItem::Const(c)),
                            _ => {}
                        }
                    }
                    if selected.is_empty() { continue; }
                    im.items = selected;
                    // R30: outline escaping async blocks
                    for os in spec.outline_async.iter() {
                        let mut new_fn: Option<syn::ImplItemFn> = None;
                        for ii in im.items.iter_mut() {
                            if let syn::ImplItem::Fn(m) = ii {
                                if m.sig.ident != os.of { continue; }
                                struct Find<'a> { os: &'a OutlineSpec, found: Option<syn::Block> }
                                impl<'a> VisitMut for Find<'a> {
                                    fn visit_expr_mut(&mut self, e: &mut syn::Expr) {
                                        if self.found.is_none() {
                                            if let syn::Expr::Async(a) = e {
                                                struct Esc(bool);
                                                impl<'ast> syn::visit::Visit<'ast> for Esc {
                                                    fn visit_expr_return(&mut self, _: &'ast syn::ExprReturn) { self.0 = true; }
                                                    fn visit_expr_try(&mut self, _: &'ast syn::ExprTry) { self.0 = true; }
                                                    fn visit_expr_closure(&mut self, _: &'ast syn::ExprClosure) {}
                                                    fn visit_expr_async(&mut self, _: &'ast syn::ExprAsync) {}
                                                }
                                                let mut esc = Esc(false);
                                                syn::visit::Visit::visit_block(&mut esc, &a.block);
                                                if esc.0 {
                                                    self.found = Some(a.block.clone());
                                                    let name = syn::Ident::new(&self.os.name, Span::call_site());
                                                    let args: TokenStream = self.os.args.parse().unwrap_or_else(|er| die(format!("R30: args: {}", er)));
                                                    *e = syn::parse_quote!(Self::#name(#args));
                                                    return;
                                                }
                                            }
                                        }
                                        visit_mut::visit_expr_mut(self, e);
                                    }
                                }
                                let mut fd = Find { os, found: None };
                                fd.visit_block_mut(&mut m.block);
                                let body = fd.found.unwrap_or_else(|| die(format!("lost anchor: R30: no escaping async block in `{}`", os.of)));
                                let name = syn::Ident::new(&os.name, Span::call_site());
                                let params: TokenStream = os.params.parse().unwrap_or_else(|er| die(format!("R30: params: {}", er)));
                                let ret: TokenStream = os.ret.parse().unwrap_or_else(|er| die(format!("R30: ret: {}", er)));
                                let generics: TokenStream = os.generics.parse().unwrap_or_else(|er| die(format!("R30: generics: {}", er)));
                                new_fn = Some(syn::parse_quote!(async fn #name #generics (#params) -> #ret #body));
                                rw.rules.insert("R30".into());
                            }
                        }
                        match new_fn { Some(f) => im.items.push(syn::ImplItem::Fn(f)), None => die(format!("lost anchor: R30: method `{}` not found", os.of)) }
                    }
                    check_no_unsafe(&im.to_token_stream(), &spec.path);
                    // hashes before rewriting
                    let mut hashes: Vec<(String, usize, String)> = vec![];
                    for ii in &im.items {
                        if let syn::ImplItem::Fn(m) = ii {
                            let on = norm_tokens(&m.to_token_stream());
                            hashes.push((sha(&on), span_line(m.sig.ident.span()), on));
                        }
                    }
                    if spec.keep_guards {
                        for ii in im.items.iter_mut() {
                            if let syn::ImplItem::Fn(m) = ii {
                                let mut n = 0;
                                for st in m.block.stmts.iter() {
                                    let is_guard = match st {
                                        syn::Stmt::Expr(syn::Expr::If(i), _) => i.else_branch.is_none()
                                            && matches!(i.then_branch.stmts.last(), Some(syn::Stmt::Expr(syn::Expr::Return(_), _))),
                                        _ => false,
                                    };
                                    if is_guard { n += 1; } else { break; }
                                }
                                if m.block.stmts.len() > n {
                                    m.block.stmts.truncate(n);
                                    m.block.stmts.push(syn::Stmt::Expr(syn::parse_quote!(vx_rest_tail()), None));
                                    rw.rules.insert("R19".into());
                                }
                            }
                        }
                    }
                    if !spec.keep_arms.is_empty() {
                        for ii in im.items.iter_mut() {
                            if let syn::ImplItem::Fn(m) = ii {
                                let mut done = false;
                                // the match statement: a top-level statement of the body, or a direct statement of the then-block of a
                                // top-level `if let PAT = E { .. }` (the usual `if let Some(msg) = message.msg { match msg { .. } }`)
                                let mut cands: Vec<&mut syn::Stmt> = vec![];
                                for st in m.block.stmts.iter_mut() {
                                    let is_match = matches!(st, syn::Stmt::Expr(syn::Expr::Match(_), _));
                                    if is_match { cands.push(st); continue; }
                                    if let syn::Stmt::Expr(syn::Expr::If(ifx), _) = st {
                                        if matches!(&*ifx.cond, syn::Expr::Let(_)) {
                                            for st2 in ifx.then_branch.stmts.iter_mut() {
                                                if matches!(st2, syn::Stmt::Expr(syn::Expr::Match(_), _)) { cands.push(st2); }
                                            }
                                        }
                                    }
                                }
                                for st in cands.into_iter() {
                                    if let syn::Stmt::Expr(syn::Expr::Match(mt), _) = st {
                                        let names_variant = |pat: &syn::Pat, n: &str| -> bool {
                                            let t = norm_tokens(&pat.to_token_stream());
                                            t.split(|c: char| !(c.is_alphanumeric() || c == '_')).any(|w| w == n)
                                        };
                                        let mut kept: Vec<syn::Arm> = vec![];
                                        let mut dropped_before: Vec<syn::Pat> = vec![];
                                        for arm in mt.arms.drain(..) {
                                            let keep = spec.keep_arms.iter().any(|n| names_variant(&arm.pat, n));
                                            if keep {
                                                // an earlier dropped arm must not be able to take this arm's messages
                                                for d in &dropped_before {
                                                    if matches!(d, syn::Pat::Wild(_) | syn::Pat::Ident(_)) || spec.keep_arms.iter().any(|n| names_variant(d, n)) {
                                                        die(format!("R19: an arm dropped before `{}` may match the same message", norm_tokens(&arm.pat.to_token_stream())));
                                                    }
                                                }
                                                if arm.guard.is_some() { die("R19: a kept arm has a guard"); }
                                                kept.push(arm);
                                            } else {
                                                dropped_before.push(arm.pat.clone());
                                            }
                                        }
                                        if kept.len() != spec.keep_arms.len() {
                                            die(format!("lost anchor: keep_arms {:?}: found {} matching arms", spec.keep_arms, kept.len()));
                                        }
                                        kept.push(syn::parse_quote!(_ => { vx_rest_tail() }));
                                        mt.arms = kept;
                                        rw.rules.insert("R19".into());
                                        done = true;
                                        break;
                                    }
                                }
                                if !done { die("lost anchor: keep_arms: no top-level match statement"); }
                            }
                        }
                    }
                    if let Some(n) = spec.keep_stmts {
                        for ii in im.items.iter_mut() {
                            if let syn::ImplItem::Fn(m) = ii {
                                if m.block.stmts.len() > n {
                                    m.block.stmts.truncate(n);
                                    m.block.stmts.push(syn::Stmt::Expr(syn::parse_quote!(vx_rest_tail()), None));
                                    rw.rules.insert("R19".into());
                                }
                            }
                        }
                    }
                    rw.visit_item_impl_mut(&mut im);
                    rw.filter_attrs(&mut im.attrs);
                    if spec.drop_where { im.generics.where_clause = None; }
                    drop_generics(&mut im.generics, &spec.drop_generics);
                    if !spec.drop_generics.is_empty() {
                        if let syn::Type::Path(tp) = &mut *im.self_ty {
                            if let Some(last) = tp.path.segments.last_mut() {
                                if let syn::PathArguments::AngleBracketed(ab) = &mut last.arguments {
                                    let kept: Vec<syn::GenericArgument> = ab.args.iter().filter(|a| match a {
                                        syn::GenericArgument::Type(t) => !spec.drop_generics.contains(&norm_tokens(&t.to_token_stream())),
                                        _ => true,
                                    }).cloned().collect();
                                    ab.args = kept.into_iter().collect();
                                }
                            }
                        }
                        rw.rules.insert("R9".into());
                    }
                    let key_prefix = match trait_name {
                        Some(t) => format!("{} for {}", t, type_name),
                        None => type_name.to_string(),
                    };
                    if spec.as_inherent { im.trait_ = None; rw.rules.insert("R10".into()); }
                    if spec.as_inherent && !spec.generics_to_methods.is_empty() {
                        let names = &spec.generics_to_methods;
                        let mentions = |ts: &TokenStream| -> bool {
                            fn walk(ts: &TokenStream, names: &[String]) -> bool {
                                ts.clone().into_iter().any(|tt| match tt {
                                    TokenTree::Ident(i) => names.contains(&i.to_string()),
                                    TokenTree::Group(g) => walk(&g.stream(), names),
                                    _ => false,
                                })
                            }
                            walk(ts, names)
                        };
                        let moved_params: Vec<syn::GenericParam> = im.generics.params.iter().filter(|p| matches!(p, syn::GenericParam::Type(t) if names.contains(&t.ident.to_string()))).cloned().collect();
                        let kept_params: Vec<syn::GenericParam> = im.generics.params.iter().filter(|p| !matches!(p, syn::GenericParam::Type(t) if names.contains(&t.ident.to_string()))).cloned().collect();
                        im.generics.params = kept_params.into_iter().collect();
                        let mut moved_preds: Vec<syn::WherePredicate> = vec![];
                        if let Some(w) = &mut im.generics.where_clause {
                            let (mv, keep): (Vec<_>, Vec<_>) = w.predicates.iter().cloned().partition(|p| mentions(&p.to_token_stream()));
                            moved_preds = mv;
                            w.predicates = keep.into_iter().collect();
                        }
                        for ii in im.items.iter_mut() {
                            if let syn::ImplItem::Fn(m) = ii {
                                for p in &moved_params { m.sig.generics.params.push(p.clone()); }
                                let wc = m.sig.generics.make_where_clause();
                                for p in &moved_preds { wc.predicates.push(p.clone()); }
                            }
                        }
                    }
                    if let Some(r) = &spec.rename {
                        im.self_ty = Box::new(syn::parse_str(r).unwrap_or_else(|e| die(format!("rename: {}", e))));
                    }
                    im.attrs.push(syn::parse_quote!(#[verus_verify]));
                    let mut hi = 0;
                    for ii in im.items.iter_mut() {
                        if let syn::ImplItem::Fn(m) = ii {
                            let mname = m.sig.ident.to_string();
                            let key = format!("{}::{}", key_prefix, mname);
                            rw.filter_attrs(&mut m.attrs);
                            if im.trait_.is_none() { m.vis = syn::parse_quote!(pub); }
                            let (th, rl, on) = hashes[hi].clone();
                            hi += 1;

                            let mut fo = process_fn_common(&key, &mut m.attrs, &mut m.sig, Some(&mut m.block), &contracts, fn_idx, &rw.rules, &spec.file, th, rl, spec.external_body);
                            fo.orig_norm = on;
                            used_contract_keys.insert(key.clone());
                            m.attrs.extend(extra_attrs.iter().cloned());
                            pending.push((gen.fns.len(), key));
                            gen.fns.push(fo);
                            fn_idx += 1;
                        }
                    }
                    emit_referenced_consts(&items, &im.to_token_stream(), &provided_consts, &mut emitted_consts, &cfg, &mut rw, &mut gen.out);
                    gen.out.push_str(&render_item(syn::Item::Impl(im)));
                    gen.out.push('\n');
                }
                if !all && !want.is_empty() {
                    die(format!("lost anchor: methods {:?} of `{}` not found in {}", want, spec.path, spec.file));
                }
            }
            _ => die(format!("bad item path `{}`", spec.path)),
        }
    }

    for k in contracts.fns.keys() {
        if !used_contract_keys.contains(k) {
            die(format!("lost anchor: contract for `{}` has no extracted function", k));
        }
    }
    if let Some(v) = &vacuity {
        if !used_contract_keys.contains(v) {
            die(format!("--vacuity: no function `{}`", v));
        }
    }

    // ---------------- second pass: replace placeholders by contract text, tracking lines
    let mut final_out = String::new();
    let mut line_no = 0usize; // number of lines already written
    let mut cur_fn: Option<usize> = None;
    let src_lines: Vec<&str> = gen.out.lines().collect();
    let mut idx_of_fnidx: HashMap<usize, usize> = HashMap::new();
    for (n, (gi, _)) in pending.iter().enumerate() {
        idx_of_fnidx.insert(n, *gi);
    }
    let push_line = |final_out: &mut String, line_no: &mut usize, s: &str| {
        final_out.push_str(s);
        final_out.push('\n');
        *line_no += 1;
    };
    for (li, line) in src_lines.iter().enumerate() {
        let trimmed = line.trim();
        let indent: String = line.chars().take_while(|c| c.is_whitespace()).collect();
        if li >= prelude_lines {
            if let Some(n) = parse_placeholder(trimmed, "#[vx_fn_spec_", "]") {
                let n: usize = n.parse().unwrap();
                // close previous fn
                if let Some(c) = cur_fn { gen.fns[c].out_line_end = line_no; }
                let gi = idx_of_fnidx[&n];
                cur_fn = Some(gi);
                gen.fns[gi].out_line_start = line_no + 1;
                let key = gen.fns[gi].key.clone();
                let contract = contracts.fns.get(&key);
                let is_vac = vacuity.as_deref() == Some(key.as_str());
                let ext = gen.fns[gi].external_body;
                if let Some(c) = contract {
                    for a in &c.attrs {
                        push_line(&mut final_out, &mut line_no, &format!("{}#[{}]", indent, a));
                    }
                }
                if ext {
                    push_line(&mut final_out, &mut line_no, &format!("{}#[verus_verify(external_body)]", indent));
                }
                if contract.is_some() || is_vac {
                    let empty = FnContract::default();
                    let c = contract.unwrap_or(&empty);
                    let binder = c.binder.clone().unwrap_or_else(|| "vx_ret".to_string());
                    push_line(&mut final_out, &mut line_no, &format!("{}#[verus_spec({} =>", indent, binder));
                    if let Some(w) = &c.with {
                        push_line(&mut final_out, &mut line_no, &format!("{}    with {}", indent, w));
                    }
                    let mut emit_group = |kw: &str, clauses: &Vec<Clause>, extra: Option<Clause>, final_out: &mut String, line_no: &mut usize, fo: &mut FnOut| {
                        let mut all: Vec<Clause> = clauses.clone();
                        if let Some(e) = extra { all.push(e); }
                        if all.is_empty() { return; }
                        push_line(final_out, line_no, &format!("{}    {}", indent, kw));
                        for cl in all {
                            let start = *line_no + 1;
                            let lines: Vec<&str> = cl.text.lines().collect();
                            for (k, l) in lines.iter().enumerate() {
                                let comma = if k + 1 == lines.len() { "," } else { "" };
                                push_line(final_out, line_no, &format!("{}        {}{}", indent, l, comma));
                            }
                            fo.clauses.push(ClauseOut { name: cl.name.clone(), kind: kw.to_string(), strength: cl.strength.clone(), text: cl.text.clone(), out_line_start: start, out_line_end: *line_no, src_line: cl.src_line });
                        }
                    };
                    let fo = &mut gen.fns[gi];
                    emit_group("requires", &c.requires, None, &mut final_out, &mut line_no, fo);
                    let vac = if is_vac { Some(Clause { name: "__vacuity".into(), text: "false".into(), strength: "vacuity".into(), src_line: 0 }) } else { None };
                    emit_group("ensures", &c.ensures, vac, &mut final_out, &mut line_no, fo);
                    if let Some(d) = &c.decreases {
                        push_line(&mut final_out, &mut line_no, &format!("{}    decreases {},", indent, d));
                    }
                    push_line(&mut final_out, &mut line_no, &format!("{})]", indent));
                }
                continue;
            }
            let loop_inline: Option<(String, String)> = line.find("#[vx_loop_").map(|pos| {
                let after = &line[pos + "#[vx_loop_".len()..];
                let close = after.find(']').unwrap();
                (after[..close].to_string(), after[close + 1..].trim_start().to_string())
            });
            if let Some((rest, rest_of_line)) = loop_inline {
                let rest = rest.as_str();
                let mut it = rest.split('_');
                let n: usize = it.next().unwrap().parse().unwrap();
                let k: usize = it.next().unwrap().parse().unwrap();
                let gi = idx_of_fnidx[&n];
                let key = gen.fns[gi].key.clone();
                let lc = &contracts.fns[&key].loops[&k];
                match &lc.binder {
                    Some(b) => push_line(&mut final_out, &mut line_no, &format!("{}#[verus_spec({} =>", indent, b)),
                    None => push_line(&mut final_out, &mut line_no, &format!("{}#[verus_spec(", indent)),
                }
                for (kw, cls) in [("invariant", &lc.invariants), ("invariant_except_break", &lc.invariants_except_break), ("ensures", &lc.ensures)] {
                    if cls.is_empty() { continue; }
                    push_line(&mut final_out, &mut line_no, &format!("{}    {}", indent, kw));
                    for cl in cls {
                        let start = line_no + 1;
                        let lines: Vec<&str> = cl.text.lines().collect();
                        for (kk, l) in lines.iter().enumerate() {
                            let comma = if kk + 1 == lines.len() { "," } else { "" };
                            push_line(&mut final_out, &mut line_no, &format!("{}        {}{}", indent, l, comma));
                        }
                        gen.fns[gi].clauses.push(ClauseOut { name: cl.name.clone(), kind: format!("loop{}-{}", k, kw), strength: cl.strength.clone(), text: cl.text.clone(), out_line_start: start, out_line_end: line_no, src_line: cl.src_line });
                    }
                }
                if let Some(d) = &lc.decreases {
                    push_line(&mut final_out, &mut line_no, &format!("{}    decreases {},", indent, d));
                }
                push_line(&mut final_out, &mut line_no, &format!("{})]", indent));
                if !rest_of_line.is_empty() {
                    push_line(&mut final_out, &mut line_no, &format!("{}{}", indent, rest_of_line));
                }
                continue;
            }
            if let Some(pos) = line.find("#[vx_pcl_") {
                let after = &line[pos + "#[vx_pcl_".len()..];
                let close = after.find(']').unwrap();
                let rest_of_line = after[close + 1..].trim_start().to_string();
                let before = line[..pos].to_string();
                let mut it = after[..close].split('_');
                let n: usize = it.next().unwrap().parse().unwrap();
                let k: usize = it.next().unwrap().parse().unwrap();
                let gi = idx_of_fnidx[&n];
                let (ty, body) = gen.fns[gi].derived_closures[k].clone();
                if !before.trim().is_empty() { push_line(&mut final_out, &mut line_no, before.trim_end()); }
                push_line(&mut final_out, &mut line_no, &format!("{}#[verus_spec(vx_ret: {} => ensures vx_ret == ({}))]", indent, ty, body));
                if !rest_of_line.is_empty() { push_line(&mut final_out, &mut line_no, &format!("{}{}", indent, rest_of_line)); }
                continue;
            }
            if let Some(pos) = line.find("#[vx_closure_") {
                let after = &line[pos + "#[vx_closure_".len()..];
                let close = after.find(']').unwrap();
                let ids_full = &after[..close];
                let (ids, pnames): (&str, Vec<String>) = match ids_full.split_once('(') {
                    Some((a, b)) => (a, b.trim_end_matches(')').split(',').map(|x| x.trim().to_string()).filter(|x| !x.is_empty()).collect()),
                    None => (ids_full, vec![]),
                };
                let subst = |t: &str| -> String {
                    let mut o = t.to_string();
                    for (i, n) in pnames.iter().enumerate().rev() { o = o.replace(&format!("${}", i + 1), n); }
                    o
                };
                let rest_of_line = after[close + 1..].trim_start().to_string();
                let before = line[..pos].to_string();
                let mut it = ids.split('_');
                let n: usize = it.next().unwrap().parse().unwrap();
                let k: usize = it.next().unwrap().parse().unwrap();
                let gi = idx_of_fnidx[&n];
                let key = gen.fns[gi].key.clone();
                let cc = contracts.fns[&key].closures[&k].clone();
                if !before.trim().is_empty() {
                    push_line(&mut final_out, &mut line_no, before.trim_end());
                }
                push_line(&mut final_out, &mut line_no, &format!("{}#[verus_spec({} =>", indent, cc.binder.clone().unwrap_or_else(|| die(format!("{}: closure {} needs `binder r: Type`", key, k)))));
                for (kw, cls) in [("requires", &cc.requires), ("ensures", &cc.ensures)] {
                    if cls.is_empty() { continue; }
                    push_line(&mut final_out, &mut line_no, &format!("{}    {}", indent, kw));
                    for cl in cls {
                        let start = line_no + 1;
                        let txt = subst(&cl.text);
                        let lines: Vec<&str> = txt.lines().collect();
                        for (kk, l) in lines.iter().enumerate() {
                            let comma = if kk + 1 == lines.len() { "," } else { "" };
                            push_line(&mut final_out, &mut line_no, &format!("{}        {}{}", indent, l, comma));
                        }
                        gen.fns[gi].clauses.push(ClauseOut { name: cl.name.clone(), kind: format!("closure{}-{}", k, kw), strength: cl.strength.clone(), text: cl.text.clone(), out_line_start: start, out_line_end: line_no, src_line: cl.src_line });
                    }
                }
                push_line(&mut final_out, &mut line_no, &format!("{})]", indent));
                if !rest_of_line.is_empty() {
                    push_line(&mut final_out, &mut line_no, &format!("{}{}", indent, rest_of_line));
                }
                continue;
            }
            if let Some(n) = parse_placeholder(trimmed, "vx_proof_end_", "!();") {
                let gi = idx_of_fnidx[&n.parse::<usize>().unwrap()];
                let key = gen.fns[gi].key.clone();
                let txt = contracts.fns[&key].proof_end.clone().unwrap();
                push_line(&mut final_out, &mut line_no, &format!("{}proof! {{", indent));
                for l in txt.lines() { push_line(&mut final_out, &mut line_no, &format!("{}    {}", indent, l)); }
                push_line(&mut final_out, &mut line_no, &format!("{}}}", indent));
                continue;
            }
            if let Some(n) = parse_placeholder(trimmed, "vx_ghost_begin_", "!();") {
                let gi = idx_of_fnidx[&n.parse::<usize>().unwrap()];
                let key = gen.fns[gi].key.clone();
                let txt = contracts.fns[&key].ghost_begin.clone().unwrap();
                push_line(&mut final_out, &mut line_no, &format!("{}proof_decl! {{", indent));
                for l in txt.lines() { push_line(&mut final_out, &mut line_no, &format!("{}    {}", indent, l)); }
                push_line(&mut final_out, &mut line_no, &format!("{}}}", indent));
                continue;
            }
            if let Some(n) = parse_placeholder(trimmed, "vx_proof_begin_", "!();") {
                let gi = idx_of_fnidx[&n.parse::<usize>().unwrap()];
                let key = gen.fns[gi].key.clone();
                let txt = contracts.fns[&key].proof_begin.clone().unwrap();
                push_line(&mut final_out, &mut line_no, &format!("{}proof! {{", indent));
                for l in txt.lines() { push_line(&mut final_out, &mut line_no, &format!("{}    {}", indent, l)); }
                push_line(&mut final_out, &mut line_no, &format!("{}}}", indent));
                continue;
            }
            if let Some(rest) = parse_placeholder(trimmed, "vx_proof_pt_", "!();") {
                let mut it = rest.split('_');
                let n: usize = it.next().unwrap().parse().unwrap();
                let i: usize = it.next().unwrap().parse().unwrap();
                let gi = idx_of_fnidx[&n];
                let key = gen.fns[gi].key.clone();
                let txt = contracts.fns[&key].proof_points[i].text.clone();
                let opener = if contracts.fns[&key].proof_points[i].decl { "proof_decl! {" } else { "proof! {" };
                push_line(&mut final_out, &mut line_no, &format!("{}{}", indent, opener));
                for l in txt.lines() { push_line(&mut final_out, &mut line_no, &format!("{}    {}", indent, l)); }
                push_line(&mut final_out, &mut line_no, &format!("{}}}", indent));
                continue;
            }
            if let Some(rest) = parse_placeholder(trimmed, "vx_ghost_loop_", "!();").map(|r| (r, true)).or_else(|| parse_placeholder(trimmed, "vx_tail_loop_", "!();").map(|r| (r, false))) {
                let (rest, is_ghost) = rest;
                let mut it = rest.split('_');
                let n: usize = it.next().unwrap().parse().unwrap();
                let k: usize = it.next().unwrap().parse().unwrap();
                let gi = idx_of_fnidx[&n];
                let key = gen.fns[gi].key.clone();
                let lc = &contracts.fns[&key].loops[&k];
                let txt = if is_ghost { lc.ghost_head.clone().unwrap() } else { lc.proof_tail.clone().unwrap() };
                push_line(&mut final_out, &mut line_no, &format!("{}{}", indent, if is_ghost { "proof_decl! {" } else { "proof! {" }));
                for l in txt.lines() { push_line(&mut final_out, &mut line_no, &format!("{}    {}", indent, l)); }
                push_line(&mut final_out, &mut line_no, &format!("{}}}", indent));
                continue;
            }
            if let Some(rest) = parse_placeholder(trimmed, "vx_proof_loop_", "!();") {
                let mut it = rest.split('_');
                let n: usize = it.next().unwrap().parse().unwrap();
                let k: usize = it.next().unwrap().parse().unwrap();
                let gi = idx_of_fnidx[&n];
                let key = gen.fns[gi].key.clone();
                let txt = contracts.fns[&key].loops[&k].proof_head.clone().unwrap();
                push_line(&mut final_out, &mut line_no, &format!("{}proof! {{", indent));
                for l in txt.lines() { push_line(&mut final_out, &mut line_no, &format!("{}    {}", indent, l)); }
                push_line(&mut final_out, &mut line_no, &format!("{}}}", indent));
                continue;
            }
            // a top-level item start closes the current function range
            // a closing brace in column 0 ends the current free fn / the impl block holding the current method
            if *line == "}" {
                push_line(&mut final_out, &mut line_no, line);
                if let Some(c) = cur_fn.take() { gen.fns[c].out_line_end = line_no; }
                continue;
            }
        }
        push_line(&mut final_out, &mut line_no, line);
    }
    if let Some(c) = cur_fn { gen.fns[c].out_line_end = line_no; }

    // assumption scan (vacuity guard (d))
    let mut assumptions = vec![];
    let all_lines: Vec<&str> = final_out.lines().collect();
    for (n, l) in all_lines.iter().enumerate() {
        let t = l.trim();
        if t.starts_with("//") { continue; }
        for pat in ["assume(", "admit()", "external_body", "assume_specification", "external_type_specification", "#[verifier::external", "exec_allows_no_decreases_clause", "accept_recursive_types"] {
            if t.contains(pat) {
                // an attribute on a line of its own says nothing: add the item it is attached to (first following line that is no attribute)
                let mut what = t.to_string();
                if t.starts_with("#[") && t.ends_with(']') {
                    let mut k = n + 1;
                    let mut depth = 0i32;
                    while k < all_lines.len() && k < n + 40 {
                        let u = all_lines[k].trim();
                        // skip attribute lines, including multi-line #[verus_spec( .. )] blocks
                        if depth > 0 || u.starts_with("#[") || u.starts_with("//") {
                            depth += u.matches('(').count() as i32 + u.matches('[').count() as i32 - u.matches(')').count() as i32 - u.matches(']').count() as i32;
                            if depth < 0 { depth = 0; }
                            k += 1; continue;
                        }
                        what = format!("{} {}", t, u.chars().take(160).collect::<String>());
                        break;
                    }
                }
                assumptions.push(format!("{}:{}: {}", if n < prelude_lines { "prelude" } else { "generated" }, n + 1, what));
                break;
            }
        }
    }

    let mut shape_failures: Vec<String> = vec![];
    // shape checks requested by contracts (A-rust, C07)
    for (k, c) in &contracts.fns {
        for sc in &c.shapes {
            let fo = gen.fns.iter().find(|f| &f.key == k).unwrap();
            let nb: String = fo.orig_norm.clone();
            let pat: String = sc.pattern.split_whitespace().collect::<Vec<_>>().join("");
            let present = nb.contains(&pat);
            if present != sc.must_contain {
                // not fatal: the obligations are still generated and checked; the runner reports "undecided"
                // for the A-rust assumption only if nothing else fails
                shape_failures.push(format!("shape check failed for {}: `{}` must{} occur", k, sc.pattern, if sc.must_contain { "" } else { " not" }));
                continue;
            }
            gen.shape_checks.push(format!("{}: `{}` {}", k, sc.pattern, if sc.must_contain { "present" } else { "absent" }));
        }
    }

    std::fs::write(&out, &final_out).unwrap_or_else(|e| die(format!("write {}: {}", out.display(), e)));
    let m = MapOut {
        unit: unit_toml.name.clone(),
        serves: unit_toml.serves.clone(),
        features: unit_toml.features.clone(),
        prelude_lines,
        functions: gen.fns,
        items: gen.items,
        assumptions,
        shape_checks: gen.shape_checks,
        shape_failures,
        vacuity_target: vacuity,
        census: unit_toml.census.iter().map(|c| run_census(&repo, c, &cfg)).collect(),
    };
    std::fs::write(&map, serde_json::to_string_pretty(&m).unwrap()).unwrap_or_else(|e| die(format!("write map: {}", e)));
    let _ = Path::new(".");
}

// ---------------------------------------------------------------- call-site census
struct CensusVisitor<'a> {
    callee: &'a str,
    cfg: &'a CfgEnv,
    ty: Vec<String>,
    func: Vec<String>,
    hits: Vec<(String, usize)>,
}
impl<'a> CensusVisitor<'a> {
    fn here(&self) -> String {
        match (self.ty.last(), self.func.last()) {
            (Some(t), Some(f)) if !t.is_empty() => format!("{}::{}", t, f),
            (_, Some(f)) => f.clone(),
            _ => "<item>".into(),
        }
    }
}
fn is_cfg_test(attrs: &[syn::Attribute]) -> bool {
    attrs.iter().any(|a| a.path().is_ident("cfg") && a.meta.to_token_stream().to_string().replace(' ', "").contains("cfg(test)"))
}
impl<'a, 'ast> syn::visit::Visit<'ast> for CensusVisitor<'a> {
    fn visit_item_mod(&mut self, m: &'ast syn::ItemMod) {
        if is_cfg_test(&m.attrs) { return; }
        syn::visit::visit_item_mod(self, m);
    }
    fn visit_item_impl(&mut self, im: &'ast syn::ItemImpl) {
        if is_cfg_test(&im.attrs) || !self.cfg.keep(&im.attrs) { return; }
        self.ty.push(type_last_ident(&im.self_ty).unwrap_or_default());
        syn::visit::visit_item_impl(self, im);
        self.ty.pop();
    }
    fn visit_item_trait(&mut self, t: &'ast syn::ItemTrait) {
        self.ty.push(t.ident.to_string());
        syn::visit::visit_item_trait(self, t);
        self.ty.pop();
    }
    fn visit_item_fn(&mut self, f: &'ast syn::ItemFn) {
        if is_cfg_test(&f.attrs) || f.attrs.iter().any(|a| a.path().is_ident("test")) { return; }
        self.ty.push(String::new());
        self.func.push(f.sig.ident.to_string());
        syn::visit::visit_item_fn(self, f);
        self.func.pop();
        self.ty.pop();
    }
    fn visit_impl_item_fn(&mut self, f: &'ast syn::ImplItemFn) {
        if is_cfg_test(&f.attrs) || !self.cfg.keep(&f.attrs) { return; }
        self.func.push(f.sig.ident.to_string());
        syn::visit::visit_impl_item_fn(self, f);
        self.func.pop();
    }
    fn visit_trait_item_fn(&mut self, f: &'ast syn::TraitItemFn) {
        self.func.push(f.sig.ident.to_string());
        syn::visit::visit_trait_item_fn(self, f);
        self.func.pop();
    }
    fn visit_expr_method_call(&mut self, m: &'ast syn::ExprMethodCall) {
        if m.method == self.callee { self.hits.push((self.here(), m.method.span().start().line)); }
        syn::visit::visit_expr_method_call(self, m);
    }
    fn visit_expr_path(&mut self, p: &'ast syn::ExprPath) {
        // a path naming the function (called directly, or passed as a function value)
        if p.path.segments.last().map(|s| s.ident == self.callee).unwrap_or(false) && p.path.segments.len() > 1 {
            self.hits.push((self.here(), p.path.segments.last().unwrap().ident.span().start().line));
        }
        syn::visit::visit_expr_path(self, p);
    }
    fn visit_macro(&mut self, m: &'ast syn::Macro) {
        // calls hidden in macro arguments: token-level search
        let mut prev_dot_or_colon = false;
        fn walk(ts: TokenStream, callee: &str, hits: &mut Vec<usize>, prev: &mut bool) {
            for tt in ts {
                match tt {
                    TokenTree::Group(g) => { walk(g.stream(), callee, hits, prev); *prev = false; }
                    TokenTree::Ident(i) => { if i == callee && *prev { hits.push(i.span().start().line); } *prev = false; }
                    TokenTree::Punct(p) => { *prev = p.as_char() == '.' || p.as_char() == ':'; }
                    _ => { *prev = false; }
                }
            }
        }
        let mut hs = vec![];
        walk(m.tokens.clone(), self.callee, &mut hs, &mut prev_dot_or_colon);
        for l in hs { self.hits.push((self.here(), l)); }
    }
}
fn run_census(repo: &Path, c: &CensusSpec, cfg: &CfgEnv) -> CensusOut {
    let mut out = CensusOut { name: c.name.clone(), callee: c.callee.clone(), props: c.props.clone(), ok: true, ..Default::default() };
    let mut stack = vec![repo.join(&c.root)];
    let mut files = vec![];
    while let Some(d) = stack.pop() {
        let rd = std::fs::read_dir(&d).unwrap_or_else(|e| die(format!("census: cannot read {}: {}", d.display(), e)));
        for ent in rd.flatten() {
            let p = ent.path();
            let name = p.file_name().unwrap().to_string_lossy().to_string();
            if p.is_dir() { if name != "tests" { stack.push(p); } continue; }
            if !name.ends_with(".rs") || name.ends_with("tests.rs") || name.ends_with("_test.rs") { continue; }
            files.push(p);
        }
    }
    files.sort();
    for f in files {
        let src = std::fs::read_to_string(&f).unwrap_or_else(|e| die(format!("census: {}: {}", f.display(), e)));
        let parsed = syn::parse_file(&src).unwrap_or_else(|e| die(format!("census: cannot parse {}: {}", f.display(), e)));
        let mut v = CensusVisitor { callee: &c.callee, cfg, ty: vec![], func: vec![], hits: vec![] };
        syn::visit::Visit::visit_file(&mut v, &parsed);
        let rel = f.strip_prefix(repo).unwrap_or(&f).display().to_string();
        for (encl, line) in v.hits {
            let site = format!("{}:{} in {}", rel, line, encl);
            if c.allowed_in.contains(&encl) { out.sites.push(site); } else { out.ok = false; out.offenders.push(site); }
        }
    }
    if out.sites.is_empty() && out.ok {
        die(format!("census `{}`: no call site of `{}` found at all under {} (lost anchor)", c.name, c.callee, c.root));
    }
    out
}

fn parse_placeholder<'a>(line: &'a str, pre: &str, post: &str) -> Option<&'a str> {
    let r = line.strip_prefix(pre)?;
    let r = r.strip_suffix(post)?;
    if r.chars().all(|c| c.is_ascii_digit() || c == '_') && !r.is_empty() { Some(r) } else { None }
}

fn check_no_unsafe(ts: &TokenStream, what: &str) {
    for tt in ts.clone() {
        match tt {
            TokenTree::Ident(i) if i == "unsafe" => die(format!("`unsafe` inside extracted item {}", what)),
            TokenTree::Group(g) => check_no_unsafe(&g.stream(), what),
            _ => {}
        }
    }
}

fn drop_generics(g: &mut syn::Generics, names: &[String]) {
    if names.is_empty() { return; }
    let kept: Vec<syn::GenericParam> = g.params.iter().filter(|p| match p {
        syn::GenericParam::Type(t) => !names.contains(&t.ident.to_string()),
        _ => true,
    }).cloned().collect();
    g.params = kept.into_iter().collect();
    if let Some(w) = &mut g.where_clause {
        let kept: Vec<syn::WherePredicate> = w.predicates.iter().filter(|p| match p {
            syn::WherePredicate::Type(t) => !names.contains(&norm_tokens(&t.bounded_ty.to_token_stream())),
            _ => true,
        }).cloned().collect();
        w.predicates = kept.into_iter().collect();
    }
}
