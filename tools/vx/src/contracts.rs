//! parser for units/<u>/contracts.vx
//!
//! ```text
//! fn <key>                                   # column 0; key as printed in the map ("Type::method", "Trait for Type::m", "free_fn")
//!   binder r
//!   attr verifier::exec_allows_no_decreases_clause
//!   with Tracked(log): Tracked<&mut EffectLog>
//!   requires name: <expr>                    # continuation lines are indented >= 4
//!   ensures name [beyond-property]: <expr>
//!   decreases <expr>
//!   loop 0 invariant name: <expr>
//!   loop 0 decreases <expr>
//!   loop 0 proof <text>                      # proof block at the head of the loop body
//!   proof begin: <text>
//!   proof end: <text>
//!   proof after <callee>: <text>              # proof block right after each statement that calls <callee> (last path segment / method name)
//!   ghost after <callee>: <let ghost ..;>     # proof_decl! right after each statement that calls <callee>
//!   proof before_loop <N>: <text>            # proof block right before loop N
//!   closure 0 binder r: Type               # closures are numbered in source order within the fn
//!   closure 0 at <callee>#k                # anchor: the k-th closure (source order) passed to a call of <callee>; `$1`, `$2` in
//!                                          # the closure's clauses stand for its parameter names
//!   closures at <callee> pure: (Type)       # R28: every closure passed to <callee> whose body is a pure expression gets the
//!                                          # derived postcondition `result == <body>` (result type as given)
//!   closures exhaustive                     # a closure of this fn that gets no contract is a lost anchor (exit 2), never judged
//!   closure 0 requires name: <expr>
//!   closure 0 ensures name: <expr>
//!   call <callee> with Tracked(log)          # R6 (callee: bare fn/method name or full "recv.method" / "a::b")
//!   call? <callee> with Tracked(log)         # same, but the call may be absent under some cfg sets
//!   shape contains: <tokens>                 # syntactic shape check on the generated fn text (A-rust)
//!   shape absent: <tokens>
//! ```
//! `#` starts a comment only at the beginning of a (trimmed) line.

use std::collections::BTreeMap;

#[derive(Debug, Clone, Default)]
pub struct Clause {
    pub name: String,
    pub text: String,
    pub strength: String,
    pub src_line: usize,
}

#[derive(Debug, Clone, Default)]
pub struct LoopContract {
    /// for `for` loops: name of the ghost iterator wrapper (`it.index@`, `it.history@`)
    pub binder: Option<String>,
    pub invariants: Vec<Clause>,
    pub invariants_except_break: Vec<Clause>,
    pub ensures: Vec<Clause>,
    pub decreases: Option<String>,
    pub proof_head: Option<String>,
    /// `loop N ghost: <decls>` -- ghost declarations (proof_decl!) at the head of the loop body, in scope for the whole body
    pub ghost_head: Option<String>,
    /// `loop N proof_end: <text>` -- a proof block at the end of the loop body
    pub proof_tail: Option<String>,
    /// `loop N match <text>`: the contract belongs to the loop whose body contains this token text (white space ignored), wherever
    /// it stands among the function's loops; N is then only a label. No such loop, or more than one => lost anchor
    pub match_text: Option<String>,
}

#[derive(Debug, Clone, Default)]
pub struct ClosureContract {
    /// locate the closure by a token substring of its body instead of by ordinal (robust against added/removed closures)
    pub match_text: Option<String>,
    /// locate the closure as the k-th closure (source order) passed to a call of `<callee>` (`closure N at <callee>#k`)
    pub at_call: Option<(String, usize)>,
    pub binder: Option<String>,
    pub requires: Vec<Clause>,
    pub ensures: Vec<Clause>,
}

#[derive(Debug, Clone, Default)]
pub struct CallWith {
    pub pattern: String,
    pub with: String,
    pub optional: bool,
}

#[derive(Debug, Clone, Default)]
pub struct Shape {
    pub pattern: String,
    pub must_contain: bool,
}

#[derive(Debug, Clone)]
pub enum ProofAt { AfterCall(String), BeforeCall(String), BeforeLoop(usize) }
#[derive(Debug, Clone)]
pub struct ProofPoint { pub at: ProofAt, pub text: String, pub decl: bool }

#[derive(Debug, Clone, Default)]
pub struct FnContract {
    pub proof_points: Vec<ProofPoint>,
    pub binder: Option<String>,
    pub attrs: Vec<String>,
    pub with: Option<String>,
    pub requires: Vec<Clause>,
    pub ensures: Vec<Clause>,
    pub decreases: Option<String>,
    pub loops: BTreeMap<usize, LoopContract>,
    pub closures: BTreeMap<usize, ClosureContract>,
    pub closures_exhaustive: bool,
    /// R28: callee -> result type; a closure passed to that callee whose body is a pure expression gets `ensures result == body`
    pub pure_closures: BTreeMap<String, String>,
    pub proof_end: Option<String>,
    pub proof_begin: Option<String>,
    pub ghost_begin: Option<String>,
    pub calls: Vec<CallWith>,
    pub shapes: Vec<Shape>,
    pub props: Vec<String>,
    pub only_feature: Option<String>,
}

#[derive(Debug, Default)]
pub struct Contracts {
    pub fns: BTreeMap<String, FnContract>,
}

fn split_named(rest: &str, line: usize) -> Result<(String, String, String), String> {
    // "name [strength]: expr"
    let colon = rest.find(':').ok_or_else(|| format!("line {}: expected `name: expr`", line))?;
    // guard against `::` being taken as the separator
    let head = rest[..colon].trim();
    if head.contains(' ') && !head.contains('[') {
        return Err(format!("line {}: clause needs a name before `:` (got `{}`)", line, head));
    }
    let (name, strength) = if let Some(b) = head.find('[') {
        let n = head[..b].trim().to_string();
        let s = head[b + 1..].trim_end_matches(']').trim().to_string();
        (n, s)
    } else {
        (head.to_string(), "property".to_string())
    };
    Ok((name, strength, rest[colon + 1..].trim().to_string()))
}

pub fn parse_contracts(src: &str) -> Result<Contracts, String> {
    let mut out = Contracts::default();
    let mut cur: Option<String> = None;
    // collect logical directives: (line_no, text with continuation lines joined by \n)
    let mut directives: Vec<(usize, Option<String>, String)> = vec![]; // (line, fn key, text)
    for (i, raw) in src.lines().enumerate() {
        let ln = i + 1;
        let t = raw.trim_end();
        let tt = t.trim_start();
        if tt.is_empty() || tt == "#" || tt.starts_with("# ") || (tt.starts_with('#') && !tt.starts_with("#[") && !tt.starts_with("#!")) {
            continue;
        }
        let indent = t.len() - t.trim_start().len();
        if indent == 0 {
            let key = t.strip_prefix("fn ").ok_or_else(|| format!("line {}: expected `fn <key>`", ln))?.trim().to_string();
            if out.fns.contains_key(&key) {
                return Err(format!("line {}: duplicate contract for {}", ln, key));
            }
            // `fn <key> @feature` / `fn <key> @!feature`: variant of the contract for one cfg set
            let mut fc = FnContract::default();
            if let Some((_, f)) = key.rsplit_once(" @") { fc.only_feature = Some(f.trim().to_string()); }
            out.fns.insert(key.clone(), fc);
            cur = Some(key);
        } else if indent == 2 {
            directives.push((ln, cur.clone(), t.trim().to_string()));
        } else if indent >= 4 {
            let last = directives.last_mut().ok_or_else(|| format!("line {}: continuation without directive", ln))?;
            last.2.push('\n');
            last.2.push_str(t.trim());
        } else {
            return Err(format!("line {}: bad indentation", ln));
        }
    }
    for (ln, key, text) in directives {
        let key = key.ok_or_else(|| format!("line {}: directive outside fn block", ln))?;
        let fc = out.fns.get_mut(&key).unwrap();
        let (kw, rest) = match text.find(|c: char| c.is_whitespace()) {
            Some(p) => (&text[..p], text[p..].trim_start()),
            None => (text.as_str(), ""),
        };
        match kw {
            "binder" => fc.binder = Some(rest.to_string()),
            "only" => fc.only_feature = Some(rest.trim().to_string()),
            "props" => fc.props = rest.split(|c: char| c == ',' || c.is_whitespace()).filter(|x| !x.is_empty()).map(|x| x.to_string()).collect(),
            "attr" => fc.attrs.push(rest.to_string()),
            "with" => fc.with = Some(rest.to_string()),
            "requires" | "ensures" => {
                let (name, strength, expr) = split_named(rest, ln)?;
                let cl = Clause { name, text: expr, strength, src_line: ln };
                if kw == "requires" { fc.requires.push(cl) } else { fc.ensures.push(cl) }
            }
            "decreases" => fc.decreases = Some(rest.to_string()),
            "loop" => {
                let mut it = rest.splitn(3, char::is_whitespace);
                let k: usize = it.next().unwrap_or("").parse().map_err(|_| format!("line {}: loop ordinal", ln))?;
                let sub = it.next().unwrap_or("");
                let r = it.next().unwrap_or("").trim();
                let lc = fc.loops.entry(k).or_default();
                match sub {
                    "invariant" => {
                        let (name, strength, expr) = split_named(r, ln)?;
                        lc.invariants.push(Clause { name, text: expr, strength, src_line: ln });
                    }
                    "invariant_except_break" => {
                        let (name, strength, expr) = split_named(r, ln)?;
                        lc.invariants_except_break.push(Clause { name, text: expr, strength, src_line: ln });
                    }
                    "ensures" => {
                        let (name, strength, expr) = split_named(r, ln)?;
                        lc.ensures.push(Clause { name, text: expr, strength, src_line: ln });
                    }
                    "binder" => lc.binder = Some(r.to_string()),
                    "decreases" => lc.decreases = Some(r.to_string()),
                    "proof" => lc.proof_head = Some(r.to_string()),
                    "ghost:" => lc.ghost_head = Some(r.to_string()),
                    "proof_end:" => lc.proof_tail = Some(r.to_string()),
                    "match" => lc.match_text = Some(r.split_whitespace().collect::<Vec<_>>().join("")),
                    other => return Err(format!("line {}: unknown loop directive `{}`", ln, other)),
                }
            }
            "closures" => {
                let rest = rest.trim();
                if rest == "exhaustive" { fc.closures_exhaustive = true; }
                else if let Some(r) = rest.strip_prefix("at ") {
                    let (callee, ty) = r.split_once(" pure:").ok_or_else(|| format!("line {}: `closures at <callee> pure: (Type)` expected", ln))?;
                    fc.pure_closures.insert(callee.trim().to_string(), ty.trim().to_string());
                } else { return Err(format!("line {}: `closures exhaustive` or `closures at <callee> pure: (Type)` expected", ln)); }
            }
            "closure" => {
                let mut it = rest.splitn(3, char::is_whitespace);
                let k: usize = it.next().unwrap_or("").parse().map_err(|_| format!("line {}: closure ordinal", ln))?;
                let sub = it.next().unwrap_or("");
                let r = it.next().unwrap_or("").trim();
                let cc = fc.closures.entry(k).or_default();
                match sub {
                    "binder" => cc.binder = Some(r.to_string()),
                    "match" => cc.match_text = Some(r.split_whitespace().collect::<Vec<_>>().join("")),
                    "at" => {
                        let (callee, k) = match r.split_once('#') { Some((c, k)) => (c.trim(), k.trim().parse::<usize>().map_err(|_| format!("line {}: closure at <callee>#<k>", ln))?), None => (r, 0) };
                        cc.at_call = Some((callee.to_string(), k));
                    }
                    "requires" | "ensures" => {
                        let (name, strength, expr) = split_named(r, ln)?;
                        let cl = Clause { name, text: expr, strength, src_line: ln };
                        if sub == "requires" { cc.requires.push(cl) } else { cc.ensures.push(cl) }
                    }
                    other => return Err(format!("line {}: unknown closure directive `{}`", ln, other)),
                }
            }
            "ghost" => {
                let (pos, body) = rest.split_once(':').ok_or_else(|| format!("line {}: ghost begin:", ln))?;
                if let Some(c) = pos.trim().strip_prefix("before_loop ") {
                    let k: usize = c.trim().parse().map_err(|_| format!("line {}: loop ordinal", ln))?;
                    fc.proof_points.push(ProofPoint { at: ProofAt::BeforeLoop(k), text: body.trim().to_string(), decl: true });
                } else if let Some(c) = pos.trim().strip_prefix("before ") {
                    fc.proof_points.push(ProofPoint { at: ProofAt::BeforeCall(c.trim().to_string()), text: body.trim().to_string(), decl: true });
                } else if let Some(c) = pos.trim().strip_prefix("after ") {
                    // ghost declarations (proof_decl!) right after each statement that calls <callee>: in scope for the rest of the block
                    fc.proof_points.push(ProofPoint { at: ProofAt::AfterCall(c.trim().to_string()), text: body.trim().to_string(), decl: true });
                } else {
                    if pos.trim() != "begin" { return Err(format!("line {}: only `ghost begin:` / `ghost after <callee>:`", ln)); }
                    fc.ghost_begin = Some(body.trim().to_string());
                }
            }
            "proof" => {
                let (pos, body) = rest.split_once(':').ok_or_else(|| format!("line {}: proof begin:/end:", ln))?;
                match pos.trim() {
                    "end" => fc.proof_end = Some(body.trim().to_string()),
                    "begin" => fc.proof_begin = Some(body.trim().to_string()),
                    o if o.starts_with("after ") => fc.proof_points.push(ProofPoint { at: ProofAt::AfterCall(o[6..].trim().to_string()), text: body.trim().to_string(), decl: false }),
                    o if o.starts_with("before ") => fc.proof_points.push(ProofPoint { at: ProofAt::BeforeCall(o[7..].trim().to_string()), text: body.trim().to_string(), decl: false }),
                    o if o.starts_with("before_loop ") => {
                        let k: usize = o[12..].trim().parse().map_err(|_| format!("line {}: loop ordinal", ln))?;
                        fc.proof_points.push(ProofPoint { at: ProofAt::BeforeLoop(k), text: body.trim().to_string(), decl: false })
                    }
                    o => return Err(format!("line {}: unknown proof position `{}`", ln, o)),
                }
            }
            "call" | "call?" => {
                let (pat, with) = rest.split_once(" with ").ok_or_else(|| format!("line {}: call <callee> with <args>", ln))?;
                fc.calls.push(CallWith { pattern: pat.trim().to_string(), with: with.trim().to_string(), optional: kw == "call?" });
            }
            "shape" => {
                let (pos, body) = rest.split_once(':').ok_or_else(|| format!("line {}: shape contains:/absent:", ln))?;
                fc.shapes.push(Shape { pattern: body.trim().to_string(), must_contain: pos.trim() == "contains" });
            }
            other => return Err(format!("line {}: unknown directive `{}`", ln, other)),
        }
    }
    Ok(out)
}
