#!/bin/bash
# usage: scan1.sh <prop> <patch.diff>  — quick check of <prop> against a scratch worktree with the patch applied (never touches /repo)
prop=$1; patch=$2; wt=/tmp/wt-scan1
[ -d $wt ] || git -C /repo worktree add --detach $wt HEAD >/dev/null 2>&1
(cd $wt && git checkout -q -- . && git clean -fdq && git apply $patch) || { echo "patch does not apply"; exit 3; }
cd /verif && ./check $prop --repo $wt 2>&1 | grep -E "VIOLATION|failed obligation|UNDECIDED|NOTE|KNOWN|exit=" | cut -c1-260
cd $wt && git checkout -q -- . && git clean -fdq
