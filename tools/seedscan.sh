#!/bin/bash
# usage: seedscan.sh [ids...]  — runs the quick check of each seeded change's property against a scratch worktree with the patch applied;
# writes seeded/<id>/detection.json (exit code, VIOLATION/UNDECIDED lines).  Never touches /repo's working tree.
wt=${SCAN_WT:-/tmp/wt-scan}
[ -d $wt ] || git -C /repo worktree add --detach $wt HEAD >/dev/null 2>&1
ids="$@"; [ -z "$ids" ] && ids=$(ls /verif/seeded | grep '^C')
for id in $ids; do
  d=/verif/seeded/$id; [ -f $d/patch.diff ] || continue
  prop=$(python3 -c "import json;print(json.load(open('$d/meta.json'))['property'])" 2>/dev/null || echo ${id%%-*})
  (cd $wt && git checkout -q -- . && git clean -fdq -e target && git apply $d/patch.diff) || { echo "$id: patch does not apply"; continue; }
  out=$(cd /verif && ./check $prop --repo $wt 2>&1); rc=$?
  python3 - "$id" "$prop" "$rc" <<PY "$out"
import sys,json,re
id,prop,rc,out=sys.argv[1],sys.argv[2],int(sys.argv[3]),sys.argv[4]
lines=[l for l in out.splitlines() if re.search(r"VIOLATION|failed obligation|UNDECIDED|NOTE",l)]
verdict={0:"missed",1:"caught",2:"undecided"}.get(rc,"error")
json.dump(dict(seed=id,property=prop,exit=rc,verdict=verdict,lines=[l[:300] for l in lines][:12]),open(f"/verif/seeded/{id}/detection.json","w"),indent=1)
print(f"{id}: {verdict} (exit {rc})")
PY
done
cd $wt && git checkout -q -- . && git clean -fdq
git -C /repo worktree remove --force $wt
