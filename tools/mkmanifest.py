#!/usr/bin/env python3
"""regenerates MANIFEST.json from props.json (claimed) + na.json (not applicable)"""
import json, os
V = os.path.dirname(os.path.dirname(os.path.abspath(__file__)))
props = [json.loads(l) for l in open(f"{V}/properties.jsonl")]
claimed = json.load(open(f"{V}/props.json"))
na = json.load(open(f"{V}/na.json"))
m = {"version": 1,
     "setup_cmd": "cd /verif/tools/vx && CARGO_NET_OFFLINE=true cargo build --offline --release && mkdir -p /verif/tools/derivegen/src/gen && cp /repo/ractor_cluster_derive/src/codegen.rs /repo/ractor_cluster_derive/src/ir.rs /repo/ractor_cluster_derive/src/parse.rs /verif/tools/derivegen/src/gen/ && cd /verif/tools/derivegen && CARGO_NET_OFFLINE=true cargo build --offline --release",
     "hooks": {"guard": "cfg(kani)",
               "enable": "no HOOK is committed to /repo (the only commit there is the unguarded repair `fix: a remote actor's cell no longer unregisters its name on exit`, 5bf1c86, see known_findings.txt): contracts are attached to mechanically extracted copies of the real functions (Verus, tools/vx, re-extracted from /repo's working tree on every run) or added under cfg(kani) to a scratch copy of /repo's working tree at check time (Kani); cfg(kani) is only ever set by cargo kani",
               "baseline_off_cmd": "cd /repo && cargo test --workspace --no-fail-fast --offline",
               "source_commits": [], "add_only": True},
     "engines": [{"name": "vx+verus+kani", "path": "/verif/check", "serves_properties": sorted(claimed.keys()),
                  "kind_free_text": "mechanical extraction of the real functions (syn/prettyplease, rules R1-R11) + Verus function contracts, loop invariants, ghost effect logs and lemmas; Kani function contracts / loop-free full-domain harnesses on a scratch copy of the real crates; bounded Kani harnesses labelled bounded"}],
     "checks": [], "not_applicable": [],
     "notes": "exit 2 from a check = undecided (lost anchor, construct outside the extraction rules, solver limit): never an alarm. See DESIGN.md."}
for p in props:
    pid = p["id"]
    if pid in claimed:
        c = claimed[pid]
        m["checks"].append({"property_id": pid, "quick_cmd": f"./check {pid} --tier quick", "thorough_cmd": f"./check {pid} --tier thorough",
                            "evidence_file": f"/verif/evidence/{pid}.json", "replay_cmd_template": f"./check {pid} --replay {{path}}", "engine": "vx+verus+kani",
                            "level_claimed": {"category": c["level"], "text": c.get("explanation", ""), "design_ref": f"DESIGN.md §5 {pid}"},
                            "level_note": c.get("level_note", "see evidence coverage.trusted_base"),
                            "technique": c.get("technique", "contract-based deductive verification: Verus contracts on mechanically extracted real functions")})
    else:
        m["not_applicable"].append({"property_id": pid, "reason": na[pid]})
json.dump(m, open(f"{V}/MANIFEST.json", "w"), indent=1)
print("claimed", sorted(claimed), "n/a", [x["property_id"] for x in m["not_applicable"]])
