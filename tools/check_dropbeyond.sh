#!/bin/bash
# every unit that has [beyond-property] clauses must also verify with those clauses removed (otherwise a change that only breaks
# an exactness clause could not be told apart from a violation).  Development self-test on the unchanged tree.
cd /verif
for u in $(grep -l "beyond-property" units/*/contracts.vx | xargs -n1 dirname | xargs -n1 basename); do
  gen=$(python3 - "$u" <<'PY'
import sys; sys.path.insert(0,'/verif/lib')
import runner
un=runner.load_units()[sys.argv[1]]
print(runner.generated_dir_for(un,'/repo','/verif/build/w') or '')
PY
)
  garg=""; [ -n "$gen" ] && garg="--generated $gen"
  fsets=$(python3 -c "
import tomllib;u=tomllib.load(open('/verif/units/$u/unit.toml','rb'));print(' '.join(','.join(f) for f in (u.get('feature_sets') or [u.get('features',[])])))")
  for fs in $fsets; do
    tools/vx/target/release/vx gen --repo /repo --unit units/$u --out build/${u}_nb.rs --map build/${u}_nb.map.json --drop-beyond --features "$fs" $garg || { echo "$u [$fs]: extraction failed"; continue; }
    rl=$(python3 -c "
import tomllib;u=tomllib.load(open('/verif/units/$u/unit.toml','rb'));print(u.get('rlimit',30))")
    r=$(cd build && verus --crate-type=lib ${u}_nb.rs --rlimit $rl --multiple-errors 5 2>&1 | grep "verification results")
    echo "$u [$fs]: $r"
  done
done
