// Copyright (c) Sean Lawlor
//
// This source code is licensed under both the MIT license found in the
// LICENSE-MIT file in the root directory of this source tree.

//! Code generation from parsed IR for `RactorClusterMessage`.
//!
//! Internal generated variables use `__` prefix to avoid collisions with
//! user-chosen field names in named (struct-style) variants.

use proc_macro2::TokenStream;
use quote::{format_ident, quote, ToTokens};
use syn::{AngleBracketedGenericArguments, Ident};

use crate::ir::{FieldStyle, ParsedEnum, ParsedVariant, VariantKind};

/// Generate the full `impl ractor::Message for ...` block from a parsed enum.
pub(crate) fn expand_cluster_message(parsed: &ParsedEnum) -> TokenStream {
    let name = &parsed.ident;
    let (impl_generics, ty_generics, where_clause) = parsed.generics.split_for_impl();

    let serialized_variants: Vec<_> = parsed.variants.iter().map(gen_serialize_arm).collect();

    let casts: Vec<_> = parsed
        .variants
        .iter()
        .filter(|v| matches!(v.kind, VariantKind::Cast))
        .map(gen_cast_deserialize_arm)
        .collect();

    let calls: Vec<_> = parsed
        .variants
        .iter()
        .filter(|v| matches!(v.kind, VariantKind::Call { .. }))
        .map(gen_call_deserialize_arm)
        .collect();

    quote! {
        impl #impl_generics ractor::Message for #name #ty_generics #where_clause {
            fn serializable() -> bool {
                // Network serializable message
                true
            }

            fn serialize(self) -> Result<ractor::message::SerializedMessage, ractor::message::BoxedDowncastErr> {
                use ::ractor::BytesConvertable;
                match self {
                    #( #serialized_variants ),*
                }
            }

            fn deserialize(bytes: ractor::message::SerializedMessage) -> Result<Self, ractor::message::BoxedDowncastErr> {
                use ::ractor::BytesConvertable;
                match bytes {
                    ractor::message::SerializedMessage::Cast {variant: __variant, args: __args, metadata: __metadata} => {
                        match __variant.as_str() {
                            #(#casts,)*
                            _ => {
                                // unknown CAST type
                                Err(ractor::message::BoxedDowncastErr)
                            }
                        }
                    }
                    ractor::message::SerializedMessage::Call {variant: __variant, args: __args, reply: __reply, metadata: __metadata} => {
                        match __variant.as_str() {
                            #(#calls,)*
                            _ => {
                                // unknown CALL type
                                Err(ractor::message::BoxedDowncastErr)
                            }
                        }
                    }
                    _ => {
                        // call-reply isn't supported here
                        Err(ractor::message::BoxedDowncastErr)
                    }
                }
            }
        }
    }
}

/// Build a full ordered list of identifiers by inserting `port_ident` at `port_index`
/// among the data field identifiers.
fn build_ordered_bindings(
    data_fields: &[(Ident, syn::Type)],
    port_ident: &Ident,
    port_index: usize,
) -> Vec<Ident> {
    let total = data_fields.len() + 1;
    let mut result = Vec::with_capacity(total);
    let mut data_idx = 0;
    for i in 0..total {
        if i == port_index {
            result.push(port_ident.clone());
        } else {
            result.push(data_fields[data_idx].0.clone());
            data_idx += 1;
        }
    }
    result
}

/// Generate a serialization match arm for one variant.
fn gen_serialize_arm(variant: &ParsedVariant) -> impl ToTokens {
    let name = &variant.ident;
    let variant_name = &variant.variant_tag;
    let fields = &variant.data_fields;

    match &variant.kind {
        VariantKind::Cast => {
            if fields.is_empty() {
                let pattern = match &variant.field_style {
                    FieldStyle::Tuple => quote! { Self::#name },
                    FieldStyle::Named => quote! { Self::#name {} },
                };
                quote! {
                    #pattern => {
                        Ok(ractor::message::SerializedMessage::Cast {
                            variant: #variant_name.to_string(),
                            args: vec![],
                            metadata: None,
                        })
                    }
                }
            } else {
                let field_names: Vec<_> = fields.iter().map(|(a, _)| a).collect();
                let packed = fields.iter().map(|(field, ty)| pack_args(field, ty));
                let pattern = match &variant.field_style {
                    FieldStyle::Tuple => quote! { Self::#name(#(#field_names),*) },
                    FieldStyle::Named => quote! { Self::#name { #(#field_names),* } },
                };
                quote! {
                    #pattern => {
                        let mut __data = vec![];
                        #(#packed ;)*
                        Ok(ractor::message::SerializedMessage::Cast {
                            variant: #variant_name.to_string(),
                            args: __data,
                            metadata: None,
                        })
                    }
                }
            }
        }
        VariantKind::Call {
            reply_port_generic_args,
            reply_port_field_name,
            reply_port_index,
        } => {
            let port = reply_port_field_name;
            let target_port = gen_serialize_port(port, reply_port_generic_args);

            let pattern = match &variant.field_style {
                FieldStyle::Tuple => {
                    let all = build_ordered_bindings(fields, port, *reply_port_index);
                    quote! { Self::#name(#(#all),*) }
                }
                FieldStyle::Named => {
                    let data_names: Vec<_> = fields.iter().map(|(a, _)| a).collect();
                    quote! { Self::#name { #(#data_names,)* #port } }
                }
            };

            if fields.is_empty() {
                quote! {
                    #pattern => {
                        let __target_port = #target_port;
                        Ok(ractor::message::SerializedMessage::Call {
                            variant: #variant_name.to_string(),
                            args: vec![],
                            reply: __target_port,
                            metadata: None,
                        })
                    }
                }
            } else {
                let packed = fields.iter().map(|(field, ty)| pack_args(field, ty));
                quote! {
                    #pattern => {
                        let mut __data = vec![];
                        #(#packed;)*
                        let __target_port = #target_port;
                        Ok(ractor::message::SerializedMessage::Call {
                            variant: #variant_name.to_string(),
                            args: __data,
                            reply: __target_port,
                            metadata: None,
                        })
                    }
                }
            }
        }
    }
}

/// Generate a deserialization match arm for a cast variant.
fn gen_cast_deserialize_arm(variant: &ParsedVariant) -> impl ToTokens {
    let name = &variant.ident;
    let variant_name = &variant.variant_tag;
    let fields = &variant.data_fields;

    if fields.is_empty() {
        let construct = match &variant.field_style {
            FieldStyle::Tuple => quote! { Self::#name },
            FieldStyle::Named => quote! { Self::#name {} },
        };
        quote! {
            #variant_name => {
                if __args.is_empty() {
                    Ok(#construct)
                } else {
                    Err(ractor::message::BoxedDowncastErr)
                }
            }
        }
    } else {
        let field_names: Vec<_> = fields.iter().map(|(a, _)| a).collect();
        let unpacked = fields.iter().map(|(field, ty)| unpack_arg(field, ty));
        let construct = match &variant.field_style {
            FieldStyle::Tuple => quote! { Self::#name(#(#field_names),*) },
            FieldStyle::Named => quote! { Self::#name { #(#field_names),* } },
        };
        quote! {
            #variant_name => {
                let mut __ptr = 0usize;
                #(#unpacked;)*
                if __ptr == __args.len() {
                    Ok(#construct)
                } else {
                    Err(ractor::message::BoxedDowncastErr)
                }
            }
        }
    }
}

/// Generate a deserialization match arm for a call (RPC) variant.
fn gen_call_deserialize_arm(variant: &ParsedVariant) -> impl ToTokens {
    let name = &variant.ident;
    let variant_name = &variant.variant_tag;
    let fields = &variant.data_fields;

    let (reply_port_generic_args, reply_port_field_name, reply_port_index) = match &variant.kind {
        VariantKind::Call {
            reply_port_generic_args,
            reply_port_field_name,
            reply_port_index,
        } => (
            reply_port_generic_args,
            reply_port_field_name,
            *reply_port_index,
        ),
        VariantKind::Cast => unreachable!("gen_call_deserialize_arm called on cast variant"),
    };

    let target_port = gen_deserialize_port(&format_ident!("__reply"), reply_port_generic_args);

    let construct = match &variant.field_style {
        FieldStyle::Tuple => {
            let target_port_ident = format_ident!("__target_port");
            let all = build_ordered_bindings(fields, &target_port_ident, reply_port_index);
            quote! { Self::#name(#(#all),*) }
        }
        FieldStyle::Named => {
            let data_names: Vec<_> = fields.iter().map(|(a, _)| a).collect();
            let port_field = reply_port_field_name;
            quote! { Self::#name { #(#data_names,)* #port_field: __target_port } }
        }
    };

    if fields.is_empty() {
        quote! {
            #variant_name => {
                if __args.is_empty() {
                    let __target_port = #target_port;
                    Ok(#construct)
                } else {
                    Err(ractor::message::BoxedDowncastErr)
                }
            }
        }
    } else {
        let unpacked = fields.iter().map(|(field, ty)| unpack_arg(field, ty));
        quote! {
            #variant_name => {
                let mut __ptr = 0usize;
                #(#unpacked;)*
                if __ptr == __args.len() {
                    let __target_port = #target_port;
                    Ok(#construct)
                } else {
                    Err(ractor::message::BoxedDowncastErr)
                }
            }
        }
    }
}

/// Generate per-field serialization code.
fn pack_args(field: &Ident, target_type: &syn::Type) -> impl ToTokens {
    quote! {
        {
            let __arg_data = <#target_type as ractor::BytesConvertable>::into_bytes(#field);
            let __arg_len = <u64 as ::core::convert::TryFrom<usize>>::try_from(__arg_data.len())
                .map_err(|_| ractor::message::BoxedDowncastErr)?
                .to_be_bytes();
            let __additional = ::core::mem::size_of::<u64>()
                .checked_add(__arg_data.len())
                .ok_or(ractor::message::BoxedDowncastErr)?;
            __data
                .try_reserve(__additional)
                .map_err(|_| ractor::message::BoxedDowncastErr)?;
            __data.extend(__arg_len);
            __data.extend(__arg_data);
        }
    }
}

/// Generate per-field deserialization code.
fn unpack_arg(field: &Ident, target_type: &syn::Type) -> impl ToTokens {
    quote! {
        let #field = {
            let __len_end = __ptr
                .checked_add(::core::mem::size_of::<u64>())
                .ok_or(ractor::message::BoxedDowncastErr)?;
            let mut __len_bytes = [0u8; 8];
            let __encoded_len = __args
                .get(__ptr..__len_end)
                .ok_or(ractor::message::BoxedDowncastErr)?;
            __len_bytes.copy_from_slice(__encoded_len);
            let __len = <usize as ::core::convert::TryFrom<u64>>::try_from(
                u64::from_be_bytes(__len_bytes)
            )
                .map_err(|_| ractor::message::BoxedDowncastErr)?;

            let __data_end = __len_end
                .checked_add(__len)
                .ok_or(ractor::message::BoxedDowncastErr)?;
            let __data_bytes = __args
                .get(__len_end..__data_end)
                .ok_or(ractor::message::BoxedDowncastErr)?
                .to_vec();
            let __t_result = ::std::panic::catch_unwind(::std::panic::AssertUnwindSafe(|| {
                <#target_type as ractor::BytesConvertable>::from_bytes(__data_bytes)
            }))
                .map_err(|_| ractor::message::BoxedDowncastErr)?;
            __ptr = __data_end;
            __t_result
        };
    }
}

/// Generate reply port bridge: typed → binary (for serialization).
fn gen_serialize_port(
    the_port: &Ident,
    target_type: &AngleBracketedGenericArguments,
) -> impl ToTokens {
    let generic_args = &target_type.args;
    quote! {
        {
            let (tx, rx) = ractor::concurrency::oneshot();
            let o_timeout = #the_port.get_timeout();
            ractor::concurrency::spawn(async move {
                if let Some(timeout) = o_timeout {
                    if let Ok(Ok(result)) = ractor::concurrency::timeout(timeout, rx).await {
                        if let Ok(typed_result) = ::std::panic::catch_unwind(
                            ::std::panic::AssertUnwindSafe(|| {
                                <#generic_args as ractor::BytesConvertable>::from_bytes(result)
                            })
                        ) {
                            let _ = #the_port.send(typed_result);
                        }
                    }
                } else {
                    if let Ok(result) = rx.await {
                        if let Ok(typed_result) = ::std::panic::catch_unwind(
                            ::std::panic::AssertUnwindSafe(|| {
                                <#generic_args as ractor::BytesConvertable>::from_bytes(result)
                            })
                        ) {
                            let _ = #the_port.send(typed_result);
                        }
                    }
                }
            });
            if let Some(timeout) = o_timeout {
                ractor::RpcReplyPort::<_>::from((tx, timeout))
            } else {
                ractor::RpcReplyPort::<_>::from(tx)
            }
        }
    }
}

/// Generate reply port bridge: binary → typed (for deserialization).
fn gen_deserialize_port(
    the_port: &Ident,
    port_type: &AngleBracketedGenericArguments,
) -> impl ToTokens {
    let generic_args = &port_type.args;
    quote! {
        {
            let (tx, rx) = ractor::concurrency::oneshot::#port_type();
            let o_timeout = #the_port.get_timeout();
            ractor::concurrency::spawn(async move {
                if let Some(timeout) = o_timeout {
                    if let Ok(Ok(result)) = ractor::concurrency::timeout(timeout, rx).await {
                        if let Ok(bytes) = ::std::panic::catch_unwind(
                            ::std::panic::AssertUnwindSafe(|| {
                                <#generic_args as BytesConvertable>::into_bytes(result)
                            })
                        ) {
                            let _ = #the_port.send(bytes);
                        }
                    }
                } else {
                    if let Ok(result) = rx.await {
                        if let Ok(bytes) = ::std::panic::catch_unwind(
                            ::std::panic::AssertUnwindSafe(|| {
                                <#generic_args as BytesConvertable>::into_bytes(result)
                            })
                        ) {
                            let _ = #the_port.send(bytes);
                        }
                    }
                }
            });
            if let Some(timeout) = o_timeout {
                ractor::RpcReplyPort::<_>::from((tx, timeout))
            } else {
                ractor::RpcReplyPort::<_>::from(tx)
            }
        }
    }
}
