// Copyright (c) Sean Lawlor
//
// This source code is licensed under both the MIT license found in the
// LICENSE-MIT file in the root directory of this source tree.

//! Intermediate representation types for parsed `RactorClusterMessage` enums.

use syn::AngleBracketedGenericArguments;
use syn::Generics;
use syn::Ident;

/// Whether the variant uses tuple or struct-style fields.
pub(crate) enum FieldStyle {
    /// Tuple variant: `Variant(A, B)`
    Tuple,
    /// Struct variant: `Variant { a: A, b: B }`
    Named,
}

/// A fully parsed and validated enum derive input.
pub(crate) struct ParsedEnum {
    pub ident: Ident,
    pub generics: Generics,
    pub variants: Vec<ParsedVariant>,
}

/// A single parsed variant with fields already split (reply port separated for RPC variants).
pub(crate) struct ParsedVariant {
    pub ident: Ident,
    pub variant_tag: String,
    pub kind: VariantKind,
    /// Whether the variant uses tuple or struct-style fields.
    pub field_style: FieldStyle,
    /// Data fields (excludes the `RpcReplyPort` for RPC variants).
    pub data_fields: Vec<(Ident, syn::Type)>,
}

/// Distinguishes cast (fire-and-forget) from call (RPC with reply port) variants.
pub(crate) enum VariantKind {
    /// A fire-and-forget message variant (no `#[rpc]`).
    Cast,
    /// An RPC variant (`#[rpc]`), storing the generic arguments from `RpcReplyPort<T>`.
    Call {
        reply_port_generic_args: AngleBracketedGenericArguments,
        /// The field name/ident for the reply port (synthetic for tuple, original for named).
        reply_port_field_name: Ident,
        /// The 0-based index of the reply port in the original field list.
        reply_port_index: usize,
    },
}
