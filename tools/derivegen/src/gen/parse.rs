// Copyright (c) Sean Lawlor
//
// This source code is licensed under both the MIT license found in the
// LICENSE-MIT file in the root directory of this source tree.

//! Parsing and validation for `RactorClusterMessage` derive input.

use quote::format_ident;
use syn::spanned::Spanned;
use syn::{Fields, TypePath, Variant};

use crate::ir::{FieldStyle, ParsedEnum, ParsedVariant, VariantKind};

/// Parse a `DeriveInput` into a fully validated `ParsedEnum`.
pub(crate) fn parse_cluster_message(ast: &syn::DeriveInput) -> syn::Result<ParsedEnum> {
    let name = &ast.ident;

    let enum_data = match &ast.data {
        syn::Data::Enum(data) => data,
        _ => {
            return Err(syn::Error::new(
                name.span(),
                "RactorClusterMessage can only be derived for enums, not structs or unions",
            ));
        }
    };

    let variants = enum_data
        .variants
        .iter()
        .map(parse_variant)
        .collect::<Result<Vec<_>, _>>()?;

    Ok(ParsedEnum {
        ident: name.clone(),
        generics: ast.generics.clone(),
        variants,
    })
}

/// Parse a single enum variant into a `ParsedVariant`.
fn parse_variant(variant: &Variant) -> syn::Result<ParsedVariant> {
    let ident = variant.ident.clone();
    let variant_tag = ident.to_string();
    let is_rpc = check_rpc_attribute(variant)?;

    if is_rpc {
        parse_rpc_variant(variant, ident, variant_tag)
    } else {
        parse_cast_variant(variant, ident, variant_tag)
    }
}

/// Check the `#[rpc]` attribute on a variant: validate it has no arguments, no value,
/// and is not duplicated. Returns `true` if the variant has the `#[rpc]` attribute.
fn check_rpc_attribute(variant: &Variant) -> syn::Result<bool> {
    let rpc_attrs: Vec<_> = variant
        .attrs
        .iter()
        .filter(|attr| attr.path().is_ident("rpc"))
        .collect();

    if rpc_attrs.is_empty() {
        return Ok(false);
    }

    if rpc_attrs.len() > 1 {
        return Err(syn::Error::new(
            rpc_attrs[1].span(),
            "Duplicate `#[rpc]` attribute on variant",
        ));
    }

    let attr = rpc_attrs[0];
    match &attr.meta {
        syn::Meta::Path(_) => {
            // #[rpc] — correct form
        }
        syn::Meta::List(_) => {
            return Err(syn::Error::new(
                attr.span(),
                "`#[rpc]` attribute does not accept arguments",
            ));
        }
        syn::Meta::NameValue(_) => {
            return Err(syn::Error::new(
                attr.span(),
                "`#[rpc]` attribute does not accept a value",
            ));
        }
    }

    Ok(true)
}

/// Check if a type's last path segment is `RpcReplyPort`.
fn is_reply_port_type(ty: &syn::Type) -> bool {
    if let syn::Type::Path(type_path) = ty {
        type_path
            .path
            .segments
            .last()
            .map(|seg| seg.ident == "RpcReplyPort")
            .unwrap_or(false)
    } else {
        false
    }
}

/// Parse a cast (non-RPC) variant.
fn parse_cast_variant(
    variant: &Variant,
    ident: syn::Ident,
    variant_tag: String,
) -> syn::Result<ParsedVariant> {
    let (data_fields, field_style) = match &variant.fields {
        Fields::Unit => (vec![], FieldStyle::Tuple),
        Fields::Unnamed(unnamed_fields) => {
            let fields: Vec<_> = unnamed_fields
                .unnamed
                .iter()
                .enumerate()
                .map(|(i, arg)| (format_ident!("field{}", i), arg.ty.clone()))
                .collect();
            (fields, FieldStyle::Tuple)
        }
        Fields::Named(named_fields) => {
            let fields: Vec<_> = named_fields
                .named
                .iter()
                .map(|f| (f.ident.clone().unwrap(), f.ty.clone()))
                .collect();
            (fields, FieldStyle::Named)
        }
    };

    // Check if any field is RpcReplyPort without #[rpc] — likely a missing attribute
    for (_, ty) in &data_fields {
        if is_reply_port_type(ty) {
            return Err(syn::Error::new(
                variant.span(),
                "Variant contains an `RpcReplyPort` field but is not marked with `#[rpc]`.\n\
                 \n\
                 Add the `#[rpc]` attribute to this variant:\n  \
                 #[rpc]\n  \
                 YourVariant(..., RpcReplyPort<ReturnType>),",
            ));
        }
    }

    Ok(ParsedVariant {
        ident,
        variant_tag,
        kind: VariantKind::Cast,
        field_style,
        data_fields,
    })
}

/// Parse an RPC variant: validate fields and extract the `RpcReplyPort<T>` generic args.
fn parse_rpc_variant(
    variant: &Variant,
    ident: syn::Ident,
    variant_tag: String,
) -> syn::Result<ParsedVariant> {
    let (all_fields, field_style) = match &variant.fields {
        Fields::Unit => {
            return Err(syn::Error::new(
                variant.span(),
                "RPC calls must have at least one field: an `RpcReplyPort<T>`.\n\
                 \n\
                 Example:\n  #[rpc]\n  YourRpc(RpcReplyPort<YourReturnType>),",
            ));
        }
        Fields::Unnamed(unnamed_fields) => {
            let fields: Vec<_> = unnamed_fields
                .unnamed
                .iter()
                .enumerate()
                .map(|(i, arg)| (format_ident!("field{}", i), arg.ty.clone()))
                .collect();
            (fields, FieldStyle::Tuple)
        }
        Fields::Named(named_fields) => {
            let fields: Vec<_> = named_fields
                .named
                .iter()
                .map(|f| (f.ident.clone().unwrap(), f.ty.clone()))
                .collect();
            (fields, FieldStyle::Named)
        }
    };

    // Scan all fields for RpcReplyPort by type name, collecting owned data
    let port_matches: Vec<usize> = all_fields
        .iter()
        .enumerate()
        .filter(|(_, (_, ty))| is_reply_port_type(ty))
        .map(|(i, _)| i)
        .collect();

    if port_matches.is_empty() {
        return Err(syn::Error::new(
            variant.span(),
            "`#[rpc]` variant must contain exactly one `RpcReplyPort<T>` field.\n\
             \n\
             Example:\n  #[rpc]\n  YourRpc(YourArgs, RpcReplyPort<YourReturnType>),",
        ));
    }

    if port_matches.len() > 1 {
        return Err(syn::Error::new(
            variant.span(),
            "`#[rpc]` variant must contain exactly one `RpcReplyPort<T>` field, but found multiple",
        ));
    }

    let port_index = port_matches[0];
    let reply_port_field_name = all_fields[port_index].0.clone();
    let port_generic_args = if let syn::Type::Path(path_data) = &all_fields[port_index].1 {
        extract_reply_port_args(path_data)?
    } else {
        unreachable!("is_reply_port_type already verified this is a Type::Path")
    };

    // data_fields = all fields except the port
    let data_fields: Vec<_> = all_fields
        .into_iter()
        .enumerate()
        .filter(|(i, _)| *i != port_index)
        .map(|(_, f)| f)
        .collect();

    Ok(ParsedVariant {
        ident,
        variant_tag,
        kind: VariantKind::Call {
            reply_port_generic_args: port_generic_args,
            reply_port_field_name,
            reply_port_index: port_index,
        },
        field_style,
        data_fields,
    })
}

/// Extract the generic arguments from an `RpcReplyPort<T>` type path.
fn extract_reply_port_args(
    path_data: &TypePath,
) -> syn::Result<syn::AngleBracketedGenericArguments> {
    let last_segment = path_data.path.segments.last().ok_or_else(|| {
        syn::Error::new(
            path_data.span(),
            "Expected a type path with at least one segment (e.g., RpcReplyPort<T>)",
        )
    })?;

    if let syn::PathArguments::AngleBracketed(generic_args) = &last_segment.arguments {
        Ok(generic_args.clone())
    } else {
        Err(syn::Error::new(
            last_segment.span(),
            "RpcReplyPort must have generic type arguments.\n\
             \n\
             Expected: RpcReplyPort<YourReturnType>\n\
             \n\
             The generic argument specifies what type will be returned by the RPC call.",
        ))
    }
}
