//! prints what the REAL ractor_cluster_derive generator emits for a sample enum.
//! `src/gen/{codegen,ir,parse}.rs` are copied from /repo/ractor_cluster_derive/src at check time (never edited).
#![allow(dead_code, unused)]
#[path = "gen/codegen.rs"]
mod codegen;
#[path = "gen/ir.rs"]
mod ir;
#[path = "gen/parse.rs"]
mod parse;

fn main() {
    let src = std::fs::read_to_string(std::env::args().nth(1).expect("sample enum file")).unwrap();
    let ast: syn::DeriveInput = syn::parse_str(&src).expect("sample parses");
    let parsed = match parse::parse_cluster_message(&ast) {
        Ok(p) => p,
        Err(e) => { eprintln!("generator rejected the sample: {}", e); std::process::exit(2) }
    };
    let ts = codegen::expand_cluster_message(&parsed);
    let file: syn::File = syn::parse2(ts).expect("generated code parses");
    print!("{}", prettyplease::unparse(&file));
}
