enum Sample {
    Ping,
    Add(u64, Vec<u8>),
    Named { a: u64 },
}
