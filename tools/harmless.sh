#!/bin/bash
# Harmless-change battery: behaviour-preserving edits of functions under contract; every check must stay at exit 0
# (development self-test; runs on the scratch worktree /tmp/wt-harmless, never touches /repo).   usage: tools/harmless.sh [name-filter]
wt=/tmp/wt-harmless
[ -d $wt ] || git -C /repo worktree add --detach $wt HEAD >/dev/null 2>&1
fail=0
run() { # name prop file old new [extra check args]
  name=$1; prop=$2; file=$3; old=$4; new=$5; extra=$6
  [ -n "$FILTER" ] && [[ "$name" != *$FILTER* ]] && return
  (cd $wt && git checkout -q -- . && python3 - "$file" "$old" "$new" <<'PY'
import sys
f,old,new=sys.argv[1:4]
s=open(f).read()
if old not in s: print("PATTERN NOT FOUND"); sys.exit(3)
open(f,'w').write(s.replace(old,new,1))
PY
  ) || { echo "SKIP  $name (pattern not found)"; return; }
  out=$(cd /verif && ./check $prop --repo $wt $extra 2>&1); rc=$?
  if [ $rc -eq 0 ]; then echo "ok    $name ($prop)"; else echo "FAIL  $name ($prop) exit=$rc"; echo "$out" | grep -E "VIOLATION|failed obligation|UNDECIDED" | head -4 | cut -c1-220; fail=1; fi
}
FILTER=$1
A=ractor/src/actor.rs; N=ractor_cluster/src/node.rs; S=ractor_cluster/src/node/node_session.rs
run swap_running_and_started C01 $A '        myself.set_status(ActorStatus::Running);
        myself.notify_supervisor_and_monitors(SupervisionEvent::ActorStarted(myself.get_cell()));' '        myself.notify_supervisor_and_monitors(SupervisionEvent::ActorStarted(myself.get_cell()));
        myself.set_status(ActorStatus::Running);' "--only-unit actorloop"
run rename_handler_future C03 $A '                    let future = Self::handle_message(myself.clone(), state, handler, msg);
                    match ports.run_with_signal(future).await {' '                    let me = myself.clone();
                    let fut = Self::handle_message(me, state, handler, msg);
                    match ports.run_with_signal(fut).await {' "--only-unit actorloop"
run stop_reason_helper C01 $A '                actor_cell::ActorPortMessage::Stop(stop_message) => {
                    let exit_reason = match stop_message {' '                actor_cell::ActorPortMessage::Stop(stop_message) => {
                    let the_stop_message = stop_message;
                    let exit_reason = match the_stop_message {' "--only-unit actorloop"
run elect_any_order C18 $N '    let has_server = candidates.iter().any(|candidate| candidate.is_server);
    let has_client = candidates.iter().any(|candidate| !candidate.is_server);' '    let has_client = candidates.iter().any(|c| !c.is_server);
    let has_server = candidates.iter().any(|c| c.is_server);' "--only-unit electfn"
run elect_no_shortcut C18 $N '    if candidates.len() <= 1 {
        return candidates' '    if candidates.is_empty() {
        return candidates' "--only-unit electfn"
run check_candidate_let C18 $N '        let had_competition = candidates.len() > 1;' '        let n = candidates.len();
        let had_competition = n > 1;' "--only-unit nodetable"
run commit_survives_temp C18 $N '        let candidate_survives = elected.contains(&actor_id);
        let losers' '        let survives = elected.contains(&actor_id);
        let candidate_survives = survives;
        let losers' "--only-unit nodetable"
run call_and_forward_split C02 ractor/src/rpc.rs '    actor.send_message::<TMessage>(msg_builder(port))?;

    // wait for the reply' '    let request = msg_builder(port);
    actor.send_message::<TMessage>(request)?;

    // wait for the reply' "--only-unit rpc"
run handle_auth_reason_local C17 $S 'myself.stop(Some("auth_fail".to_string()));' 'let why = "auth_fail".to_string(); myself.stop(Some(why));' "--only-unit authwire"
run interval_rename C12 ractor/src/time.rs 'let mut timer = crate::concurrency::interval(period);' 'let mut ticker = crate::concurrency::interval(period); let mut timer = ticker;' "--only-unit timers"
run pg_trace C11 ractor/src/pg.rs '    let mut stopped_relations = Vec::new();
    let (joined, listeners) = {' '    tracing::trace!("join_scoped");
    let mut stopped_relations = Vec::new();
    let (joined, listeners) = {' ""
run shrink_comment C14 ractor/src/factory/factoryimpl.rs '                        // mark the worker as draining' '                        // still busy: keep the slot and mark the worker as draining' "--only-unit factory"
run frame_limit_local C19 $N '                    .with_max_inbound_frame_size(self.max_inbound_frame_size),
                    *stream,' '                    .with_max_inbound_frame_size({ let limit = self.max_inbound_frame_size; limit }),
                    *stream,' "--only-unit nodeopen"
F=ractor/src/factory/factoryimpl.rs; C=ractor/src/actor/actor_cell.rs
run settings_assign_before_loop C15 $F '            for worker in self.pool.values_mut() {
                worker.discard_settings = worker_discard_settings.clone();
            }
            self.discard_settings = discard_settings;' '            self.discard_settings = discard_settings;
            for worker in self.pool.values_mut() {
                worker.discard_settings = worker_discard_settings.clone();
            }' "--only-unit settings"
run resize_sets_size_in_grow_arm_too C15 $F '                self.grow_pool(myself, to_add).await?;
            }' '                self.grow_pool(myself, to_add).await?;
                self.pool_size = new_pool_size;
            }' "--only-unit resize"
run kill_skips_a_stopped_actor C01 $C '        let _ = self.inner.send_signal(Signal::Kill);
    }' '        if self.get_status() != ActorStatus::Stopped { let _ = self.inner.send_signal(Signal::Kill); }
    }' "--only-unit signals"
run outport_bigger_buffer C16 ractor/src/port/output.rs 'let (tx, _rx) = pubsub::channel(10);' 'let (tx, _rx) = pubsub::channel(16);' ""
run advertise_collect_typed C20 $S '            .collect::<Vec<_>>();
        state
            .advertised_local_pids' '            .collect::<Vec<control_protocol::Actor>>();
        state
            .advertised_local_pids' "--only-unit advertise"
run ctlrecv_warn_text C20 $S 'tracing::warn!("Received duplicate Ready signal");' 'tracing::warn!("Received a duplicate Ready signal");' "--only-unit ctlrecv"
run proxytable_named_local C20 $S '                state.remote_actors.insert(actor_pid, remote_actor.clone());
                Ok(remote_actor)' '                let proxy = remote_actor.clone();
                state.remote_actors.insert(actor_pid, proxy);
                Ok(remote_actor)' "--only-unit proxytable"
run ttlsweep_flag_local C13 ractor/src/factory/queues.rs '            if queued_item.is_expired() {
                if let Some(handler) = discard_handler {
                    handler.discard(DiscardReason::TtlExpired, queued_item);
                }
                false
            } else {
                true
            }
        });
        before - self.q.len()' '            let gone = queued_item.is_expired();
            if gone {
                if let Some(handler) = discard_handler {
                    handler.discard(DiscardReason::TtlExpired, queued_item);
                }
            }
            !gone
        });
        let after = self.q.len();
        before - after' "--only-unit ttlsweep"
run rpc_generic_reply_channel_helper C09 ractor/src/rpc.rs 'fn internal_call<F, TMessage, TReply, TMsgBuilder>(
    sender: F,
    msg_builder: TMsgBuilder,
    timeout_option: Option<Duration>,
) -> impl std::future::Future<Output = Result<CallResult<TReply>, MessagingErr<TMessage>>> + Send
where
    F: Fn(TMessage) -> Result<(), MessagingErr<TMessage>>,
    TMessage: Message,
    TMsgBuilder: FnOnce(RpcReplyPort<TReply>) -> TMessage,
    TReply: Send + '"'"'static,
{
    let (tx, rx) = concurrency::oneshot();
    let port: RpcReplyPort<TReply> = match timeout_option {
        Some(duration) => (tx, duration).into(),
        None => tx.into(),
    };
    let sent' 'fn reply_channel<TReply>(
    timeout_option: Option<Duration>,
) -> (RpcReplyPort<TReply>, concurrency::OneshotReceiver<TReply>) {
    let (tx, rx) = concurrency::oneshot();
    let port: RpcReplyPort<TReply> = match timeout_option {
        Some(duration) => (tx, duration).into(),
        None => tx.into(),
    };
    (port, rx)
}

fn internal_call<F, TMessage, TReply, TMsgBuilder>(
    sender: F,
    msg_builder: TMsgBuilder,
    timeout_option: Option<Duration>,
) -> impl std::future::Future<Output = Result<CallResult<TReply>, MessagingErr<TMessage>>> + Send
where
    F: Fn(TMessage) -> Result<(), MessagingErr<TMessage>>,
    TMessage: Message,
    TMsgBuilder: FnOnce(RpcReplyPort<TReply>) -> TMessage,
    TReply: Send + '"'"'static,
{
    let (port, rx) = reply_channel(timeout_option);
    let sent' "--only-unit rpc"
(cd $wt && git checkout -q -- .)
git -C /repo worktree remove --force $wt 2>/dev/null
[ $fail -eq 0 ] && echo "harmless battery: all ok" || echo "harmless battery: FAILURES"
exit $fail
