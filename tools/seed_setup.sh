#!/bin/bash
# usage: seed_setup.sh <round-dir> <Cxx>...  — prepares one scratch worktree of /repo per property under <round-dir>/<Cxx> for a seeding
# sub-agent: PROPERTY.json (the property text only), ALREADY_TRIED.md (summaries of earlier seeds), TASK.md. Nothing from /verif's
# machinery is copied. Confirm each delivery with tools/confirm_seed.sh <Cxx> <round-dir>/<Cxx> <Cxx>-rN, then
# `git -C /repo worktree remove --force <round-dir>/<Cxx>`.
root=$1; shift; mkdir -p $root
for id in "$@"; do
  git -C /repo worktree add --detach $root/$id HEAD >/dev/null 2>&1
  python3 - $id $root <<'E'
import json,sys,glob
pid,root=sys.argv[1],sys.argv[2]
for l in open('/verif/properties.jsonl'):
    d=json.loads(l)
    if d['id']==pid: json.dump(d,open(f'{root}/{pid}/PROPERTY.json','w'),indent=1)
tried=[]
for m in sorted(glob.glob(f'/verif/seeded/{pid}*/meta.json')):
    try: tried.append(json.load(open(m))['summary'][:600])
    except Exception: pass
with open(f'{root}/{pid}/ALREADY_TRIED.md','w') as f:
    f.write("Changes for this property that were already tried (find a DIFFERENT one, in a different function or mechanism if you can):\n")
    for i,t in enumerate(tried): f.write(f"{i+1}. {t}\n")
print(pid, len(tried))
E
  sed "s#@ROOT@#$root#g; s/@ID@/$id/g" > $root/$id/TASK.md <<'E'
You are working in a scratch git worktree of the Rust project slawlor/ractor (an Erlang-style actor framework; crates ractor, ractor_cluster, ...) at @ROOT@/@ID@. Work ONLY inside this directory; never touch /repo or any other directory. There is no network: always pass `--offline` to cargo and set `CARGO_TARGET_DIR=@ROOT@/@ID@/target CARGO_NET_OFFLINE=true`.

The file PROPERTY.json in this directory states one semantic property of the code base (read "statement", "quantifier", "anchors"). The file ALREADY_TRIED.md lists changes that were already tried: yours must be different (a different function or a different mechanism). Your task: design ONE realistic source change to the library (not to tests) that BREAKS this property, in the way a plausible refactoring, optimisation or bug fix gone wrong would, such that:
 1. the workspace still compiles (`cargo check --workspace --all-targets --offline`),
 2. the EXISTING test suite still passes with the change (`cargo test --workspace --no-fail-fast --offline`; the tests are timing-sensitive, re-run a failing test once before concluding),
 3. the violation needs something specific to manifest (a particular input, schedule, arrival order, configuration) — say exactly what,
 4. you can DEMONSTRATE the violation with a new test that passes on the unchanged code and fails with your change (a new file under the crate's tests/ directory, or a `#[cfg(test)] mod` appended by the demo command when private items must be reached). The demo must terminate by itself within a few minutes in both cases (use timeouts inside the test; never hang).
Keep the change small (a few lines to a few dozen), in non-test library code in the files the property's anchors name, and make it look innocent (a comment explaining the "reason" for it is welcome). Do not change Cargo features, do not add dependencies, do not edit existing tests.

Deliverables, all inside @ROOT@/@ID@/SEED/:
 - SEED/patch.diff : `git diff` of the library change ONLY (no test files), applying cleanly with `git apply` on the clean worktree;
 - SEED/demo/ : the new test file(s) for the demonstration;
 - SEED/meta.json with keys: "property" ("@ID@"), "summary" (what was changed and why it breaks the property), "needs_to_manifest", "files_changed" (list), "demo_command" (ONE shell command line, run from @ROOT@/@ID@, that copies the demo file(s) from SEED/demo into place and/or appends a `mod` line (idempotently), and runs ONLY the demo test with cargo --offline and CARGO_TARGET_DIR=@ROOT@/@ID@/target; it must exit 0 on the unchanged tree and non-zero with the patch applied, whether the patch is applied before or after the demo files are copied), "demo_result_with_change", "demo_result_without_change", "test_suite_result_with_change".
When you are done: leave the worktree CLEAN of your library change (`git checkout -- .`; remove the demo copies too, so that only SEED/, PROPERTY.json, ALREADY_TRIED.md and TASK.md are untracked), and delete the build output (`rm -rf @ROOT@/@ID@/target`) — disk space is limited. Report briefly what you changed and the results of the three runs (demo without change, demo with change, test suite with change).
E
done
