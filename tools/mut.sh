#!/bin/bash
# usage: mut.sh <prop> <name> <file> <python-replace-old> <python-replace-new>   (runs on the scratch worktree /tmp/wt)
prop=$1; name=$2; file=$3; old=$4; new=$5
[ -d /tmp/wt ] || git -C /repo worktree add --detach /tmp/wt HEAD >/dev/null 2>&1; cd /tmp/wt && git checkout -q -- . && python3 - "$file" "$old" "$new" <<'PY'
import sys
f,old,new=sys.argv[1:4]
s=open(f).read()
if old not in s: print("PATTERN NOT FOUND"); sys.exit(3)
s=s.replace(old,new,1)
open(f,'w').write(s)
PY
[ $? -eq 0 ] || { echo "--- [$name] pattern missing"; exit 0; }
cd /verif && ./check $prop --repo /tmp/wt $MUT_EXTRA 2>&1 | grep -E "VIOLATION|failed obligation|UNDECIDED|NOTE|KNOWN|exit=" | cut -c1-230
echo "--- [$name]"
cd /tmp/wt && git checkout -q -- .
