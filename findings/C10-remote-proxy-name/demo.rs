//! C10 (genuine defect): a remote-actor proxy that merely CARRIES the name of an actor on another node is never entered in the
//! local name registry, but when it stops it unregisters that name -- and thereby evicts the LOCAL actor registered under it.
#![cfg(feature = "cluster")]
use ractor::{Actor, ActorId, ActorProcessingErr, ActorRef, ActorRuntime};

struct Local;
#[cfg_attr(feature = "async-trait", ractor::async_trait)]
impl Actor for Local {
    type Msg = ();
    type State = ();
    type Arguments = ();
    async fn pre_start(&self, _: ActorRef<()>, _: ()) -> Result<(), ActorProcessingErr> { Ok(()) }
}

struct Proxy;
struct ProxyMsg;
impl ractor::Message for ProxyMsg {}
#[cfg_attr(feature = "async-trait", ractor::async_trait)]
impl Actor for Proxy {
    type Msg = ProxyMsg;
    type State = ();
    type Arguments = ();
    async fn pre_start(&self, _: ActorRef<ProxyMsg>, _: ()) -> Result<(), ActorProcessingErr> { Ok(()) }
}

#[tokio::test]
async fn a_stopping_remote_proxy_does_not_evict_the_local_holder_of_its_name() {
    let name = "c10_same_name_on_both_nodes".to_string();
    let (local, local_handle) = Actor::spawn(Some(name.clone()), Local, ()).await.expect("local spawn");
    assert_eq!(ractor::registry::where_is(name.clone()).map(|c| c.get_id()), Some(local.get_id()));

    // what a NodeSession does for an actor of the peer node that happens to have the same name
    let (sup, sup_handle) = Actor::spawn(None, Local, ()).await.expect("sup");
    let (proxy, proxy_handle) = ActorRuntime::spawn_linked_remote(
        Some(name.clone()), Proxy, ActorId::Remote { node_id: 1, pid: 7 }, (), sup.get_cell(),
    ).await.expect("proxy spawn");
    // the proxy is not in the registry: the name still resolves to the local actor
    assert_eq!(ractor::registry::where_is(name.clone()).map(|c| c.get_id()), Some(local.get_id()));

    // the peer's actor stops / the session closes: the proxy stops
    proxy.stop(None);
    proxy_handle.await.unwrap();

    // the local actor is alive and never began to stop: its name must still resolve to it
    assert_eq!(local.get_status(), ractor::ActorStatus::Running);
    assert_eq!(
        ractor::registry::where_is(name.clone()).map(|c| c.get_id()), Some(local.get_id()),
        "the local actor is still Running but its name no longer resolves to it"
    );
    // ... and nobody else can take the name while it lives
    assert!(Actor::spawn(Some(name.clone()), Local, ()).await.is_err(), "a second actor took the name of a live actor");

    local.stop(None); sup.stop(None);
    local_handle.await.unwrap(); sup_handle.await.unwrap();
}
