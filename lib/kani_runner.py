"""Kani back end: harnesses and function contracts are ADDED (under cfg(kani)) to a scratch copy of /repo's working tree.

unit.toml:
  backend = "kani"
  [kani]
  package = "ractor"                 # cargo package
  features = ["cluster"]             # cargo features for the kani build
  no_default_features = false
  [[kani.inject]]                    # `#[cfg(kani)] #[path=..] mod <name>;` appended to `file` (child module => sees private items)
  file = "ractor/src/serialization.rs"
  module = "kani/codecs.rs"          # relative to the unit directory
  name = "verif_kani_codecs"
  [[kani.attr]]                      # attribute lines inserted before a fn of the real code (function contracts)
  file = "..."; fn = "checked_frame_length"; lines = ["#[cfg_attr(kani, kani::ensures(|r| ...))]"]
  [[kani.harness]]
  name = "rt_u64"; class = "complete" | "bounded"; bound = "..."; props = ["C19"]; tier = "quick" | "thorough"
  clause = "roundtrip_u64"; function = "impl BytesConvertable for u64"; stubs = ["alloc::fmt::format"]; doc = "..."
"""
import json, os, re, shutil, subprocess, time

VERIF = os.path.dirname(os.path.dirname(os.path.abspath(__file__)))


def sh(cmd, cwd=None, env=None, timeout=None):
    t0 = time.time()
    try:
        p = subprocess.run(cmd, cwd=cwd, env=env, stdout=subprocess.PIPE, stderr=subprocess.STDOUT, timeout=timeout)
        return p.returncode, p.stdout.decode(errors="replace"), time.time() - t0
    except subprocess.TimeoutExpired as e:
        return 124, (e.stdout or b"").decode(errors="replace") + "\nTIMEOUT", time.time() - t0


def copy_repo(repo, dst):
    os.makedirs(dst, exist_ok=True)
    rc, out, _ = sh(["rsync", "-a", "--delete", "--exclude", "target", "--exclude", ".git", repo.rstrip("/") + "/", dst + "/"])
    if rc != 0:
        raise RuntimeError("rsync failed: " + out[-500:])


def kani_env(work):
    env = dict(os.environ)
    env["CARGO_NET_OFFLINE"] = "true"
    # dependencies are compiled once per machine; the workspace crates are rebuilt from the scratch copy every run
    tgt = os.environ.get("VERIF_KANI_TARGET", os.path.join(VERIF, "build", "kani-target"))
    os.makedirs(tgt, exist_ok=True)
    env["CARGO_TARGET_DIR"] = tgt
    return env


FN_RE = r"^(\s*)(pub(\([a-z]+\))?\s+)?(const\s+)?(async\s+)?fn\s+%s\b"


def inject(unit, scratch):
    k = unit["kani"]
    notes = []
    for a in k.get("attr", []):
        path = os.path.join(scratch, a["file"])
        src = open(path).read().split("\n")
        rx = re.compile(FN_RE % re.escape(a["fn"]))
        hits = [i for i, l in enumerate(src) if rx.match(l)]
        if a.get("nth") is not None:
            hits = hits[a["nth"]:a["nth"] + 1]
        if len(hits) != 1:
            raise LookupError(f"lost anchor: fn {a['fn']} in {a['file']} ({len(hits)} matches)")
        i = hits[0]
        # go above the fn's own attributes / doc comments
        j = i
        while j > 0 and (src[j - 1].strip().startswith("#[") or src[j - 1].strip().startswith("///")):
            j -= 1
        indent = rx.match(src[i]).group(1)
        src[j:j] = [indent + l for l in a["lines"]]
        open(path, "w").write("\n".join(src))
        notes.append(f"attr on {a['file']}::{a['fn']}")
    for inj in k.get("inject", []):
        path = os.path.join(scratch, inj["file"])
        mod = os.path.join(unit["_dir"], inj["module"])
        with open(path, "a") as f:
            f.write(f"\n#[cfg(kani)]\n#[path = \"{mod}\"]\nmod {inj['name']};\n")
        notes.append(f"mod {inj['name']} in {inj['file']}")
    for pre in k.get("prepend", []):
        # crate-level attributes needed by loop contracts etc. (cfg_attr(kani, ...) only)
        path = os.path.join(scratch, pre["file"])
        s = open(path).read()
        open(path, "w").write("\n".join(pre["lines"]) + "\n" + s)
    return notes


def parse_kani(out):
    """-> {harness: dict(status, checks, failed, covers_total, covers_sat, failed_checks, time)}"""
    res, cur_by_thread, active = {}, {}, None
    lines = out.splitlines()
    single = None
    for idx, l in enumerate(lines):
        m = re.match(r"(?:Thread (\d+): )?Checking harness (\S+?)\.\.\.", l)
        if m:
            tid = m.group(1)
            name = m.group(2)
            res.setdefault(name, dict(status="UNKNOWN", checks=0, failed=0, covers_total=0, covers_sat=0, failed_checks=[], time=0.0, raw=[]))
            if tid is None:
                single = name
                active = name
            else:
                cur_by_thread[tid] = name
            continue
        m = re.match(r"Thread (\d+): \s*$", l)
        if m:
            active = cur_by_thread.get(m.group(1))
            continue
        if active is None:
            continue
        r = res[active]
        r["raw"].append(l)
        m = re.match(r"\s*\*\* (\d+) of (\d+) failed", l)
        if m:
            r["failed"], r["checks"] = int(m.group(1)), int(m.group(2))
        m = re.match(r"\s*\*\* (\d+) of (\d+) cover properties satisfied", l)
        if m:
            r["covers_sat"], r["covers_total"] = int(m.group(1)), int(m.group(2))
        m = re.match(r"Failed Checks: (.*)", l)
        if m:
            r["failed_checks"].append(m.group(1))
        m = re.match(r"VERIFICATION:- (\w+)", l)
        if m:
            r["status"] = m.group(1)
        m = re.match(r"Verification Time: ([0-9.]+)s", l)
        if m:
            r["time"] = float(m.group(1))
            if single is None:
                active = None
    return res


def short(name):
    return name.split("::")[-1]


def run_kani_units(units, prop, repo, work, seed, tier):
    results = []
    for unit in units:
        results.append(run_kani_unit(unit, prop, repo, work, seed, tier))
    return results


def run_kani_unit(unit, prop, repo, work, seed, tier):
    k = unit["kani"]
    res = dict(unit=unit["name"], harnesses=[], failures=[], undecided=[], assumptions=[], wall=0.0, checker_cmd="")
    t0 = time.time()
    scratch = os.path.join(work, "kani-" + unit["name"], "repo")
    try:
        copy_repo(repo, scratch)
        notes = inject(unit, scratch)
    except (LookupError, RuntimeError, OSError) as e:
        res["undecided"].append(str(e))
        return res
    # tier "escalate": only the harnesses reserved for the thorough tier (run on top of a quick run when a carrier clause failed)
    hs = [h for h in k.get("harness", []) if prop in h["props"] and ((tier == "escalate" and h.get("tier", "quick") == "thorough") or tier == "thorough" or (tier != "escalate" and h.get("tier", "quick") == "quick"))]
    if not hs:
        return res
    cmd = ["cargo", "kani", "-p", k["package"]]
    if k.get("no_default_features"):
        cmd += ["--no-default-features"]
    if k.get("features"):
        cmd += ["--features", ",".join(k["features"])]
    cmd += ["-Z", "function-contracts", "-Z", "stubbing", "--output-format", "terse", "-j", str(k.get("jobs", 8))]
    for z in k.get("z", []):
        cmd += ["-Z", z]
    for h in hs:
        cmd += ["--harness", h["name"]]
    res["checker_cmd"] = " ".join(cmd)
    env = kani_env(work)
    rc, out, wall = sh(cmd, cwd=scratch, env=env, timeout=k.get("timeout_s", 3000))
    open(os.path.join(work, "kani-" + unit["name"], "kani.log"), "w").write(out)
    parsed = parse_kani(out)
    if rc == 124:
        res["undecided"].append("cargo kani timed out")
    if not parsed and rc != 0:
        res["undecided"].append("cargo kani failed before verification (compile error / tool crash): " + out[-1500:])
    for h in hs:
        pr = next((v for kname, v in parsed.items() if short(kname) == h["name"] or kname.endswith("::" + h["name"])), None)
        hr = dict(name=h["name"], klass=h["class"], props=h["props"], bound=h.get("bound"), doc=h.get("doc", ""), targets=h.get("targets", []),
                  checks=0, failed_checks=0, wall=0.0)
        hr["class"] = h["class"]
        if pr is None:
            res["undecided"].append(f"harness {h['name']}: no result in kani output")
            res["harnesses"].append(hr)
            continue
        hr["checks"], hr["failed_checks"], hr["wall"] = pr["checks"], pr["failed"], pr["time"]
        raw = "\n".join(pr["raw"])
        # stubs must have been applied (otherwise the expensive/unsupported callee was verified or crashed)
        for st in h.get("stubs", []):
            if st not in out:
                res["undecided"].append(f"harness {h['name']}: expected stub `{st}` not reported by kani")
        if h.get("covers", 1) and pr["covers_total"] > 0 and pr["covers_sat"] < pr["covers_total"] and pr["status"] == "SUCCESSFUL":
            res["undecided"].append(f"harness {h['name']}: vacuity guard: only {pr['covers_sat']} of {pr['covers_total']} cover properties satisfied")
        if pr["status"] == "SUCCESSFUL":
            pass
        elif pr["status"] == "FAILED":
            fc = pr["failed_checks"]
            # unwinding assertion failures / unsupported constructs are "undecided", not violations
            hard = [c for c in fc if not re.search(r"unwinding assertion|unsupported|not currently supported|UNDETERMINED", c)]
            if not hard:
                res["undecided"].append(f"harness {h['name']}: {'; '.join(fc)[:400]}")
            else:
                n_cex = len([f for f in res["failures"] if f.get("counterexample")])
                cex, test_src, replay_out = (None, None, None)
                if n_cex < 2:
                    cex, test_src = counterexample(cmd, h, scratch, env)
                if cex and n_cex == 0 and h.get("replay"):
                    test_src, replay_out = replay_on_real_code(unit, k, h, cex, scratch, env)
                res["failures"].append(dict(function=h.get("function", h["name"]), clause=h.get("clause", h["name"]), props=h["props"], backend="kani",
                                            message="kani: " + "; ".join(hard)[:500], rendered=raw[-3000:], clause_text=h.get("doc", ""),
                                            repo_file=h.get("repo_file"), repo_line=None, counterexample=cex, replay_test=test_src,
                                            replay_result=replay_out, strength="property"))
        else:
            res["undecided"].append(f"harness {h['name']}: status {pr['status']}: {raw[-600:]}")
        res["harnesses"].append(hr)
    res["assumptions"] = [f"kani harness module {i['module']} added under cfg(kani) to {i['file']}" for i in k.get("inject", [])] + \
                         [f"kani contract attributes on {a['file']}::{a['fn']}" for a in k.get("attr", [])] + k.get("assumptions", [])
    res["wall"] = time.time() - t0
    return res


def counterexample(cmd, h, scratch, env):
    """re-run the failed harness with concrete playback and return (values, generated test source)"""
    c2 = [x for x in cmd]
    # keep only this harness, no -j/terse
    out_cmd, skip = [], 0
    it = iter(range(len(c2)))
    i = 0
    while i < len(c2):
        if c2[i] == "--harness":
            i += 2
            continue
        if c2[i] in ("-j", "--output-format"):
            i += 2
            continue
        out_cmd.append(c2[i])
        i += 1
    out_cmd += ["--harness", h["name"], "-Z", "concrete-playback", "--concrete-playback=print"]
    rc, out, _ = sh(out_cmd, cwd=scratch, env=env, timeout=1800)
    m = re.search(r"Concrete playback unit test for `[^`]*`:\s*```\s*(.*?)```", out, re.S)
    if not m:
        return None, None
    test = m.group(1)
    vals = re.findall(r"//\s*(.+)\n\s*vec!\[([^\]]*)\]", test)
    return dict(concrete_values=[dict(value=a.strip(), bytes=b.strip()) for a, b in vals][:40]), test


def replay_on_real_code(unit, k, h, cex, scratch, env):
    """turn the concrete values into an ordinary #[test] next to the real code and run it with the normal toolchain"""
    vals = [re.sub(r"(ul|u|l)$", "", v["value"]) for v in cex.get("concrete_values", [])]
    body = h["replay"]
    for i, v in enumerate(vals):
        body = body.replace("{v%d}" % i, v)
    if re.search(r"\{v\d+\}", body):
        return None, "replay template needs more values than the counterexample has"
    inj = k["inject"][0]
    path = os.path.join(scratch, inj["file"])
    test = "\n#[cfg(test)]\nmod verif_replay {\n    #[allow(unused_imports)]\n    use super::*;\n    #[test]\n    fn verif_replay_%s() {\n        %s\n    }\n}\n" % (h["name"], body)
    with open(path, "a") as f:
        f.write(test)
    cmd = ["cargo", "test", "--offline", "-p", k["package"]]
    if k.get("no_default_features"):
        cmd += ["--no-default-features"]
    if k.get("features"):
        cmd += ["--features", ",".join(k["features"])]
    cmd += ["--lib", "verif_replay_" + h["name"]]
    env2 = dict(env)
    env2["CARGO_TARGET_DIR"] = os.path.join(os.path.dirname(env["CARGO_TARGET_DIR"]), "replay-target")
    rc, out, _ = sh(cmd, cwd=scratch, env=env2, timeout=1800)
    verdict = "REPLAY FAILED ON REAL CODE (violation reproduced)" if re.search(r"test result: FAILED|panicked at", out) else ("replay passed (not reproduced)" if rc == 0 else "replay could not be built")
    return test, verdict + "\n" + out[-1500:]
