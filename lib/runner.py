import argparse, concurrent.futures as cf, glob, hashlib, json, os, re, shutil, subprocess, sys, time, tomllib

VERIF = os.path.dirname(os.path.dirname(os.path.abspath(__file__)))
VX = os.path.join(VERIF, "tools/vx/target/release/vx")
NCPU = os.cpu_count() or 8

# Verus messages that are verdicts about an obligation (everything else is "undecided")
SEMANTIC = [
    r"postcondition not satisfied",
    r"precondition not satisfied",
    r"invariant not satisfied",
    r"assertion failed",
    r"possible arithmetic underflow/overflow",
    r"possible division by zero",
    r"possible bit shift underflow/overflow",
    r"decreases not satisfied",
    r"could not prove termination",
    r"loop invariant not satisfied",
    r"unreachable\(\) reached",
    r"cannot show .* (un)?reachable",
    r"cannot show invariant holds",
    r"index out of bounds",
    r"possible out of bounds",
    r"recursive call .* decreases",
    r"unable to prove post-condition of closure",
    r"closure .*precondition",
]
SEM_RE = re.compile("|".join(SEMANTIC))
UNDECIDED_RE = re.compile(r"Resource limit|rlimit|timed out|while lifetime checking|not supported|unsupported", re.I)


def log(*a):
    print(*a, flush=True)


def sh(cmd, cwd=None, env=None, timeout=None):
    t0 = time.time()
    try:
        p = subprocess.run(cmd, cwd=cwd, env=env, stdout=subprocess.PIPE, stderr=subprocess.PIPE, timeout=timeout)
        return p.returncode, p.stdout.decode(errors="replace"), p.stderr.decode(errors="replace"), time.time() - t0
    except subprocess.TimeoutExpired as e:
        return 124, (e.stdout or b"").decode(errors="replace"), (e.stderr or b"").decode(errors="replace") + "\nTIMEOUT", time.time() - t0


def load_units():
    units = {}
    for p in sorted(glob.glob(os.path.join(VERIF, "units/*/unit.toml"))):
        with open(p, "rb") as f:
            u = tomllib.load(f)
        u["_dir"] = os.path.dirname(p)
        units[u["name"]] = u
    return units


def dir_hash(d):
    h = hashlib.sha256()
    for root, _, files in sorted(os.walk(d)):
        for fn in sorted(files):
            if fn == "baseline.json":
                continue
            h.update(fn.encode())
            with open(os.path.join(root, fn), "rb") as f:
                h.update(f.read())
    return h.hexdigest()[:24]


class Undecided(Exception):
    pass


def vx_gen(unit, repo, out_rs, out_map, vacuity=None, generated=None, features=None, drop_beyond=False):
    cmd = [VX, "gen", "--repo", repo, "--unit", unit["_dir"], "--out", out_rs, "--map", out_map]
    if drop_beyond:
        cmd += ["--drop-beyond"]
    if features is not None:
        cmd += ["--features", ",".join(features)]
    if vacuity:
        cmd += ["--vacuity", vacuity]
    if generated:
        cmd += ["--generated", generated]
    rc, so, se, _ = sh(cmd)
    if rc != 0:
        raise Undecided(f"vx[{unit['name']}]: {se.strip() or so.strip()}")
    with open(out_map) as f:
        return json.load(f)


def run_verus(rs, seed, rlimit, extra=(), multiple_errors=8):
    cmd = ["verus", "--crate-type=lib", rs, "--error-format=json", "--output-json", "--time-expanded",
           "--rlimit", str(rlimit), "--smt-option", f"smt.random_seed={seed}", "--multiple-errors", str(multiple_errors),
           "--num-threads", "4"] + list(extra)
    rc, so, se, wall = sh(cmd, cwd=os.path.dirname(rs), timeout=1200)
    diags = []
    for line in se.splitlines():
        line = line.strip()
        if line.startswith("{"):
            try:
                diags.append(json.loads(line))
            except Exception:
                pass
    try:
        summary = json.loads(so) if so.strip().startswith("{") else {}
    except Exception:
        summary = {}
    return rc, summary, diags, se, wall, " ".join(cmd)


def span_lines(d):
    """all (line_start, line_end, is_primary, label) of a diagnostic incl. children"""
    out = []
    for s in d.get("spans", []):
        out.append((s["line_start"], s["line_end"], s.get("is_primary", False), s.get("label") or ""))
    for c in d.get("children", []):
        out += span_lines(c)
    return out


def locate(mp, gen_lines, line):
    """-> (fn or None, clause or None, text)"""
    for f in mp["functions"]:
        for c in f["clauses"]:
            if c["out_line_start"] <= line <= c["out_line_end"]:
                return f, c, c["text"]
    for f in mp["functions"]:
        if f["out_line_start"] <= line <= f["out_line_end"]:
            return f, None, gen_lines[line - 1].strip() if line - 1 < len(gen_lines) else ""
    return None, None, gen_lines[line - 1].strip() if 0 < line <= len(gen_lines) else ""


def classify(mp, gen_text, diags):
    """-> (failures, undecided_msgs). A failure = dict(function, clause, kind, message, rendered, ...)"""
    gen_lines = gen_text.splitlines()
    failures, undecided = [], []
    for d in diags:
        if d.get("level") != "error":
            continue
        msg = d.get("message", "")
        if msg.startswith("aborting due to"):
            continue
        spans = span_lines(d)
        if not SEM_RE.search(msg) or UNDECIDED_RE.search(msg):
            undecided.append(msg + " @ " + ",".join(str(s[0]) for s in spans[:3]))
            continue
        prim = [s for s in spans if s[2]]
        host_fn = None
        for s in prim:
            f, _, _ = locate(mp, gen_lines, s[0])
            if f:
                host_fn = f
                break
        clause = None
        clause_fn = None
        clause_text = None
        # a span that lies in a named clause (own postcondition/invariant, or a callee's requires)
        for s in spans:
            f, c, t = locate(mp, gen_lines, s[0])
            if c:
                clause, clause_fn, clause_text = c, f, t
                break
        site_text = None
        prelude_clause = None
        for s in spans:
            if s[0] <= mp["prelude_lines"] and not s[2]:
                prelude_clause = f"prelude:{s[0]}: {gen_lines[s[0]-1].strip()}"
        if prim:
            site_text = gen_lines[prim[0][0] - 1].strip() if prim[0][0] - 1 < len(gen_lines) else None
        if host_fn is None and clause_fn is not None:
            host_fn = clause_fn
        if host_fn is None:
            # failure inside the prelude: a lemma of the unit (protocol lemma / lemma over extracted constants).
            # It is an obligation of the unit like any other; the baseline guard in main() turns it into
            # "undecided" when nothing extracted from /repo changed.
            pl = prim[0][0] if prim else (spans[0][0] if spans else 0)
            name, lprops = "prelude", []
            for k in range(min(pl, len(gen_lines)) - 1, -1, -1):
                m = re.search(r"\bfn\s+([A-Za-z0-9_]+)", gen_lines[k])
                if m:
                    name = "prelude::" + m.group(1)
                    for kk in range(k - 1, max(k - 4, -1), -1):
                        mm = re.match(r"\s*// @props (.*)", gen_lines[kk])
                        if mm:
                            lprops = mm.group(1).split()
                    break
            host_fn = dict(key=name, repo_file="(unit prelude)", repo_line=pl, props=lprops)
        failures.append(dict(
            function=host_fn["key"], repo_file=host_fn["repo_file"], repo_line=host_fn["repo_line"],
            props=(clause["strength"][4:].replace(","," ").split() if clause and clause["strength"].startswith("for ") else (host_fn.get("props") or [])),
            clause=(clause["name"] if clause else None),
            clause_owner=(clause_fn["key"] if clause_fn else None),
            clause_text=clause_text if clause else None,
            clause_src_line=(clause["src_line"] if clause else None),
            strength=(("property" if clause["strength"].startswith("for ") else clause["strength"]) if clause else "body"),
            prelude_clause=prelude_clause,
            site=site_text, message=msg, rendered=d.get("rendered", ""),
        ))
    return failures, undecided


def unit_workdir(base, unit):
    d = os.path.join(base, unit["name"])
    os.makedirs(d, exist_ok=True)
    return d


def generated_dir_for(unit, repo, work):
    """units that extract build-script output (prost) need an OUT_DIR; build it on a scratch copy"""
    if not unit.get("protos") and not unit.get("derive_sample"):
        return None
    import protogen
    d = os.path.join(work, "gen-" + unit["name"])
    os.makedirs(d, exist_ok=True)
    if unit.get("derive_sample"):
        # run the REAL derive generator (sources copied from /repo's working tree, never edited) on the unit's sample enum
        dg = os.path.join(VERIF, "tools", "derivegen")
        gen_src = os.path.join(dg, "src", "gen")
        os.makedirs(gen_src, exist_ok=True)
        import fcntl
        with open(os.path.join(dg, ".lock"), "w") as lk:
            fcntl.flock(lk, fcntl.LOCK_EX)
            for fn in ("codegen.rs", "ir.rs", "parse.rs"):
                src = os.path.join(repo, "ractor_cluster_derive", "src", fn)
                if not os.path.exists(src):
                    raise Undecided(f"lost anchor: {src} not found")
                shutil.copyfile(src, os.path.join(gen_src, fn))
            rc, so, se, _ = sh(["cargo", "build", "--offline", "--release"], cwd=dg)
            if rc != 0:
                raise Undecided("derive generator does not build against the current ractor_cluster_derive sources: " + se[-800:])
            sample = os.path.join(unit["_dir"], unit["derive_sample"])
            rc, so, se, _ = sh([os.path.join(dg, "target", "release", "derivegen"), sample])
            if rc != 0:
                raise Undecided("derive generator failed on the sample enum: " + se[-800:])
        open(os.path.join(d, "derive.rs"), "w").write("pub " + open(sample).read() + "\n" + so)
    for pr in unit.get("protos", []):
        src = os.path.join(repo, pr)
        if not os.path.exists(src):
            raise Undecided(f"lost anchor: {pr} not found")
        out = os.path.join(d, os.path.basename(pr).replace(".proto", ".rs"))
        open(out, "w").write(protogen.gen(open(src).read()))
    return d


def run_verus_unit(unit, repo, work, seed, tier, features=None, tag="", rlimit=30):
    """returns dict with map, failures, undecided, stats"""
    rlimit = unit.get("rlimit", rlimit)
    wd = unit_workdir(work, unit) + tag
    os.makedirs(wd, exist_ok=True)
    rs = os.path.join(wd, unit["name"] + ".rs")
    mpf = os.path.join(wd, unit["name"] + ".map.json")
    res = dict(unit=unit["name"], tag=tag, features=features, failures=[], undecided=[], vacuity=[], wall=0.0, smt_ms=0, verified_items=0,
               checker_cmd="", fn_breakdown=[], map=None)
    t0 = time.time()
    try:
        gen_dir = generated_dir_for(unit, repo, work)
        mp = vx_gen(unit, repo, rs, mpf, generated=gen_dir, features=features)
    except Undecided as e:
        res["undecided"].append(str(e))
        return res
    res["map"] = mp
    rc, summary, diags, raw, wall, cmd = run_verus(rs, seed, rlimit)
    res["checker_cmd"] = cmd
    gen_text = open(rs).read()
    fails, und = classify(mp, gen_text, diags)
    res["beyond_notes"] = []
    if fails and not und and all(f["strength"] == "beyond-property" for f in fails):
        # only clauses stronger than the property (exactness) failed.  Callers were verified against the full
        # contract, so re-verify the whole unit with those clauses removed: sound, and decides the property itself.
        res["beyond_notes"] = [f"clause {f['function']}/{f['clause']} (stronger than the property) no longer holds; unit re-verified without beyond-property clauses" for f in fails]
        try:
            mp = vx_gen(unit, repo, rs, mpf, generated=gen_dir, features=features, drop_beyond=True)
        except Undecided as e:
            res["undecided"].append(str(e))
            return res
        res["map"] = mp
        res["dropped_beyond"] = True
        rc, summary, diags, raw, wall, cmd = run_verus(rs, seed, rlimit)
        gen_text = open(rs).read()
        fails, und = classify(mp, gen_text, diags)
    # call-site census: a call of a guarded function from a function that is not under contract is an obligation nobody discharges
    for c in mp.get("census", []):
        if not c["ok"]:
            fails.append(dict(function=f"census::{c['callee']}", repo_file=c["offenders"][0].split(":")[0], repo_line=int(c["offenders"][0].split(":")[1].split()[0]),
                              props=c["props"], clause=c["name"], clause_owner=None, clause_text="call sites outside functions under contract: " + "; ".join(c["offenders"]),
                              clause_src_line=None, strength="property", prelude_clause=None, site="; ".join(c["offenders"]),
                              _census=True, message="precondition of " + c["callee"] + " is not discharged at a call site outside the functions under contract", rendered=""))
    for sf in mp.get("shape_failures", []):
        und = und + [sf + " (a syntactic shape the contract relies on for something the verifier cannot see: drop order, panic containment)"] if not fails else und
    res["failures"], res["undecided"] = fails, und
    vr = summary.get("verification-results", {})
    res["verified_items"] = vr.get("verified", 0)
    res["errors"] = vr.get("errors", 0)
    if not summary:
        res["undecided"].append("verus produced no summary: " + raw[-800:])
    elif vr.get("encountered-vir-error") or (not vr.get("success") and not fails and not und):
        res["undecided"].append("verus failed without a classified diagnostic: " + raw[-800:])
    try:
        smt = summary["times-ms"]["smt"]
        res["smt_ms"] = smt.get("total", 0)
        for m in smt.get("smt-run-module-times", []):
            for fb in m.get("function-breakdown", []):
                res["fn_breakdown"].append(dict(function=fb["function"], mode=fb.get("mode:"), ms=fb["time"], rlimit=fb.get("rlimit"), success=fb["success"]))
    except Exception:
        pass
    # a function the SMT breakdown marks unsuccessful without a semantic diagnostic (rlimit) => undecided
    for fb in res["fn_breakdown"]:
        if not fb["success"]:
            short = fb["function"].split("::", 1)[-1]
            if not any(short.endswith(f["function"].split("::")[-1]) for f in fails) and not und:
                res["undecided"].append(f"{fb['function']}: solver did not succeed and gave no verdict (rlimit?)")
    # ---- vacuity twins: every function under contract, with `ensures false`, must FAIL
    targets = [f["key"] for f in mp["functions"] if f["has_contract"] and not f["external_body"] and not f["key"].startswith("trait ")]
    def twin(key):
        safe = re.sub(r"[^A-Za-z0-9]+", "_", key)
        trs = os.path.join(wd, f"vac_{safe}.rs")
        tmp = os.path.join(wd, f"vac_{safe}.map.json")
        try:
            tmap = vx_gen(unit, repo, trs, tmp, vacuity=key, generated=gen_dir, features=features, drop_beyond=res.get("dropped_beyond", False))
        except Undecided as e:
            return key, "undecided", str(e)
        fn = [f for f in tmap["functions"] if f["key"] == key][0]
        _, _, tdiags, traw, _, _ = run_verus(trs, seed, rlimit, multiple_errors=24)
        tf, tu = classify(tmap, open(trs).read(), tdiags)
        hit = [x for x in tf if x["clause"] == "__vacuity" and x["clause_owner"] == key]
        if hit:
            return key, "reachable", ""
        return key, "VACUOUS", (traw[-400:] if not tf and not tu else json.dumps([x["message"] for x in tf] + tu)[:400])
    if not res["failures"] and not res["undecided"]:
        with cf.ThreadPoolExecutor(max_workers=max(2, NCPU // 4)) as ex:
            for key, verdict, info in ex.map(twin, targets):
                res["vacuity"].append(dict(function=key, verdict=verdict))
                if verdict != "reachable":
                    res["undecided"].append(f"vacuity probe for {key}: {verdict} {info}")
    # thorough tier: a deductive proof already covers every input; what remains to explore is the solver -- re-discharge every
    # obligation of the unit under three more random seeds and a doubled resource limit (recorded as stability evidence; a seed
    # that fails while the primary run passed is reported as a note, never as a violation)
    res["stability"] = []
    if tier == "thorough" and not res["failures"] and not res["undecided"]:
        def rerun(sd):
            _, summ, dg, _, w, _ = run_verus(rs, sd, rlimit * 2)
            f2, u2 = classify(mp, gen_text, dg)
            return dict(seed=sd, ok=(not f2 and not u2 and bool(summ)), wall_s=round(w, 2))
        with cf.ThreadPoolExecutor(max_workers=3) as ex:
            res["stability"] = list(ex.map(rerun, [seed + 1, seed + 7, 42 + seed]))
    res["wall"] = time.time() - t0
    return res


def load_known():
    out = []
    p = os.path.join(VERIF, "known_findings.txt")
    if os.path.exists(p):
        for l in open(p):
            l = l.strip()
            if not l or l.startswith("#") or l.startswith("fixed:"):
                continue
            m = re.match(r"finding:\s+property=(\S+)\s+unit=(\S+)\s+function=(.+?)\s+clause=(\S+)\s+(.*)$", l)
            if m:
                out.append(dict(property=m.group(1), unit=m.group(2), function=m.group(3), clause=m.group(4), what=m.group(5)))
    return out


def baseline_of(unit):
    p = os.path.join(unit["_dir"], "baseline.json")
    if os.path.exists(p):
        return json.load(open(p))
    return None


def current_hashes(unit, mp):
    h = {"unit_files": dir_hash(unit["_dir"])}
    for f in mp["functions"]:
        h["fn " + f["key"]] = f["token_hash"]
        h["loops " + f["key"]] = f.get("n_loops", 0)
    for it in mp["items"]:
        h["item " + it["path"]] = it["token_hash"]
    return h


def next_replay_path(prop):
    d = os.path.join(VERIF, "replays")
    os.makedirs(d, exist_ok=True)
    n = 1
    while os.path.exists(os.path.join(d, f"{prop}-{n}.json")):
        n += 1
    return os.path.join(d, f"{prop}-{n}.json")


def main(argv):
    ap = argparse.ArgumentParser()
    ap.add_argument("prop")
    ap.add_argument("--tier", default=os.environ.get("VERIF_TIER", "quick"), choices=["quick", "thorough"])
    ap.add_argument("--repo", default="/repo")
    ap.add_argument("--replay")
    ap.add_argument("--rebaseline", action="store_true")
    ap.add_argument("--keep", action="store_true")
    ap.add_argument("--only-unit")
    args = ap.parse_args(argv)
    seed = int(os.environ.get("VERIF_SEED", "0") or 0)
    prop = args.prop
    t_start = time.time()
    props = json.load(open(os.path.join(VERIF, "props.json")))
    if prop not in props:
        log(f"{prop}: not claimed (see MANIFEST.json not_applicable)")
        return 2
    pconf = props[prop]
    units = load_units()
    my_units = [u for u in units.values() if prop in u["serves"] and (not args.only_unit or u["name"] == args.only_unit)]
    work = os.path.join(os.environ.get("VERIF_SCRATCH", "/var/tmp"), f"verif-{prop}-{os.getpid()}")
    os.makedirs(work, exist_ok=True)
    if not os.path.exists(VX):
        rc, so, se, _ = sh(["cargo", "build", "--offline", "--release"], cwd=os.path.join(VERIF, "tools/vx"))
        if rc != 0:
            log("cannot build vx:", se[-2000:])
            return 2
    replay_filter = None
    if args.replay:
        rp = json.load(open(args.replay))
        replay_filter = rp
        log(f"replaying {args.replay}: unit={rp.get('unit')} function={rp.get('function')} clause={rp.get('clause')}")
        my_units = [u for u in my_units if u["name"] == rp.get("unit")] or my_units

    results, kani_results = [], []
    try:
        verus_units = [u for u in my_units if u.get("backend", "verus") in ("verus", "both")]
        kani_units = [u for u in my_units if u.get("backend", "verus") in ("kani", "both")]
        with cf.ThreadPoolExecutor(max_workers=4) as ex:
            futs = []
            for u in verus_units:
                fsets = u.get("feature_sets") or [None]
                for i, fs in enumerate(fsets):
                    futs.append(ex.submit(run_verus_unit, u, args.repo, work, seed, args.tier, fs, f"@{i}" if len(fsets) > 1 else ""))
            kfut = None
            if kani_units:
                import kani_runner
                kfut = ex.submit(kani_runner.run_kani_units, kani_units, prop, args.repo, work, seed, args.tier)
            results = [f.result() for f in futs]
            if kfut:
                kani_results = kfut.result()
                # a failed [carrier] clause leaves the verdict to the paired bounded harnesses: give them their larger bounds at once
                carrier_failed = any(fl.get("strength") == "carrier" for r in results for fl in r.get("failures", []))
                if carrier_failed and args.tier == "quick" and not any(kr.get("failures") for kr in kani_results):
                    log("NOTE: a carrier clause failed: running the paired Kani harnesses at their thorough bounds as well")
                    kani_results = kani_results + kani_runner.run_kani_units(kani_units, prop, args.repo, work, seed, "escalate")
    finally:
        if not args.keep:
            shutil.rmtree(work, ignore_errors=True)

    # ---------------------------------------------------------------- decide
    known = load_known()
    violations, undecided, notes, known_hits = [], [], [], []
    n_clauses = n_fns = n_vac = n_lemmas = 0
    carrier_fails = []
    fn_under_contract, trusted, samples, rules_fired = [], [], [], {}
    smt_ms = 0
    for r in results:
        u = units[r["unit"]]
        for m in r["undecided"]:
            undecided.append(f"[{r['unit']}] {m}")
        for m in r.get("beyond_notes", []):
            notes.append(f"[{r['unit']}{r['tag']}] {m}")
        for st in r.get("stability", []):
            if not st["ok"]:
                notes.append(f"[{r['unit']}{r['tag']}] solver seed {st['seed']} did not re-discharge every obligation (instability, not a violation)")
        mp = r["map"]
        if not mp:
            continue
        smt_ms += r["smt_ms"]
        bkey = "set" + (r["tag"] or "@0")
        cur = current_hashes(u, mp)
        if args.rebaseline:
            b = baseline_of(u) or {}
            b[bkey] = cur
            json.dump(b, open(os.path.join(u["_dir"], "baseline.json"), "w"), indent=1, sort_keys=True)
        base = (baseline_of(u) or {}).get(bkey)
        unchanged = base is not None and base == cur
        # loop anchors: a function that has MORE loops than at baseline may have its loop contracts attached to the wrong
        # loop (ordinals shift) -> a failure there is undecided; a loop that disappeared just loses its invariants (noted)
        shifted = set()
        for f in mp["functions"]:
            for d in f.get("dropped_loops", []):
                notes.append(f"[{r['unit']}] {d}")
            if base is not None and f["has_contract"] and any(c["kind"].startswith("loop") for c in f["clauses"]):
                if f.get("n_loops", 0) > base.get("loops " + f["key"], f.get("n_loops", 0)):
                    shifted.add(f["key"])
        for f in mp["functions"]:
            fprops = f.get("props") or u["serves"]
            if prop not in fprops:
                continue
            if f["has_contract"]:
                n_fns += 1 if not r["tag"] or r["tag"] == "@0" or not any(x["function"] == f["key"] and x["unit"] == r["unit"] for x in fn_under_contract) else 0
                n_clauses += len(f["clauses"]) + 1  # +1: body safety obligations (overflow, callee preconditions, termination)
                fn_under_contract.append(dict(unit=r["unit"], feature_set=r["features"], function=f["key"], repo=f"{f['repo_file']}:{f['repo_line']}",
                                              token_sha256_96=f["token_hash"], rules=f["rules"], clauses=[c["name"] for c in f["clauses"]],
                                              trusted=f["external_body"]))
                for c in f["clauses"][:2]:
                    if len(samples) < 12:
                        samples.append(dict(obligation=f"{r['unit']}/{f['key']}/{c['name']}", kind=c["kind"], text=c["text"][:300]))
        for c in mp.get("census", []):
            if prop in c["props"] and (not r["tag"] or r["tag"] == "@0"):
                n_clauses += 1
                samples.append(dict(obligation=f"{r['unit']}/census::{c['callee']}/{c['name']}", kind="call-site census", text="discharged call sites: " + "; ".join(c["sites"])))
        n_vac += len([v for v in r["vacuity"] if v["verdict"] == "reachable"])
        # lemmas of the unit's prelude (protocol lemmas, lemmas over extracted constants) are obligations too
        n_lemmas += len([fb for fb in r["fn_breakdown"] if fb["mode"] == "proof" and fb["success"]])
        trusted += [f"[{r['unit']}] {a}" for a in mp["assumptions"]]
        for fl in r["failures"]:
            fprops = fl["props"] or u["serves"]
            if prop not in fprops:
                notes.append(f"[{r['unit']}] (other property) {fl['function']}/{fl['clause']}: {fl['message']}")
                continue
            fl["unit"] = r["unit"]
            if fl["function"] in shifted:
                undecided.append(f"[{r['unit']}] {fl['function']} has more loops than at baseline: loop contracts may be attached to the wrong loop (lost anchor), not a violation")
                continue
            if unchanged and not fl.get("_census"):
                undecided.append(f"[{r['unit']}] {fl['function']}/{fl['clause'] or 'body'} failed although every extracted item and the unit files equal the committed baseline: solver instability (seed {seed}), not a violation")
                continue
            if fl["strength"] == "carrier":
                # the clause says `result == spec_function(..)`; the property itself is a set of lemmas over that spec function.
                # Its failure alone shows the function changed, not that the property broke: the paired check decides.
                carrier_fails.append(fl)
                continue
            if fl["strength"] == "beyond-property":
                notes.append(f"[{r['unit']}] clause {fl['function']}/{fl['clause']} (stronger than the property: exactness) no longer holds")
                fl["_beyond"] = True
                continue
            kh = [k for k in known if k["property"] == prop and k["unit"] == r["unit"] and k["function"] == fl["function"] and k["clause"] == (fl["clause"] or "body")]
            if kh:
                known_hits.append(kh[0])
                continue
            if not any(v["function"] == fl["function"] and v.get("clause") == fl.get("clause") and v["message"] == fl["message"] and v["unit"] == fl["unit"] for v in violations):
                violations.append(fl)
        beyond_only = [fl for fl in r["failures"] if fl.get("_beyond")]
        if beyond_only and not violations:
            undecided.append(f"[{r['unit']}] only beyond-property (exactness) clauses failed: the property clauses of those functions are still proved, but callers assumed the full contract -> undecided, not a violation")
    k_oblig = k_disch = 0
    bounded_notes = []
    for kr in kani_results:
        for m in kr.get("undecided", []):
            undecided.append(f"[{kr['unit']}] {m}")
        for h in kr.get("harnesses", []):
            if prop not in h["props"]:
                continue
            k_oblig += h["checks"]
            k_disch += h["checks"] - h["failed_checks"]
            if h["class"] == "bounded":
                bounded_notes.append(f"{kr['unit']}/{h['name']}: BOUNDED {h['bound']}")
            if len(samples) < 16:
                samples.append(dict(obligation=f"{kr['unit']}/kani::{h['name']}", kind=h["class"], text=h.get("doc", "")[:300], checks=h["checks"]))
            fn_under_contract.append(dict(unit=kr["unit"], function="kani harness " + h["name"], targets=h.get("targets", []), klass=h["class"], bound=h.get("bound"), checks=h["checks"], wall_s=h.get("wall")))
        trusted += [f"[{kr['unit']}] {a}" for a in kr.get("assumptions", [])]
        for fl in kr.get("failures", []):
            if prop not in fl["props"]:
                continue
            kh = [k for k in known if k["property"] == prop and k["unit"] == kr["unit"] and k["function"] == fl["function"] and k["clause"] == fl["clause"]]
            if kh:
                known_hits.append(kh[0])
                continue
            fl["unit"] = kr["unit"]
            violations.append(fl)

    for fl in carrier_fails:
        if violations:
            notes.append(f"[{fl['unit']}] {fl['function']}/{fl['clause']}: the function no longer equals its specification function (see the violation found by the paired check)")
        else:
            undecided.append(f"[{fl['unit']}] {fl['function']}/{fl['clause']}: the function no longer computes its specification function, so the lemmas that derive the property from that function no longer speak about the code; "
                             "the paired bounded check found no failing input -> undecided (re-establish the specification function and its lemmas), not a violation")
    for k in known_hits:
        log(f"KNOWN-FINDING: property={prop} {k['unit']}/{k['function']}/{k['clause']} {k['what']}")
    for n in sorted(set(notes)):
        log("NOTE:", n)

    # ---------------------------------------------------------------- replays for violations
    exit_code = 0
    replay_paths = []
    for v in violations:
        rp = next_replay_path(prop)
        cex = v.get("counterexample")
        body = dict(property=prop, unit=v["unit"], function=v["function"], clause=v.get("clause") or "body",
                    clause_text=v.get("clause_text"), clause_owner=v.get("clause_owner"), prelude_clause=v.get("prelude_clause"),
                    repo_file=v.get("repo_file"), repo_line=v.get("repo_line"), backend=v.get("backend", "verus"),
                    failed_obligation=f"{v['unit']}/{v['function']}/{v.get('clause') or 'body'}",
                    site=v.get("site"), message=v["message"], verifier_output=v.get("rendered", ""),
                    counterexample=cex, replay_test=v.get("replay_test"), replay_result=v.get("replay_result"),
                    how_to_rerun=f"./check {prop} --replay {rp}")
        json.dump(body, open(rp, "w"), indent=1)
        replay_paths.append(rp)
        tail = "" if cex else " no-failing-input-found"
        log(f"  failed obligation: {body['failed_obligation']}  ({v['message']})")
        if v.get("clause_text"):
            log(f"    clause: {v['clause_text'][:200]}")
        log(f"VIOLATION property={prop} replay={rp}{tail}")
        exit_code = 1
    if exit_code == 0 and undecided:
        for m in undecided:
            log("UNDECIDED:", m[:1500])
        exit_code = 2

    obligations = n_clauses + n_lemmas + k_oblig
    discharged = obligations - len(violations) - len(known_hits) if exit_code != 2 else 0
    if exit_code == 0 and obligations == 0:
        log("UNDECIDED: zero obligations generated (vacuity guard)")
        exit_code = 2
    level = pconf["level"]
    ev = dict(
        property_id=prop, tier=args.tier, seed=seed, level=level,
        coverage=dict(
            obligations=obligations, discharged=max(discharged, 0),
            checker_cmd="; ".join(sorted(set([r["checker_cmd"] for r in results if r["checker_cmd"]] + [kr.get("checker_cmd", "") for kr in kani_results if kr.get("checker_cmd")]))) or "none",
            trusted_base=sorted(set(trusted)),
            explanation=pconf.get("explanation", ""),
            functions_under_contract=fn_under_contract,
            named_clauses_plus_body_obligations=n_clauses, prelude_lemmas=n_lemmas, kani_checks=k_oblig,
            verus_items_verified=sum(r.get("verified_items", 0) for r in results),
            vacuity_probes_reachable=n_vac,
            bounded=bounded_notes,
            solver_time_ms=dict(verus_smt=smt_ms, kani_wall_s=round(sum(kr.get("wall", 0) for kr in kani_results), 1)),
            per_function_smt=[fb for r in results for fb in r["fn_breakdown"] if fb["mode"] != "spec"][:200],
            samples=samples or [dict(note="no obligations")],
            not_decided=pconf.get("not_decided", []),
            shape_checks=[s for r in results if r["map"] for s in r["map"]["shape_checks"]],
            solver_stability=[dict(unit=r["unit"] + r["tag"], **st) for r in results for st in r.get("stability", [])],
            undecided=undecided, notes=notes,
            known_findings=[f"{k['unit']}/{k['function']}/{k['clause']}" for k in known_hits],
            replays=replay_paths,
        ),
        # what the verdict rests on without checking it: the stated trust of the property (level note), then every stand-in / assumed
        # contract / external body found by the mechanical scan of the generated files of this run
        assumptions=pconf.get("assumptions", []) + ([pconf["level_note"]] if pconf.get("level_note") else []) + sorted(set(trusted)),
        wall_s=round(time.time() - t_start, 2),
        violations=len(violations),
    )
    # evidence describes a run against /repo itself; development runs against a scratch copy (--repo DIR) write theirs next to the replays
    ev_dir = os.path.join(VERIF, "evidence") if os.path.realpath(args.repo) == "/repo" else os.path.join(VERIF, "replays", "evidence-scratch")
    os.makedirs(ev_dir, exist_ok=True)
    json.dump(ev, open(os.path.join(ev_dir, f"{prop}.json"), "w"), indent=1)
    log(f"{prop}: tier={args.tier} units={[u['name'] for u in my_units]} obligations={obligations} discharged={ev['coverage']['discharged']} "
        f"functions_under_contract={n_fns} vacuity_ok={n_vac} kani_checks={k_oblig} wall={ev['wall_s']}s exit={exit_code}")
    return exit_code
