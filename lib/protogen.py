"""proto3 -> prost-shaped plain Rust (the subset used by ractor_cluster's auth/node/control protocols).
Generated at check time from the REAL .proto files in /repo, so the message types the extracted functions are verified
against always have the field names/types prost generates (string->String, bytes->Vec<u8>, uintN->uN, message->Option<M>,
enum->i32, oneof X -> Option<snake_case_message::X>).  Nested oneof enums are emitted at top level as `<Message>Oneof<Name>`
... kept simple: `pub enum Msg` inside `pub mod <snake>` exactly like prost."""
import re, sys

SCALAR = {"string": "String", "bytes": "Vec<u8>", "uint32": "u32", "uint64": "u64", "int32": "i32", "int64": "i64", "bool": "bool", "double": "f64", "float": "f32"}


def snake(n):
    return re.sub(r"(?<!^)(?=[A-Z])", "_", n).lower()


def camel(n):
    return "".join(p.capitalize() for p in n.split("_"))


def strip_comments(s):
    return re.sub(r"//[^\n]*", "", s)


def parse_block(body):
    """returns (fields, oneofs, enums, nested_messages)"""
    fields, oneofs, enums, msgs = [], [], [], []
    i = 0
    while i < len(body):
        m = re.compile(r"\s*(message|enum|oneof)\s+(\w+)\s*\{").match(body, i)
        if m:
            depth, j = 1, m.end()
            while depth:
                if body[j] == "{": depth += 1
                elif body[j] == "}": depth -= 1
                j += 1
            inner = body[m.end():j - 1]
            if m.group(1) == "message": msgs.append((m.group(2), parse_block(inner)))
            elif m.group(1) == "enum": enums.append((m.group(2), re.findall(r"(\w+)\s*=\s*(\d+)\s*;", inner)))
            else: oneofs.append((m.group(2), re.findall(r"([\w.]+)\s+(\w+)\s*=\s*\d+\s*;", inner)))
            i = j
            continue
        m = re.compile(r"\s*(repeated\s+|optional\s+)?([\w.]+)\s+(\w+)\s*=\s*\d+\s*;").match(body, i)
        if m:
            fields.append((m.group(1) or "", m.group(2), m.group(3)))
            i = m.end()
            continue
        i += 1
    return fields, oneofs, enums, msgs


def rust_type(label, ty, enum_names):
    base = ty.split(".")[-1]
    if ty in SCALAR:
        t = SCALAR[ty]
        opt = False
    elif base in enum_names:
        t, opt = "i32", False
    else:
        t, opt = base, True
    if label.strip() == "repeated":
        return f"Vec<{t}>"
    if opt or label.strip() == "optional":
        return f"Option<{t}>"
    return t


def gen(proto_text):
    text = strip_comments(proto_text)
    fields, oneofs, enums, msgs = parse_block(text)
    out = []
    enum_names = set()

    def collect(ms):
        for n, (f, o, e, sub) in ms:
            for en, _ in e: enum_names.add(en)
            collect(sub)
    collect(msgs)
    for en, _ in enums: enum_names.add(en)

    def emit(name, blk):
        f, o, e, sub = blk
        # prost derives Copy as well for messages whose fields are all plain scalars (no string/bytes/message/repeated, no oneof)
        COPY_SCALARS = {"u32", "u64", "i32", "i64", "bool", "f32", "f64"}
        all_copy = (not o) and all(label.strip() not in ("repeated",) and rust_type(label, ty, enum_names).replace("Option<", "").rstrip(">") in COPY_SCALARS for label, ty, fn in f)
        out.append(f"#[derive(Clone{', Copy' if all_copy else ''})]\npub struct {name} {{")
        for label, ty, fn in f:
            out.append(f"    pub {fn}: {rust_type(label, ty, enum_names)},")
        for on, _ in o:
            out.append(f"    pub {on}: Option<{snake(name)}::{camel(on)}>,")
        out.append("}\n")
        if o or e or sub:
            out.append(f"pub mod {snake(name)} {{\n    use super::*;")
            for on, alts in o:
                out.append(f"    #[derive(Clone)]\n    pub enum {camel(on)} {{")
                for ty, fn in alts:
                    out.append(f"        {camel(fn)}({rust_type('', ty, enum_names).replace('Option<', '').rstrip('>') if ty not in SCALAR else SCALAR[ty]}),")
                out.append("    }")
            for en, vals in e:
                out.append(f"    #[derive(Clone, Copy)]\n    #[repr(i32)]\n    pub enum {en} {{")
                for vn, vv in vals:
                    out.append(f"        {camel(vn.lower())} = {vv},")
                out.append("    }")
            out.append("}\n")
        for sn, sb in sub:
            emit(sn, sb)
    for n, blk in msgs:
        emit(n, blk)
    return "\n".join(out) + "\n"


if __name__ == "__main__":
    print(gen(open(sys.argv[1]).read()))
