// ---- unit suptree: prelude ----
#![feature(proc_macro_hygiene)]
#![allow(unused, non_snake_case, non_camel_case_types, dead_code, unreachable_code, non_upper_case_globals)]
use vstd::prelude::*;
use verus_builtin_macros::{verus_spec, verus_verify, proof, proof_decl};
use vstd::std_specs::cmp::*;

verus! {
/// `Option::is_some_and` (std): None => false, Some(x) => f(x)
pub assume_specification<T, F: FnOnce(T) -> bool>[ Option::<T>::is_some_and ](o: Option<T>, f: F) -> (r: bool)
    requires o matches Some(x) ==> f.requires((x,)),
    ensures o is None ==> !r, o matches Some(x) ==> f.ensures((x,), r);


// ------------------------------------------------------------------ A-std: derive(PartialEq, PartialOrd) on the fieldless repr(u8) enum ActorStatus compares discriminants
pub open spec fn status_cmp(a: ActorStatus, b: ActorStatus) -> Option<core::cmp::Ordering> {
    if (a as u8) < (b as u8) { Some(core::cmp::Ordering::Less) }
    else if (a as u8) == (b as u8) { Some(core::cmp::Ordering::Equal) }
    else { Some(core::cmp::Ordering::Greater) }
}
pub assume_specification [<ActorStatus as PartialEq>::eq] (a: &ActorStatus, b: &ActorStatus) -> (r: bool)
    ensures r == (*a == *b);
pub assume_specification [<ActorStatus as PartialOrd>::partial_cmp] (a: &ActorStatus, b: &ActorStatus) -> (r: Option<core::cmp::Ordering>)
    ensures r == status_cmp(*a, *b);
impl PartialOrdSpecImpl for ActorStatus {
    open spec fn obeys_partial_cmp_spec() -> bool { true }
    open spec fn partial_cmp_spec(&self, b: &ActorStatus) -> Option<core::cmp::Ordering> { status_cmp(*self, *b) }
}
impl PartialEqSpecImpl for ActorStatus {
    open spec fn obeys_eq_spec() -> bool { true }
    open spec fn eq_spec(&self, b: &ActorStatus) -> bool { *self == *b }
}
/// an actor that has begun to go away (draining, stopping, stopped)
pub open spec fn leaving(s: ActorStatus) -> bool { (s as u8) >= (ActorStatus::Draining as u8) }

// ------------------------------------------------------------------ the ghost heap: what the per-actor mutexes hold
/// Abstract content of every actor's `SupervisionTree` (A-lock: each `Mutex` gives exclusive access to what it guards; the
/// global `TREE_MUTATION_LOCK` serialises every mutation of the tree, so the functions below run one at a time).
///  * `kids[a]`  = content of `a.tree.children`: `None` once `take_children(a)` has closed it
///  * `sup[a]`   = id of the actor stored in `a.tree.supervisor`
///  * `status[a]`= what `a.get_status()` returns while the global lock is held (status is monotone, see C06)
///  * `locked`   = the calling function holds `TREE_MUTATION_LOCK`
///  * `killed`   = actors on which `kill()` has been called
pub tracked struct TreeHeap {
    pub ghost kids: Map<ActorId, Option<Set<ActorId>>>,
    pub ghost sup: Map<ActorId, Option<ActorId>>,
    pub ghost status: Map<ActorId, ActorStatus>,
    pub ghost locked: bool,
    /// actors on which `kill()` has been called
    pub ghost killed: Set<ActorId>,
}
pub open spec fn total(h: TreeHeap) -> bool {
    &&& forall|a: ActorId| #[trigger] h.kids.contains_key(a)
    &&& forall|a: ActorId| #[trigger] h.sup.contains_key(a)
    &&& forall|a: ActorId| #[trigger] h.status.contains_key(a)
}
/// the C05 consistency invariant: `c` has supervisor `s`  <=>  `c` is in `s`'s (open) child set
pub open spec fn linked(h: TreeHeap, c: ActorId, s: ActorId) -> bool { h.sup[c] == Some(s) }
pub open spec fn child_of(h: TreeHeap, c: ActorId, s: ActorId) -> bool { h.kids[s] matches Some(ks) && ks.contains(c) }
pub open spec fn wf(h: TreeHeap) -> bool {
    &&& total(h)
    &&& forall|c: ActorId| (#[trigger] h.sup[c]) matches Some(s) ==> child_of(h, c, s)
    &&& forall|s: ActorId, c: ActorId| h.kids[s] is Some && #[trigger] h.kids[s].unwrap().contains(c) ==> h.sup[c] == Some(s)
}

// ------------------------------------------------------------------ stand-ins
/// ActorCell stand-in: `inner` is `Arc<ActorProperties>` in the real code (the Arc is dropped: field access goes through it)
pub struct ActorProperties { pub id: ActorId, pub tree: SupervisionTree }
pub struct ActorCell { pub inner: ActorProperties }
impl View for ActorCell { type V = ActorId; open spec fn view(&self) -> ActorId { self.inner.id } }
/// every real cell's mutexes belong to that cell
pub open spec fn cell_wf(c: ActorCell) -> bool {
    c.inner.tree.children.owner == c@ && c.inner.tree.supervisor.owner == c@
}
pub struct KidsMutex { pub ghost owner: ActorId }
pub struct SupMutex { pub ghost owner: ActorId }
pub struct KidsGuard { pub ghost owner: ActorId }
pub struct SupGuard { pub ghost owner: ActorId }
/// `HashMap<ActorId, ActorCell>`: while inside the mutex its content is `heap.kids[owner]`; once taken out (`detached`) it is
/// the snapshot `content`
pub struct KidsMap { pub ghost owner: ActorId, pub ghost detached: bool, pub ghost content: Set<ActorId> }
pub struct VxLock<G> { pub v: G }
pub struct TreeLock { }
pub struct TreeLockGuard { }
pub const TREE_LOCK: TreeLock = TreeLock { };
/// where an id sits in a collected vector (witness function for `vx_into_values_collect`)
pub uninterp spec fn pos(v: Seq<ActorCell>, a: ActorId) -> int;
} // verus!

#[verus_verify]
impl<G> VxLock<G> {
    #[verus_verify(external_body)]
    #[verus_spec(r => ensures r == self.v)]
    pub fn unwrap(self) -> G { unimplemented!() }
}

#[verus_verify]
impl TreeLock {
    /// taking the global mutation lock; every mutating stand-in below requires it
    #[verus_verify(external_body)]
    #[verus_spec(r =>
        with Tracked(heap): Tracked<&mut TreeHeap>
        ensures final(heap).locked, final(heap).kids == old(heap).kids, final(heap).sup == old(heap).sup, final(heap).status == old(heap).status, final(heap).killed == old(heap).killed
    )]
    pub fn lock(&self) -> VxLock<TreeLockGuard> { unimplemented!() }
}

#[verus_verify]
impl KidsMutex {
    #[verus_verify(external_body)]
    #[verus_spec(r => ensures r.v.owner == self.owner)]
    pub fn lock(&self) -> VxLock<KidsGuard> { unimplemented!() }
}
#[verus_verify]
impl SupMutex {
    #[verus_verify(external_body)]
    #[verus_spec(r => ensures r.v.owner == self.owner)]
    pub fn lock(&self) -> VxLock<SupGuard> { unimplemented!() }
}

#[verus_verify]
impl KidsGuard {
    /// `guard.as_mut()` on `MutexGuard<Option<HashMap>>`
    #[verus_verify(external_body)]
    #[verus_spec(r =>
        with Tracked(heap): Tracked<&mut TreeHeap>
        ensures
            *final(heap) == *old(heap), final(self).owner == old(self).owner,
            (r is Some) == (old(heap).kids[old(self).owner] is Some),
            r matches Some(m) ==> m.owner == old(self).owner && !m.detached,
    )]
    pub fn as_mut(&mut self) -> Option<&mut KidsMap> { unimplemented!() }

    /// `guard.take()`: leaves `None` in the mutex for good
    #[verus_verify(external_body)]
    #[verus_spec(r =>
        with Tracked(heap): Tracked<&mut TreeHeap>
        requires old(heap).locked
        ensures
            final(self).owner == old(self).owner,
            final(heap).kids == old(heap).kids.insert(old(self).owner, None),
            final(heap).sup == old(heap).sup, final(heap).status == old(heap).status, final(heap).locked == old(heap).locked, final(heap).killed == old(heap).killed,
            (r is Some) == (old(heap).kids[old(self).owner] is Some),
            r matches Some(m) ==> m.detached && m.owner == old(self).owner && m.content == old(heap).kids[old(self).owner].unwrap(),
    )]
    pub fn take(&mut self) -> Option<KidsMap> { unimplemented!() }
}

#[verus_verify]
impl KidsMap {
    #[verus_verify(external_body)]
    #[verus_spec(r =>
        with Tracked(heap): Tracked<&mut TreeHeap>
        requires old(heap).locked, !old(self).detached, old(heap).kids[old(self).owner] is Some, k == v@, cell_wf(v)
        ensures
            *final(self) == *old(self),
            final(heap).kids == old(heap).kids.insert(old(self).owner, Some(old(heap).kids[old(self).owner].unwrap().insert(k))),
            final(heap).sup == old(heap).sup, final(heap).status == old(heap).status, final(heap).locked == old(heap).locked, final(heap).killed == old(heap).killed,
    )]
    pub fn insert(&mut self, k: ActorId, v: ActorCell) -> Option<ActorCell> { unimplemented!() }

    #[verus_verify(external_body)]
    #[verus_spec(r =>
        with Tracked(heap): Tracked<&mut TreeHeap>
        requires old(heap).locked, !old(self).detached, old(heap).kids[old(self).owner] is Some
        ensures
            *final(self) == *old(self),
            final(heap).kids == old(heap).kids.insert(old(self).owner, Some(old(heap).kids[old(self).owner].unwrap().remove(*k))),
            final(heap).sup == old(heap).sup, final(heap).status == old(heap).status, final(heap).locked == old(heap).locked, final(heap).killed == old(heap).killed,
    )]
    pub fn remove(&mut self, k: &ActorId) -> Option<ActorCell> { unimplemented!() }

    /// `map.into_values().collect::<Vec<_>>()` (R22): every stored cell exactly once, in unspecified order
    #[verus_verify(external_body)]
    #[verus_spec(r =>
        requires self.detached
        ensures
            forall|j: int| 0 <= j < r@.len() ==> self.content.contains(#[trigger] r@[j]@) && cell_wf(r@[j]),
            forall|a: ActorId| #[trigger] self.content.contains(a) ==> 0 <= pos(r@, a) < r@.len() && r@[pos(r@, a)]@ == a,
    )]
    pub fn vx_into_values_collect(self) -> Vec<ActorCell> { unimplemented!() }
}

#[verus_verify]
impl SupGuard {
    /// `guard.as_ref()` on `MutexGuard<Option<ActorCell>>`
    #[verus_verify(external_body)]
    #[verus_spec(r =>
        with Tracked(heap): Tracked<&mut TreeHeap>
        ensures
            *final(heap) == *old(heap),
            (r is Some) == (old(heap).sup[self.owner] is Some),
            r matches Some(c) ==> Some(c@) == old(heap).sup[self.owner] && cell_wf(*c),
    )]
    pub fn as_ref(&self) -> Option<&ActorCell> { unimplemented!() }

    /// `guard.replace(v)`
    #[verus_verify(external_body)]
    #[verus_spec(r =>
        with Tracked(heap): Tracked<&mut TreeHeap>
        requires old(heap).locked, cell_wf(v)
        ensures
            final(self).owner == old(self).owner,
            final(heap).sup == old(heap).sup.insert(old(self).owner, Some(v@)),
            final(heap).kids == old(heap).kids, final(heap).status == old(heap).status, final(heap).locked == old(heap).locked, final(heap).killed == old(heap).killed,
            (r is Some) == (old(heap).sup[old(self).owner] is Some),
            r matches Some(c) ==> Some(c@) == old(heap).sup[old(self).owner] && cell_wf(c),
    )]
    pub fn replace(&mut self, v: ActorCell) -> Option<ActorCell> { unimplemented!() }

    /// `*guard = v` (R20)
    #[verus_verify(external_body)]
    #[verus_spec(
        with Tracked(heap): Tracked<&mut TreeHeap>
        requires old(heap).locked, v matches Some(c) ==> cell_wf(c)
        ensures
            final(self).owner == old(self).owner,
            final(heap).sup == old(heap).sup.insert(old(self).owner, match v { Some(c) => Some(c@), None => None }),
            final(heap).kids == old(heap).kids, final(heap).status == old(heap).status, final(heap).locked == old(heap).locked, final(heap).killed == old(heap).killed,
    )]
    pub fn vx_store(&mut self, v: Option<ActorCell>) { unimplemented!() }
    /// `guard.take()` (Option::take through the guard): the slot is emptied, whatever it held
    #[verus_verify(external_body)]
    #[verus_spec(r =>
        with Tracked(heap): Tracked<&mut TreeHeap>
        requires old(heap).locked
        ensures
            final(self).owner == old(self).owner,
            final(heap).sup == old(heap).sup.insert(old(self).owner, None),
            final(heap).kids == old(heap).kids, final(heap).status == old(heap).status, final(heap).locked == old(heap).locked, final(heap).killed == old(heap).killed,
    )]
    pub fn take(&mut self) -> Option<ActorCell> { unimplemented!() }
}

#[verus_verify]
impl ActorCell {
    #[verus_verify(external_body)]
    #[verus_spec(r => ensures r == self@)]
    pub fn get_id(&self) -> ActorId { unimplemented!() }
    /// the status read happens while the global lock is held
    #[verus_verify(external_body)]
    #[verus_spec(r =>
        with Tracked(heap): Tracked<&mut TreeHeap>
        ensures *final(heap) == *old(heap), r == old(heap).status[self@]
    )]
    pub fn get_status(&self) -> ActorStatus { unimplemented!() }
    /// `get_children()`: a snapshot of the child set; the set itself stays as it is
    #[verus_verify(external_body)]
    #[verus_spec(r =>
        with Tracked(heap): Tracked<&mut TreeHeap>
        ensures
            *final(heap) == *old(heap),
            forall|j: int| 0 <= j < r@.len() ==> child_of(*old(heap), (#[trigger] r@[j])@, self@) && cell_wf(r@[j]),
            forall|c: ActorId| old(heap).kids[self@] is Some && #[trigger] old(heap).kids[self@].unwrap().contains(c) ==> 0 <= pos(r@, c) < r@.len() && r@[pos(r@, c)]@ == c,
    )]
    pub fn get_children(&self) -> Vec<ActorCell> { unimplemented!() }
    /// `kill()`: sends the kill signal (C03/C04 say what that does); here only WHO was signalled matters
    #[verus_verify(external_body)]
    #[verus_spec(
        with Tracked(heap): Tracked<&mut TreeHeap>
        ensures
            final(heap).killed == old(heap).killed.insert(self@),
            final(heap).kids == old(heap).kids, final(heap).sup == old(heap).sup, final(heap).status == old(heap).status, final(heap).locked == old(heap).locked,
    )]
    pub fn kill(&self) { unimplemented!() }
}
verus! {
impl Clone for ActorCell {
    #[verifier::external_body]
    fn clone(&self) -> (r: Self) ensures r == *self { unimplemented!() }
}
}
#[verus_verify(external_body)]
pub fn vx_drop<T>(t: T) { }

verus! {
/// `a` is the id of one of the cells in `s` (recursive on the last element: matches how `pop` and `push` take a worklist apart)
pub open spec fn has(s: Seq<ActorCell>, a: ActorId) -> bool
    decreases s.len(),
{
    s.len() > 0 && (s.last()@ == a || has(s.drop_last(), a))
}
pub open spec fn all_wf(s: Seq<ActorCell>) -> bool { forall|i: int| 0 <= i < s.len() ==> cell_wf(#[trigger] s[i]) }

pub proof fn lemma_has_index(s: Seq<ActorCell>, i: int)
    requires 0 <= i < s.len(),
    ensures has(s, s[i]@),
    decreases s.len(),
{
    if i < s.len() - 1 { assert(s.drop_last()[i] == s[i]); lemma_has_index(s.drop_last(), i); }
}
pub proof fn lemma_has_witness(s: Seq<ActorCell>, a: ActorId) -> (i: int)
    requires has(s, a),
    ensures 0 <= i < s.len(), s[i]@ == a,
    decreases s.len(),
{
    if s.last()@ == a { s.len() - 1 } else { let i = lemma_has_witness(s.drop_last(), a); assert(s.drop_last()[i] == s[i]); i }
}
pub proof fn lemma_has_append_rev(s: Seq<ActorCell>, t: Seq<ActorCell>, a: ActorId)
    ensures has(s + t.reverse(), a) <==> has(s, a) || has(t, a),
{
    let u = s + t.reverse();
    if has(s, a) {
        let i = lemma_has_witness(s, a);
        assert(u[i] == s[i]);
        lemma_has_index(u, i);
    }
    if has(t, a) {
        let i = lemma_has_witness(t, a);
        let j = s.len() + (t.len() - 1 - i);
        assert(u[j] == t.reverse()[t.len() - 1 - i]);
        assert(t.reverse()[t.len() - 1 - i] == t[i]);
        lemma_has_index(u, j);
    }
    if has(u, a) {
        let i = lemma_has_witness(u, a);
        if i < s.len() { assert(u[i] == s[i]); lemma_has_index(s, i); }
        else {
            let k = i - s.len();
            assert(u[i] == t.reverse()[k]);
            assert(t.reverse()[k] == t[t.len() - 1 - k]);
            lemma_has_index(t, t.len() - 1 - k);
        }
    }
}
pub proof fn lemma_all_wf_append_rev(s: Seq<ActorCell>, t: Seq<ActorCell>)
    requires all_wf(s), all_wf(t),
    ensures all_wf(s + t.reverse()),
{
    let u = s + t.reverse();
    assert forall|i: int| 0 <= i < u.len() implies cell_wf(#[trigger] u[i]) by {
        if i < s.len() { assert(u[i] == s[i]); }
        else { let k = i - s.len(); assert(u[i] == t.reverse()[k]); assert(t.reverse()[k] == t[t.len() - 1 - k]); }
    }
}

/// what `terminate` leaves behind, relative to the heap `h0` it started from: every child set it closed has all its
/// (then) children closed as well
pub open spec fn closed_downwards(h0: TreeHeap, h1: TreeHeap) -> bool {
    forall|a: ActorId, c: ActorId| h1.kids[a] is None && h0.kids[a] is Some && #[trigger] h0.kids[a].unwrap().contains(c) ==> h1.kids[c] is None
}
/// C05 "takes its whole subtree with it": from `closed_downwards`, every actor reachable from the root along child links of
/// the starting heap (a path `p[0] = root, p[k+1] child of p[k]`) has been visited (its child set closed, kill sent if running)
// @props C05
pub proof fn lemma_whole_subtree(h0: TreeHeap, h1: TreeHeap, root: ActorId, p: Seq<ActorId>)
    requires
        closed_downwards(h0, h1),
        h1.kids[root] is None,
        forall|a: ActorId| h0.kids[a] is None ==> h1.kids[a] is None,
        p.len() >= 1, p[0] == root,
        forall|k: int| 0 <= k < p.len() - 1 ==> child_of(h0, #[trigger] p[k + 1], p[k]),
    ensures h1.kids[p.last()] is None,
    decreases p.len(),
{
    if p.len() > 1 {
        let q = p.drop_last();
        assert forall|k: int| 0 <= k < q.len() - 1 implies child_of(h0, #[trigger] q[k + 1], q[k]) by { assert(q[k + 1] == p[k + 1]); assert(q[k] == p[k]); }
        lemma_whole_subtree(h0, h1, root, q);
        let a = q.last(); let c = p.last();
        assert(p[p.len() - 2] == a);
        assert(child_of(h0, p[(p.len() - 2) + 1], p[p.len() - 2]));
        assert(h0.kids[a].unwrap().contains(c));
    }
}

/// `v.extend(other.into_iter().rev())` (R22): std semantics, trusted
#[verifier::external_body]
pub fn vx_extend_rev_std(v: &mut Vec<ActorCell>, other: Vec<ActorCell>)
    ensures final(v)@ == old(v)@ + other@.reverse(),
{ unimplemented!() }
/// the same with its consequences for the worklist predicates (verified from the std semantics above)
pub fn vx_extend_rev(v: &mut Vec<ActorCell>, other: Vec<ActorCell>)
    ensures
        final(v)@ == old(v)@ + other@.reverse(),
        forall|a: ActorId| #[trigger] has(final(v)@, a) <==> has(old(v)@, a) || has(other@, a),
        forall|i: int| 0 <= i < other@.len() ==> has(final(v)@, (#[trigger] other@[i])@),
        all_wf(old(v)@) && all_wf(other@) ==> all_wf(final(v)@),
{
    let ghost v0 = v@;
    vx_extend_rev_std(v, other);
    proof {
        assert forall|a: ActorId| #[trigger] has(v@, a) <==> has(v0, a) || has(other@, a) by { lemma_has_append_rev(v0, other@, a); }
        assert forall|i: int| 0 <= i < other@.len() implies has(v@, (#[trigger] other@[i])@) by { lemma_has_index(other@, i); lemma_has_append_rev(v0, other@, other@[i]@); }
        if all_wf(v0) && all_wf(other@) { lemma_all_wf_append_rev(v0, other@); }
    }
}
}
