// ---- unit pidregistry: prelude ----
#![feature(proc_macro_hygiene)]
#![allow(unused, non_snake_case, non_camel_case_types, dead_code, unreachable_code, non_upper_case_globals)]
use vstd::prelude::*;
use verus_builtin_macros::{verus_spec, verus_verify, proof, proof_decl};

verus! {
broadcast use effectlog::group_effectlog;

pub type ActorName = String;
/// stand-ins (R9 on trait bounds, via pathmap) for `K: AsRef<str>` / `K: Into<String>`: same method signatures, total,
/// which string they yield is not constrained
pub trait NameRef<T: ?Sized> { fn as_ref(&self) -> &T; }
pub trait NameInto<T>: Sized { fn into(self) -> T; }
/// ActorCell stand-in: opaque handle; `@` = identity of the actor
#[verifier::external_body] pub struct ActorCell { _p: u8 }
impl View for ActorCell { type V = int; uninterp spec fn view(&self) -> int; }
impl Clone for ActorCell {
    #[verifier::external_body]
    fn clone(&self) -> (r: Self) ensures r == *self { unimplemented!() }
}

// ------------------------------------------------------------------ dashmap stand-ins (A-dashmap: each entry operation is atomic for its key)
#[verifier::external_body] pub struct MapRef { _p: u8 }

impl MapRef { pub uninterp spec fn value_view(&self) -> ActorCell; }

// pid registry (cluster builds)
#[verifier::external_body] pub struct PidMap { _p: u8 }
#[verifier::external_body] pub struct PidOccupied { _p: u8 }
#[verifier::external_body] pub struct PidVacant { _p: u8 }
pub enum PidEntry { Occupied(PidOccupied), Vacant(PidVacant) }
pub use PidEntry::{Occupied, Vacant};
impl PidVacant { pub uninterp spec fn key_view(&self) -> ActorId; }
#[verifier::external_body] pub struct ListenerRef { _p: u8 }
#[verifier::external_body] pub struct BoxedState { _p: u8 }
#[verifier::external_body] pub struct ActorProcessingErr { _p: u8 }
#[verifier::external_body] pub struct GroupChangeMessage { _p: u8 }
#[verifier::external_body] pub struct SendFailure { _p: u8 }
/// R16: the text produced by `format!` is not constrained
#[verifier::external_body] pub fn vx_format() -> String { unimplemented!() }

} // verus!

pub mod vocab {
    use super::*;
    verus! {
    pub enum Effect {
        PidEntry(ActorId, bool),
        PidInsert(ActorId, ActorCell),
        /// DashMap::remove(id) on the pid registry and what it held
        PidRemove(ActorId, Option<ActorCell>),
        PidGet(ActorId, Option<ActorCell>),
        /// a pid lifecycle listener was sent an event (spawn?, about which actor)
        NotifyListener(bool, ActorCell),
    }
    pub enum Kind { PidEntry, PidInsert, PidRemove, PidGet, NotifyListener }
    pub open spec fn kind_of(e: Effect) -> Kind {
        match e { Effect::PidEntry(_, _) => Kind::PidEntry, Effect::PidInsert(_, _) => Kind::PidInsert, Effect::PidRemove(_, _) => Kind::PidRemove,
            Effect::PidGet(_, _) => Kind::PidGet, Effect::NotifyListener(_, _) => Kind::NotifyListener }
    }
    }
}
pub use vocab::*;
// @include ../_common/effectlog.rs

verus! {
pub open spec fn pid_entry_occupied(e: Effect) -> bool { match e { Effect::PidEntry(_, o) => o, _ => false } }
pub open spec fn pid_removed(e: Effect) -> Option<ActorCell> { match e { Effect::PidRemove(_, o) => o, _ => None } }
/// all effects added after `a` from relative index `lo` on are notifications of kind (spawn, who)
pub open spec fn only_notifications(a: Seq<Effect>, b: Seq<Effect>, lo: int, spawn: bool, who: ActorCell) -> bool {
    forall|i: int| a.len() + lo <= i < b.len() ==> (#[trigger] b[i]) == Effect::NotifyListener(spawn, who)
}
pub open spec fn event_about(e: SupervisionEvent) -> (bool, ActorCell) {
    match e {
        SupervisionEvent::PidLifecycleEvent(PidLifecycleEvent::Spawn(a)) => (true, a),
        SupervisionEvent::PidLifecycleEvent(PidLifecycleEvent::Terminate(a)) => (false, a),
        SupervisionEvent::ActorStarted(a) => (true, a),
        SupervisionEvent::ActorTerminated(a, _, _) => (false, a),
        SupervisionEvent::ActorFailed(a, _) => (false, a),
        _ => (false, arbitrary()),
    }
}
pub open spec fn is_pid_event(e: SupervisionEvent) -> bool { e is PidLifecycleEvent }
} // verus!

#[verus_verify]
impl MapRef {
    #[verus_verify(external_body)]
    #[verus_spec(r => ensures *r == self.value_view())]
    pub fn value(&self) -> &ActorCell { unimplemented!() }
}

#[verus_verify]
impl PidMap {
    #[verus_verify(external_body)]
    #[verus_spec(r =>
        with Tracked(log): Tracked<&mut EffectLog>
        ensures
            final(log).s == old(log).s.push(Effect::PidEntry(key, r is Occupied)),
            r matches PidEntry::Vacant(v) ==> v.key_view() == key,
    )]
    pub fn entry(&self, key: ActorId) -> PidEntry { unimplemented!() }
    /// guard stub: no blind overwrite of a pid slot
    #[verus_verify(external_body)]
    #[verus_spec(requires false)]
    pub fn insert(&self, key: ActorId, value: ActorCell) -> Option<ActorCell> { unimplemented!() }
    #[verus_verify(external_body)]
    #[verus_spec(r =>
        with Tracked(log): Tracked<&mut EffectLog>
        ensures final(log).s == old(log).s.push(Effect::PidRemove(*key, match r { Some(x) => Some(x.1), None => None })),
    )]
    pub fn remove(&self, key: &ActorId) -> Option<(ActorId, ActorCell)> { unimplemented!() }
    #[verus_verify(external_body)]
    #[verus_spec(r =>
        with Tracked(log): Tracked<&mut EffectLog>
        ensures final(log).s == old(log).s.push(Effect::PidGet(*key, match r { Some(x) => Some(x.value_view()), None => None })),
    )]
    pub fn get(&self, key: &ActorId) -> Option<MapRef> { unimplemented!() }
}
#[verus_verify]
impl PidVacant {
    #[verus_verify(external_body)]
    #[verus_spec(
        with Tracked(log): Tracked<&mut EffectLog>
        ensures final(log).s == old(log).s.push(Effect::PidInsert(self.key_view(), value)),
    )]
    pub fn insert(self, value: ActorCell) { unimplemented!() }
}
#[verus_verify]
impl PidOccupied {
    #[verus_verify(external_body)]
    #[verus_spec(requires false)]
    pub fn insert(&mut self, value: ActorCell) -> ActorCell { unimplemented!() }
}
#[verus_verify]
impl ListenerRef {
    #[verus_verify(external_body)]
    pub fn value(&self) -> &ActorCell { unimplemented!() }
}
#[verus_verify]
impl ActorCell {
    /// a listener is sent a supervision event (guard: only pid lifecycle events go to pid listeners)
    #[verus_verify(external_body)]
    #[verus_spec(r =>
        with Tracked(log): Tracked<&mut EffectLog>
        requires is_pid_event(message),
        ensures final(log).s == old(log).s.push(Effect::NotifyListener(event_about(message).0, event_about(message).1)),
    )]
    pub fn send_supervisor_evt(&self, message: SupervisionEvent) -> Result<(), SendFailure> { unimplemented!() }
}
#[verus_verify(external_body)]
pub fn get_pid_registry() -> &'static PidMap { unimplemented!() }
#[verus_verify(external_body)]
pub fn get_pid_listeners() -> &'static Vec<ListenerRef> { unimplemented!() }
