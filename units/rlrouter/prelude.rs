// ---- unit rlrouter: RateLimitedRouter::route_message against the abstract RateLimiter / inner Router contracts ----
#![feature(proc_macro_hygiene)]
#![allow(unused, non_snake_case, non_camel_case_types, dead_code, unreachable_code)]
use vstd::prelude::*;
use verus_builtin_macros::{verus_spec, verus_verify, proof, proof_decl};

verus! {
pub type WorkerId = usize;
pub trait JobKey: Sized {}
pub trait Message: Sized {}
#[verifier::external_body] pub struct ActorProcessingErr { _p: u8 }
#[verifier::external_body] pub struct JobOptions { _p: u8 }
#[verifier::external_body] #[verifier::reject_recursive_types(K)] #[verifier::reject_recursive_types(M)]
pub struct ReplyPort<K, M> { _p: core::marker::PhantomData<(K, M)> }
#[verifier::external_body] #[verifier::reject_recursive_types(K)] #[verifier::reject_recursive_types(M)]
pub struct WorkerProperties<K, M> { _p: core::marker::PhantomData<(K, M)> }
/// the pool (R9 stand-in); `@` = ghost history of job identities handed to workers
#[verifier::external_body] #[verifier::reject_recursive_types(K)] #[verifier::reject_recursive_types(M)]
pub struct Pool<K, M> { _p: core::marker::PhantomData<(K, M)> }
impl<K, M> View for Pool<K, M> { type V = Seq<int>; uninterp spec fn view(&self) -> Seq<int>; }
impl<K, M> WorkerProperties<K, M> {
    pub uninterp spec fn available(&self) -> bool;
    #[verifier::external_body]
    pub fn is_available(&self) -> (r: bool) ensures r == self.available() { unimplemented!() }
}
impl<K, M> Pool<K, M> {
    #[verifier::external_body]
    pub fn get(&self, wid: &WorkerId) -> (r: Option<&WorkerProperties<K, M>>) { unimplemented!() }
}
pub uninterp spec fn jid_of<K, M>(k: K, m: M) -> int;
/// A-std: Option::is_some_and
pub assume_specification<T, F: FnOnce(T) -> bool> [Option::<T>::is_some_and] (o: Option<T>, f: F) -> (r: bool)
    requires o is Some ==> f.requires((o.unwrap(),)),
    ensures o is None ==> !r, o is Some ==> f.ensures((o.unwrap(),), r);

/// RateLimiter stand-in with a ghost balance: `check` may refill, `bump` takes one token if there is one
/// (contracts proved for LeakyBucketRateLimiter in unit ratelim)
pub trait RateLimiter: Sized {
    spec fn balance(&self) -> nat;
    /// number of `bump` calls so far (ghost history)
    spec fn bumps(&self) -> nat;
    /// what the most recent `check` answered (ghost)
    spec fn last_check(&self) -> bool;
    fn check(&mut self) -> (r: bool)
        ensures r == (final(self).balance() > 0), final(self).bumps() == old(self).bumps(), final(self).last_check() == r;
    fn bump(&mut self)
        ensures final(self).bumps() == old(self).bumps() + 1, final(self).last_check() == old(self).last_check(),
            final(self).balance() == (if old(self).balance() > 0 { (old(self).balance() - 1) as nat } else { 0nat });
}
/// inner Router stand-in; `notes()` = ghost history of availability notifications it received
pub trait Router<TKey: JobKey, TMsg: Message>: Sized {
    spec fn notes(&self) -> Seq<(WorkerId, bool)>;
    /// number of route_message calls so far
    spec fn routed_calls(&self) -> nat;
    fn route_message(&mut self, job: Job<TKey, TMsg>, pool_size: usize, worker_hint: Option<WorkerId>, worker_pool: &mut Pool<TKey, TMsg>)
        -> (r: Result<RouteResult<TKey, TMsg>, ActorProcessingErr>)
        ensures
            final(self).routed_calls() == old(self).routed_calls() + 1,
            final(self).notes() == old(self).notes(),
            r matches Ok(RouteResult::Handled) ==> final(worker_pool)@ == old(worker_pool)@.push(jid(job)),
            r matches Ok(RouteResult::Backlog(j)) ==> final(worker_pool)@ == old(worker_pool)@ && j == job,
            r matches Ok(RouteResult::RateLimited(j)) ==> final(worker_pool)@ == old(worker_pool)@ && j == job,
            r is Err ==> final(worker_pool)@ == old(worker_pool)@;
    fn on_worker_availability_change(&mut self, wid: WorkerId, available: bool)
        ensures final(self).notes() == old(self).notes().push((wid, available)), final(self).routed_calls() == old(self).routed_calls();
}
pub open spec fn jid<K: JobKey, M: Message>(j: Job<K, M>) -> int { jid_of(j.key, j.msg) }
} // verus!
