// ---- unit supsend: prelude ----
#![feature(proc_macro_hygiene)]
#![allow(unused, non_snake_case, non_camel_case_types, dead_code, unreachable_code, non_upper_case_globals)]
use vstd::prelude::*;
use verus_builtin_macros::{verus_spec, verus_verify, proof, proof_decl};
use vstd::std_specs::cmp::*;

verus! {
broadcast use effectlog::group_effectlog;
#[verifier::external_body] pub struct Opaque { _p: u8 }
/// the event is opaque here: only its identity matters
#[verifier::external_body] pub struct SupervisionEvent { _p: u8 }
/// tokio's SendError: carries the rejected item
pub struct SendError<T>(pub T);
/// the unbounded supervision channel's sender (A-chan: send either queues the item or hands it back)
#[verifier::external_body] pub struct SupPort { _p: u8 }
#[verifier::external_body] pub struct StatusWord { _p: u8 }

// A-std: derive(PartialEq, PartialOrd) on the fieldless repr(u8) enum ActorStatus compares discriminants
pub open spec fn status_cmp(a: ActorStatus, b: ActorStatus) -> Option<core::cmp::Ordering> {
    if (a as u8) < (b as u8) { Some(core::cmp::Ordering::Less) }
    else if (a as u8) == (b as u8) { Some(core::cmp::Ordering::Equal) }
    else { Some(core::cmp::Ordering::Greater) }
}
pub assume_specification [<ActorStatus as PartialEq>::eq] (a: &ActorStatus, b: &ActorStatus) -> (r: bool)
    ensures r == (*a == *b);
pub assume_specification [<ActorStatus as PartialOrd>::partial_cmp] (a: &ActorStatus, b: &ActorStatus) -> (r: Option<core::cmp::Ordering>)
    ensures r == status_cmp(*a, *b);
impl PartialOrdSpecImpl for ActorStatus {
    open spec fn obeys_partial_cmp_spec() -> bool { true }
    open spec fn partial_cmp_spec(&self, b: &ActorStatus) -> Option<core::cmp::Ordering> { status_cmp(*self, *b) }
}
impl PartialEqSpecImpl for ActorStatus {
    open spec fn obeys_eq_spec() -> bool { true }
    open spec fn eq_spec(&self, b: &ActorStatus) -> bool { *self == *b }
}
/// specification of the extracted `impl From<SendError<T>> for MessagingErr<T>` (verified against its body)
impl<T> vstd::std_specs::convert::FromSpecImpl<SendError<T>> for MessagingErr<T> {
    open spec fn obeys_from_spec() -> bool { true }
    open spec fn from_spec(v: SendError<T>) -> MessagingErr<T> { MessagingErr::SendErr(v.0) }
}
} // verus!

pub mod vocab {
    use super::*;
    verus! {
    pub enum Effect {
        /// the event was offered to the supervision channel; `true` = the channel took it
        SupSend(SupervisionEvent, bool),
    }
    pub enum Kind { SupSend }
    pub open spec fn kind_of(e: Effect) -> Kind { Kind::SupSend }
    }
}
pub use vocab::*;
// @include ../_common/effectlog.rs

#[verus_verify]
impl SupPort {
    #[verus_verify(external_body)]
    #[verus_spec(r =>
        with Tracked(log): Tracked<&mut EffectLog>
        ensures
            final(log).s == old(log).s.push(Effect::SupSend(item, r is Ok)),
            r matches Err(e) ==> e.0 == item,
    )]
    pub fn send(&self, item: SupervisionEvent) -> Result<(), SendError<SupervisionEvent>> { unimplemented!() }
}

#[verus_verify]
impl ActorProperties {
    /// reading the status is harmless in itself; the contract of send_supervisor_evt does not allow the outcome to depend on it
    #[verus_verify(external_body)]
    pub fn get_status(&self) -> ActorStatus { unimplemented!() }
}
