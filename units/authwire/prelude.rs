// ---- unit authwire: how NodeSession::handle_auth acts on the verdict of the handshake state machines (C17), and the order in which
// ---- it tells the node server about a peer (C18) ----
#![feature(proc_macro_hygiene)]
#![allow(unused, non_snake_case, non_camel_case_types, dead_code, unreachable_code)]
use vstd::prelude::*;
use verus_builtin_macros::{verus_spec, verus_verify, proof, proof_decl};

verus! {
broadcast use effectlog::group_effectlog;
global size_of usize == 8;
pub type NodeId = u64;
#[verifier::external_body] pub struct Opaque { _p: u8 }
#[verifier::external_body] pub struct Duration { _p: u8 }
#[verifier::external_body] pub struct MessagingErr { _p: u8 }
/// `ActorRef<NodeSessionMessage>` (this session), `ActorRef<NodeServerMessage>`, `ActorRef<SessionMessage>` (the tcp session)
#[verifier::external_body] pub struct SessionRef { _p: u8 }
#[verifier::external_body] pub struct NodeServerRef { _p: u8 }
#[verifier::external_body] pub struct TcpRef { _p: u8 }
/// the reply port of CheckSession
#[verifier::external_body] pub struct CheckReplyPort { _p: u8 }
pub enum CallResult<T> { Success(T), Timeout, SenderError }
/// the two NodeServerMessage variants handle_auth builds
pub enum NodeServerMessage {
    UpdateSession { actor_id: ActorId, name: NameMessage },
    CheckSession { peer_name: NameMessage, reply: CheckReplyPort },
}
/// the actor struct: the fields handle_auth reads
pub struct NodeSession { pub node_id: NodeId, pub cookie: String, pub node_server: NodeServerRef, pub this_node_name: NameMessage, pub connection_id: u64 }
/// the session state: the fields handle_auth reads or writes (the real struct has more: remote actors, ready state, timers)
pub struct NodeSessionState { pub auth: AuthenticationState, pub name: Option<NameMessage>, pub connection_id: u64, pub tcp: Option<TcpRef> }

pub open spec fn authed(a: AuthenticationState) -> bool {
    match a { AuthenticationState::AsClient(c) => c is Ok, AuthenticationState::AsServer(s) => s is Ok }
}
pub open spec fn closed_auth(a: AuthenticationState) -> bool {
    match a { AuthenticationState::AsClient(c) => c is Close, AuthenticationState::AsServer(s) => s is Close }
}
/// the state machines of ractor_cluster/src/node/auth.rs as relations (their contracts are PROVED in unit auth; here they are the
/// assumed contracts of the callees): `cli_ok(old, msg)` = the only situation in which `ClientAuthenticationProcess::next` returns Ok
pub open spec fn cli_ok(s: ClientAuthenticationProcess, m: AuthenticationMessage) -> bool {
    s matches ClientAuthenticationProcess::WaitingForServerChallengeAck(_, _, _, e) && (m.msg matches Some(Msg::ServerAck(ack)) && ack.digest@ == e@)
}
pub open spec fn srv_ok(s: ServerAuthenticationProcess, m: AuthenticationMessage) -> bool {
    s matches ServerAuthenticationProcess::WaitingOnClientChallengeReply(_, d) && (m.msg matches Some(Msg::ClientChallenge(reply)) && reply.digest@ == d@)
}
impl Clone for NameMessage {
    #[verifier::external_body]
    fn clone(&self) -> (r: Self) ensures r == *self { unimplemented!() }
}
pub assume_specification<T: Clone> [<[T]>::to_vec] (s: &[T]) -> (r: Vec<T>)
    ensures r@.len() == s@.len();
} // verus!

pub mod vocab {
    use super::*;
    verus! {
    pub enum Effect {
        /// an authentication message was handed to the tcp session for sending
        TcpSend,
        /// the node server was told this session's peer name and nonce (UpdateSession)
        UpdateSession,
        /// the node server was asked whether this connection may continue (CheckSession)
        CheckSession,
        /// this session actor / its tcp session was told to stop
        StopSelf,
        StopTcp,
    }
    pub enum Kind { TcpSend, UpdateSession, CheckSession, StopSelf, StopTcp }
    pub open spec fn kind_of(e: Effect) -> Kind {
        match e { Effect::TcpSend => Kind::TcpSend, Effect::UpdateSession => Kind::UpdateSession, Effect::CheckSession => Kind::CheckSession, Effect::StopSelf => Kind::StopSelf, Effect::StopTcp => Kind::StopTcp }
    }
    }
}
pub use vocab::*;
// @include ../_common/effectlog.rs

#[verus_verify]
impl ClientAuthenticationProcess {
    /// PROVED in unit auth (close_is_absorbing, ok_only_with_the_expected_digest)
    #[verus_verify(external_body)]
    #[verus_spec(r => ensures *self is Close ==> r is Close, r is Ok ==> cli_ok(*self, auth_message), *self is Ok ==> r is Close)]
    pub fn next(&self, auth_message: AuthenticationMessage, cookie: &str) -> ClientAuthenticationProcess { unimplemented!() }
}
#[verus_verify]
impl ServerAuthenticationProcess {
    #[verus_verify(external_body)]
    #[verus_spec(r => ensures *self is Close ==> r is Close, r is Ok ==> srv_ok(*self, auth_message), *self is Ok ==> r is Close)]
    pub fn next(&self, auth_message: AuthenticationMessage, cookie: &str) -> ServerAuthenticationProcess { unimplemented!() }
    /// PROVED in unit auth (never_ok, close_is_absorbing)
    #[verus_verify(external_body)]
    #[verus_spec(r => ensures !(r is Ok), self is Close ==> r is Close)]
    pub fn start_challenge(self, cookie: &str) -> ServerAuthenticationProcess { unimplemented!() }
}
#[verus_verify]
impl ServerStatus {
    /// prost accessor: the enum value of the i32 field (unknown values fall back to the default)
    #[verus_verify(external_body)]
    pub fn status(&self) -> Status { unimplemented!() }
}
verus! {
impl core::convert::From<Status> for i32 {
    #[verifier::external_body]
    fn from(s: Status) -> (r: i32) { unimplemented!() }
}
impl vstd::std_specs::convert::FromSpecImpl<Status> for i32 {
    open spec fn obeys_from_spec() -> bool { false }
    uninterp spec fn from_spec(v: Status) -> i32;
}
impl vstd::std_specs::convert::FromSpecImpl<SessionCheckReply> for Status {
    open spec fn obeys_from_spec() -> bool { false }
    uninterp spec fn from_spec(v: SessionCheckReply) -> Status;
}
}
#[verus_verify]
impl Duration {
    #[verus_verify(external_body)]
    pub fn from_millis(ms: u64) -> Duration { unimplemented!() }
}
#[verus_verify]
impl SessionRef {
    #[verus_verify(external_body)]
    pub fn get_id(&self) -> ActorId { unimplemented!() }
    #[verus_verify(external_body)]
    #[verus_spec(
        with Tracked(log): Tracked<&mut EffectLog>
        ensures final(log).s == old(log).s.push(Effect::StopSelf))]
    pub fn stop(&self, reason: Option<String>) { unimplemented!() }
}
#[verus_verify]
impl TcpRef {
    #[verus_verify(external_body)]
    #[verus_spec(
        with Tracked(log): Tracked<&mut EffectLog>
        ensures final(log).s == old(log).s.push(Effect::StopTcp))]
    pub fn stop(&self, reason: Option<String>) { unimplemented!() }
}
#[verus_verify]
impl NodeServerRef {
    #[verus_verify(external_body)]
    #[verus_spec(r =>
        with Tracked(log): Tracked<&mut EffectLog>
        requires msg is UpdateSession
        ensures final(log).s == old(log).s.push(Effect::UpdateSession))]
    pub fn cast(&self, msg: NodeServerMessage) -> Result<(), MessagingErr> { unimplemented!() }
    /// R7 (await erased): the RPC to the node server; the builder must produce a CheckSession request
    #[verus_verify(external_body)]
    #[verus_spec(r =>
        with Tracked(log): Tracked<&mut EffectLog>
        requires forall|p: CheckReplyPort| f.requires((p,)), forall|p: CheckReplyPort, m: NodeServerMessage| f.ensures((p,), m) ==> m is CheckSession
        ensures final(log).s == old(log).s.push(Effect::CheckSession))]
    pub fn call<F: FnOnce(CheckReplyPort) -> NodeServerMessage>(&self, f: F, timeout: Option<Duration>) -> Result<CallResult<SessionCheckReply>, MessagingErr> { unimplemented!() }
}
#[verus_verify]
impl NodeSessionState {
    /// the real method casts the wrapped message to the tcp session if there is one
    #[verus_verify(external_body)]
    #[verus_spec(
        with Tracked(log): Tracked<&mut EffectLog>
        ensures final(log).s == old(log).s.push(Effect::TcpSend))]
    pub fn tcp_send_auth(&self, msg: AuthenticationMessage) { unimplemented!() }
}
