// ---- unit ctlrecv: prelude (NodeSession::handle_control, arms Ready / Spawn / Terminate: what the receiving side does with the peer's
// advertisement -- one remote reference per advertised actor, references of terminated actors stopped and forgotten) ----
#![feature(proc_macro_hygiene)]
#![allow(unused, non_snake_case, non_camel_case_types, dead_code, unreachable_code)]
use vstd::prelude::*;
use verus_builtin_macros::{verus_spec, verus_verify, proof, proof_decl};

verus! {
broadcast use effectlog::group_effectlog;
#[verifier::external_body] pub struct Opaque { _p: u8 }
#[verifier::external_body] pub struct SessionRef { _p: u8 }
#[verifier::external_body] pub struct ServerRef { _p: u8 }
#[verifier::external_body] pub struct Timestamp { _p: u8 }
#[verifier::external_body] pub struct ActorId { _p: u8 }
#[verifier::external_body] pub struct ActorProcessingErr { _p: u8 }
#[verifier::external_body] pub struct SpawnErr { _p: u8 }
#[verifier::external_body] pub struct MessagingErr { _p: u8 }
#[verifier::external_body] pub struct StopErr { _p: u8 }
#[verifier::external_body] pub struct Duration { _p: u8 }
#[verifier::external_body] pub struct NodeServerMessage { _p: u8 }
#[verifier::external_body] pub struct PidSet { _p: u8 }
pub enum RactorErr { Messaging(MessagingErr), Other }
impl RactorErr {
    /// `RactorErr::from(MessagingErr)` (From impl in ractor/src/errors.rs)
    #[verifier::external_body]
    pub fn from(e: MessagingErr) -> (r: RactorErr) { unimplemented!() }
}
impl core::convert::From<RactorErr> for ActorProcessingErr {
    #[verifier::external_body]
    fn from(e: RactorErr) -> (r: Self) { unimplemented!() }
}
impl core::convert::From<StopErr> for ActorProcessingErr {
    #[verifier::external_body]
    fn from(e: StopErr) -> (r: Self) { unimplemented!() }
}
/// the authentication state (R9): only asked whether authentication has completed
#[verifier::external_body] pub struct AuthState { _p: u8 }
impl AuthState {
    pub uninterp spec fn ok(&self) -> bool;
    #[verifier::external_body]
    pub fn is_ok(&self) -> (r: bool) ensures r == self.ok() { unimplemented!() }
}
impl SessionRef {
    #[verifier::external_body]
    pub fn get_id(&self) -> ActorId { unimplemented!() }
}
#[verifier::external_body]
pub fn vx_connection_ready(id: ActorId) -> NodeServerMessage { unimplemented!() }
#[verifier::external_body]
pub fn vx_reason_remote() -> String { unimplemented!() }
/// R19b: the arms of `handle_control` that are not kept (Ping, Pong, PgJoin, PgLeave, EnumerateNodeSessions, NodeSessions): nothing is
/// said about them here
#[verifier::external_body]
pub fn vx_rest_tail() { unimplemented!() }

/// the proxy actor for one remote pid
#[verifier::external_body] pub struct RemoteRef { _p: u8 }
impl RemoteRef {
    pub uninterp spec fn rid(&self) -> u64;
    #[verifier::external_body]
    pub fn get_id(&self) -> ActorId { unimplemented!() }
}
/// HashMap<u64, ActorRef<RemoteActorMessage>> stand-in: `@` = the remote pids that have a proxy
#[verifier::external_body] pub struct RemoteActors { _p: u8 }
impl View for RemoteActors { type V = Set<u64>; uninterp spec fn view(&self) -> Set<u64>; }
} // verus!

pub mod vocab {
    use super::*;
    verus! {
    pub enum Effect {
        /// get_or_spawn_remote_actor(pid, name): a proxy for that remote actor exists afterwards, unless spawning failed
        SpawnRemote(u64, Option<String>),
        /// the proxy of remote pid was taken out of the session's table
        Removed(u64),
        /// that proxy was stopped (and the stop awaited)
        Stopped(u64),
        /// the node server was told that this session is ready
        ServerReady,
    }
    pub enum Kind { SpawnRemote, Removed, Stopped, ServerReady }
    pub open spec fn kind_of(e: Effect) -> Kind {
        match e {
            Effect::SpawnRemote(_, _) => Kind::SpawnRemote,
            Effect::Removed(_) => Kind::Removed,
            Effect::Stopped(_) => Kind::Stopped,
            Effect::ServerReady => Kind::ServerReady,
        }
    }
    }
}
pub use vocab::*;
// @include ../_common/effectlog.rs

#[verus_verify]
impl ServerRef {
    #[verus_verify(external_body)]
    #[verus_spec(r =>
        with Tracked(log): Tracked<&mut EffectLog>
        ensures final(log).s == old(log).s.push(Effect::ServerReady))]
    pub fn cast(&self, m: NodeServerMessage) -> Result<(), MessagingErr> { unimplemented!() }
}
#[verus_verify]
impl RemoteRef {
    #[verus_verify(external_body)]
    #[verus_spec(r =>
        with Tracked(log): Tracked<&mut EffectLog>
        ensures final(log).s == old(log).s.push(Effect::Stopped(self.rid())))]
    pub fn stop_and_wait(&self, reason: Option<String>, timeout: Option<Duration>) -> Result<(), StopErr> { unimplemented!() }
}
#[verus_verify]
impl RemoteActors {
    /// A-std (HashMap::remove)
    #[verus_verify(external_body)]
    #[verus_spec(r =>
        with Tracked(log): Tracked<&mut EffectLog>
        ensures final(self)@ == old(self)@.remove(*k), r is Some <==> old(self)@.contains(*k),
            r matches Some(a) ==> a.rid() == *k && final(log).s == old(log).s.push(Effect::Removed(*k)),
            r is None ==> final(log).s == old(log).s)]
    pub fn remove(&mut self, k: &u64) -> Option<RemoteRef> { unimplemented!() }
}
#[verus_verify]
impl NodeSession {
    /// looks the pid up in the session's table, spawning a linked proxy actor when there is none (not under contract here: async
    /// spawn). ASSUMED: it never removes a proxy and touches nothing but the proxy table
    #[verus_verify(external_body)]
    #[verus_spec(r =>
        with Tracked(log): Tracked<&mut EffectLog>
        ensures final(log).s == old(log).s.push(Effect::SpawnRemote(actor_pid, actor_name)),
            *final(state) == (NodeSessionState { remote_actors: final(state).remote_actors, ..*old(state) }),
            old(state).remote_actors@.subset_of(final(state).remote_actors@),
            r is Ok ==> final(state).remote_actors@.contains(actor_pid))]
    pub fn get_or_spawn_remote_actor(&self, myself: &SessionRef, actor_name: Option<String>, actor_pid: u64, state: &mut NodeSessionState) -> Result<RemoteRef, SpawnErr> { unimplemented!() }
}

verus! {
/// what receiving an advertisement looks like: one get-or-spawn per advertised actor, in order
pub open spec fn spawn_effects(a: Seq<Actor>) -> Seq<Effect> { a.map_values(|x: Actor| Effect::SpawnRemote(x.pid, x.name)) }
} // verus!
