// ---- unit ctlrecv: prelude (NodeSession::handle_control, arms Ready / Spawn / Terminate: what the receiving side does with the peer's
// advertisement -- one remote reference per advertised actor, references of terminated actors stopped and forgotten) ----
#![feature(proc_macro_hygiene)]
#![allow(unused, non_snake_case, non_camel_case_types, dead_code, unreachable_code)]
use vstd::prelude::*;
use verus_builtin_macros::{verus_spec, verus_verify, proof, proof_decl};

verus! {
broadcast use effectlog::group_effectlog;
#[verifier::external_body] pub struct Opaque { _p: u8 }
#[verifier::external_body] pub struct SessionRef { _p: u8 }
#[verifier::external_body] pub struct ServerRef { _p: u8 }
#[verifier::external_body] pub struct Timestamp { _p: u8 }
#[verifier::external_body] pub struct ActorId { _p: u8 }
#[verifier::external_body] pub struct ActorProcessingErr { _p: u8 }
#[verifier::external_body] pub struct SpawnErr { _p: u8 }
#[verifier::external_body] pub struct MessagingErr { _p: u8 }
#[verifier::external_body] pub struct StopErr { _p: u8 }
#[verifier::external_body] pub struct Duration { _p: u8 }
#[verifier::external_body] pub struct NodeServerMessage { _p: u8 }
#[verifier::external_body] pub struct PidSet { _p: u8 }
pub enum RactorErr { Messaging(MessagingErr), Other }
impl RactorErr {
    /// `RactorErr::from(MessagingErr)` (From impl in ractor/src/errors.rs)
    #[verifier::external_body]
    pub fn from(e: MessagingErr) -> (r: RactorErr) { unimplemented!() }
}
impl core::convert::From<RactorErr> for ActorProcessingErr {
    #[verifier::external_body]
    fn from(e: RactorErr) -> (r: Self) { unimplemented!() }
}
impl core::convert::From<StopErr> for ActorProcessingErr {
    #[verifier::external_body]
    fn from(e: StopErr) -> (r: Self) { unimplemented!() }
}
/// the authentication state (R9): only asked whether authentication has completed
#[verifier::external_body] pub struct AuthState { _p: u8 }
impl AuthState {
    pub uninterp spec fn ok(&self) -> bool;
    #[verifier::external_body]
    pub fn is_ok(&self) -> (r: bool) ensures r == self.ok() { unimplemented!() }
}
impl SessionRef {
    #[verifier::external_body]
    pub fn get_id(&self) -> ActorId { unimplemented!() }
}
#[verifier::external_body]
pub fn vx_connection_ready(id: ActorId) -> NodeServerMessage { unimplemented!() }
#[verifier::external_body]
pub fn vx_reason_remote() -> String { unimplemented!() }
/// R19b: the arms of `handle_control` that are not kept (Ping, Pong, PgJoin, PgLeave, EnumerateNodeSessions, NodeSessions): nothing is
/// said about them here
#[verifier::external_body]
pub fn vx_rest_tail() { unimplemented!() }

/// the proxy actor for one remote pid
#[verifier::external_body] pub struct RemoteRef { _p: u8 }
impl RemoteRef {
    pub uninterp spec fn rid(&self) -> u64;
    #[verifier::external_body]
    pub fn get_id(&self) -> ActorId { unimplemented!() }
    #[verifier::external_body]
    pub fn get_cell(&self) -> (r: ActorCell) ensures r.rid() == self.rid() { unimplemented!() }
}
/// the cell of a proxy: which remote pid it stands for
#[verifier::external_body] pub struct ActorCell { _p: u8 }
impl ActorCell { pub uninterp spec fn rid(&self) -> u64; }
pub open spec fn rids(c: Seq<ActorCell>) -> Seq<u64> { c.map_values(|x: ActorCell| x.rid()) }
/// HashMap<u64, ActorRef<RemoteActorMessage>> stand-in: `@` = the remote pids that have a proxy
#[verifier::external_body] pub struct RemoteActors { _p: u8 }
impl View for RemoteActors { type V = Set<u64>; uninterp spec fn view(&self) -> Set<u64>; }
impl RemoteActors {
    /// A-std (HashMap::get): the proxy recorded for `k`, if any; it stands for `k` (unit proxytable keeps the table keyed by pid)
    #[verifier::external_body]
    pub fn get(&self, k: &u64) -> (r: Option<&RemoteRef>)
        ensures r is Some <==> self@.contains(*k), r matches Some(x) ==> x.rid() == *k,
    { unimplemented!() }
}
} // verus!

pub mod vocab {
    use super::*;
    verus! {
    pub enum Effect {
        /// get_or_spawn_remote_actor(pid, name): a proxy for that remote actor exists afterwards, unless spawning failed (the flag)
        SpawnRemote(u64, Option<String>, bool),
        /// the proxies standing for these remote pids joined / left the local process group (scope, group)
        GroupJoin(String, String, Seq<u64>),
        GroupLeave(String, String, Seq<u64>),
        /// the proxy of remote pid was taken out of the session's table
        Removed(u64),
        /// that proxy was stopped (and the stop awaited)
        Stopped(u64),
        /// the node server was told that this session is ready
        ServerReady,
    }
    pub enum Kind { SpawnRemote, Removed, Stopped, ServerReady, GroupJoin, GroupLeave }
    pub open spec fn kind_of(e: Effect) -> Kind {
        match e {
            Effect::SpawnRemote(_, _, _) => Kind::SpawnRemote,
            Effect::GroupJoin(_, _, _) => Kind::GroupJoin,
            Effect::GroupLeave(_, _, _) => Kind::GroupLeave,
            Effect::Removed(_) => Kind::Removed,
            Effect::Stopped(_) => Kind::Stopped,
            Effect::ServerReady => Kind::ServerReady,
        }
    }
    }
}
pub use vocab::*;
// @include ../_common/effectlog.rs

#[verus_verify]
impl ServerRef {
    #[verus_verify(external_body)]
    #[verus_spec(r =>
        with Tracked(log): Tracked<&mut EffectLog>
        ensures final(log).s == old(log).s.push(Effect::ServerReady))]
    pub fn cast(&self, m: NodeServerMessage) -> Result<(), MessagingErr> { unimplemented!() }
}
#[verus_verify]
impl RemoteRef {
    #[verus_verify(external_body)]
    #[verus_spec(r =>
        with Tracked(log): Tracked<&mut EffectLog>
        ensures final(log).s == old(log).s.push(Effect::Stopped(self.rid())))]
    pub fn stop_and_wait(&self, reason: Option<String>, timeout: Option<Duration>) -> Result<(), StopErr> { unimplemented!() }
}
#[verus_verify]
impl RemoteActors {
    /// A-std (HashMap::remove)
    #[verus_verify(external_body)]
    #[verus_spec(r =>
        with Tracked(log): Tracked<&mut EffectLog>
        ensures final(self)@ == old(self)@.remove(*k), r is Some <==> old(self)@.contains(*k),
            r matches Some(a) ==> a.rid() == *k && final(log).s == old(log).s.push(Effect::Removed(*k)),
            r is None ==> final(log).s == old(log).s)]
    pub fn remove(&mut self, k: &u64) -> Option<RemoteRef> { unimplemented!() }
}
#[verus_verify]
impl NodeSession {
    /// looks the pid up in the session's table, spawning a linked proxy actor when there is none (not under contract here: async
    /// spawn). ASSUMED: it never removes a proxy and touches nothing but the proxy table
    #[verus_verify(external_body)]
    #[verus_spec(r =>
        with Tracked(log): Tracked<&mut EffectLog>
        ensures final(log).s == old(log).s.push(Effect::SpawnRemote(actor_pid, actor_name, r is Ok)), r matches Ok(p) ==> p.rid() == actor_pid,
            *final(state) == (NodeSessionState { remote_actors: final(state).remote_actors, ..*old(state) }),
            old(state).remote_actors@.subset_of(final(state).remote_actors@),
            r is Ok ==> final(state).remote_actors@.contains(actor_pid))]
    pub fn get_or_spawn_remote_actor(&self, myself: &SessionRef, actor_name: Option<String>, actor_pid: u64, state: &mut NodeSessionState) -> Result<RemoteRef, SpawnErr> { unimplemented!() }
}

verus! {
/// what receiving an advertisement looks like: one get-or-spawn per advertised actor, in order
/// the `n` effects from position `at` on are the get-or-spawn requests for `a[0..n)`, in order
pub open spec fn requested(l: Seq<Effect>, at: int, a: Seq<Actor>, n: int) -> bool {
    l.len() >= at + n && forall|i: int| 0 <= i < n ==> (#[trigger] l[at + i] matches Effect::SpawnRemote(p, nm, _) && p == a[i].pid && nm == a[i].name)
}
/// pid `k` is among the first `n` listed actors
pub open spec fn listed(a: Seq<Actor>, n: int, k: u64) -> bool { exists|i: int| 0 <= i < n && (#[trigger] a[i]).pid == k }
/// one of those `n` requests, for pid `k`, succeeded
pub open spec fn got(l: Seq<Effect>, at: int, n: int, k: u64) -> bool {
    exists|i: int| 0 <= i < n && (#[trigger] l[at + i] matches Effect::SpawnRemote(p, _, ok) && ok && p == k)
}
pub proof fn lemma_rids_push(c: Seq<ActorCell>, x: ActorCell)
    ensures forall|k: u64| #[trigger] rids(c.push(x)).contains(k) <==> (rids(c).contains(k) || x.rid() == k)
{
    assert(rids(c.push(x)) =~= rids(c).push(x.rid()));
    assert forall|k: u64| #[trigger] rids(c.push(x)).contains(k) <==> (rids(c).contains(k) || x.rid() == k) by {
        vstd::seq_lib::lemma_seq_contains_after_push(rids(c), x.rid(), k);
    }
}
/// `got` only looks at the `n` positions from `at` on: it is the same in every log that agrees there
pub proof fn lemma_got_same(a: Seq<Effect>, b: Seq<Effect>, at: int, n: int)
    requires 0 <= at, 0 <= n, a.len() >= at + n, b.len() >= at + n, forall|i: int| 0 <= i < n ==> #[trigger] a[at + i] == b[at + i],
    ensures forall|k: u64| got(a, at, n, k) == got(b, at, n, k)
{
    assert forall|k: u64| got(a, at, n, k) == got(b, at, n, k) by {
        if got(a, at, n, k) { let i = choose|i: int| 0 <= i < n && (#[trigger] a[at + i] matches Effect::SpawnRemote(p, _, ok) && ok && p == k); assert(a[at + i] == b[at + i]); }
        if got(b, at, n, k) { let i = choose|i: int| 0 <= i < n && (#[trigger] b[at + i] matches Effect::SpawnRemote(p, _, ok) && ok && p == k); assert(a[at + i] == b[at + i]); }
    }
}
pub proof fn lemma_got_step(l: Seq<Effect>, at: int, n: int)
    requires 0 <= at, 0 <= n, l.len() > at + n,
    ensures forall|k: u64| got(l, at, n + 1, k) <==> (got(l, at, n, k) || (l[at + n] matches Effect::SpawnRemote(p, _, ok) && ok && p == k))
{
    assert forall|k: u64| got(l, at, n + 1, k) <==> (got(l, at, n, k) || (l[at + n] matches Effect::SpawnRemote(p, _, ok) && ok && p == k)) by {
        if got(l, at, n + 1, k) { let i = choose|i: int| 0 <= i < n + 1 && (#[trigger] l[at + i] matches Effect::SpawnRemote(p, _, ok) && ok && p == k); if i < n { assert(got(l, at, n, k)); } }
        if got(l, at, n, k) { let i = choose|i: int| 0 <= i < n && (#[trigger] l[at + i] matches Effect::SpawnRemote(p, _, ok) && ok && p == k); assert(0 <= i < n + 1); }
    }
}
pub proof fn lemma_listed_step(a: Seq<Actor>, n: int)
    requires 0 <= n < a.len(),
    ensures forall|k: u64| listed(a, n + 1, k) <==> (listed(a, n, k) || a[n].pid == k)
{
    assert forall|k: u64| listed(a, n + 1, k) <==> (listed(a, n, k) || a[n].pid == k) by {
        if listed(a, n + 1, k) { let i = choose|i: int| 0 <= i < n + 1 && (#[trigger] a[i]).pid == k; if i < n { assert(listed(a, n, k)); } }
        if listed(a, n, k) { let i = choose|i: int| 0 <= i < n && (#[trigger] a[i]).pid == k; assert(0 <= i < n + 1); }
    }
}
} // verus!

#[verus_verify(external_body)]
#[verus_spec(
    with Tracked(log): Tracked<&mut EffectLog>
    ensures final(log).s == old(log).s.push(Effect::GroupJoin(scope, group, rids(cells@))))]
pub fn vx_pg_join_scoped(scope: String, group: String, cells: Vec<ActorCell>) { unimplemented!() }
#[verus_verify(external_body)]
#[verus_spec(
    with Tracked(log): Tracked<&mut EffectLog>
    ensures final(log).s == old(log).s.push(Effect::GroupLeave(scope, group, rids(cells@))))]
pub fn vx_pg_leave_scoped(scope: String, group: String, cells: Vec<ActorCell>) { unimplemented!() }
