// ---- unit advertise: prelude (NodeSession::after_authenticated: what a freshly authenticated session tells its peer about this
// node -- every local actor that supports remoting is advertised and allowed as a target, then the process groups, then Ready) ----
#![feature(proc_macro_hygiene)]
#![allow(unused, non_snake_case, non_camel_case_types, dead_code, unreachable_code)]
use vstd::prelude::*;
use verus_builtin_macros::{verus_spec, verus_verify, proof, proof_decl};

verus! {
broadcast use effectlog::group_effectlog;
#[verifier::external_body] pub struct Opaque { _p: u8 }
#[verifier::external_body] pub struct SessionRef { _p: u8 }
#[verifier::external_body] pub struct Timestamp { _p: u8 }
#[verifier::external_body] pub struct ScopeGroupKey { _p: u8 }
#[verifier::external_body] pub struct ActorId { _p: u8 }

/// ractor::ActorCell stand-in: its pid, its registered name, whether its message type supports remoting
#[verifier::external_body] pub struct ActorCell { _p: u8 }
impl ActorCell {
    pub uninterp spec fn pid(&self) -> u64;
    pub uninterp spec fn name(&self) -> Option<String>;
    pub uninterp spec fn remotable(&self) -> bool;
    #[verifier::external_body]
    pub fn supports_remoting(&self) -> (r: bool) ensures r == self.remotable() { unimplemented!() }
    #[verifier::external_body]
    pub fn get_name(&self) -> (r: Option<String>) ensures r == self.name() { unimplemented!() }
    #[verifier::external_body]
    pub fn get_id(&self) -> (r: ActorId) ensures r.local_pid() == self.pid() { unimplemented!() }
    /// the lifecycle status is NOT modelled: nothing may be concluded from reading it (a decision that depends on it is arbitrary)
    #[verifier::external_body]
    pub fn get_status(&self) -> ActorStatus { unimplemented!() }
}
pub enum ActorStatus { Unstarted, Starting, Running, Upgrading, Draining, Stopping, Stopped }
/// A-std: derive(PartialEq) on the fieldless enum
impl PartialEq for ActorStatus {
    #[verifier::external_body]
    fn eq(&self, o: &ActorStatus) -> (r: bool) ensures r == (*self == *o) { unimplemented!() }
}
impl ActorId {
    pub uninterp spec fn local_pid(&self) -> u64;
    #[verifier::external_body]
    pub fn pid(&self) -> (r: u64) ensures r == self.local_pid() { unimplemented!() }
}
impl SessionRef {
    #[verifier::external_body]
    pub fn get_cell(&self) -> ActorCell { unimplemented!() }
}
impl ScopeGroupKey {
    pub uninterp spec fn scope(&self) -> String;
    pub uninterp spec fn group(&self) -> String;
    #[verifier::external_body]
    pub fn get_scope(&self) -> (r: String) ensures r == self.scope() { unimplemented!() }
    #[verifier::external_body]
    pub fn get_group(&self) -> (r: String) ensures r == self.group() { unimplemented!() }
}
/// the local members of a scoped process group at the moment it is read (A-snapshot, per group)
pub uninterp spec fn members_of(scope: String, group: String) -> Seq<ActorCell>;

/// HashSet<u64> stand-in (A-std)
#[verifier::external_body] pub struct PidSet { _p: u8 }
impl View for PidSet { type V = Set<u64>; uninterp spec fn view(&self) -> Set<u64>; }

pub trait VxClone: Sized {
    fn vx_clone(&self) -> (r: Self) ensures r == *self;
}
impl VxClone for NameMessage {
    #[verifier::external_body]
    fn vx_clone(&self) -> (r: Self) { unimplemented!() }
}

/// the pid registry at the moment of the scan (A-snapshot: one scan per call)
pub uninterp spec fn registry_pids() -> Seq<ActorCell>;
#[verifier::external_body]
pub fn vx_get_all_pids() -> (r: Vec<ActorCell>) ensures r@ == registry_pids() { unimplemented!() }
#[verifier::external_body]
pub fn which_scopes_and_groups() -> Vec<ScopeGroupKey> { unimplemented!() }
#[verifier::external_body]
pub fn get_scoped_local_members(scope: &String, group: &String) -> (r: Vec<ActorCell>) ensures r@ == members_of(*scope, *group) { unimplemented!() }
/// the two `&'static str` notification names of ractor::pg (which name is which does not matter to any contract here)
pub struct NoteName { pub k: u8 }
impl NoteName {
    #[verifier::external_body]
    pub fn to_string(&self) -> String { unimplemented!() }
}
pub const ALL_SCOPES_NOTIFICATION: NoteName = NoteName { k: 0 };
pub const ALL_GROUPS_NOTIFICATION: NoteName = NoteName { k: 1 };

/// R22 stand-in for `v.into_iter().filter(f).map(g).collect::<Vec<_>>()` (A-std), stated over the closures' own postconditions in
/// membership form: every element the filter keeps appears (mapped), and nothing else does
pub open spec fn filter_mapped<T, U>(v: Seq<T>, r: Seq<U>, p: spec_fn(T) -> bool, h: spec_fn(T) -> U) -> bool {
    (forall|k: int| 0 <= k < v.len() && p(#[trigger] v[k]) ==> exists|j: int| 0 <= j < r.len() && #[trigger] r[j] == h(v[k]))
    && (forall|j: int| 0 <= j < r.len() ==> exists|k: int| 0 <= k < v.len() && p(v[k]) && #[trigger] r[j] == h(#[trigger] v[k]))
}
#[verifier::external_body]
pub fn vx_filter_map_collect<T, U, F: Fn(&T) -> bool, G: Fn(T) -> U>(v: Vec<T>, f: F, g: G) -> (r: Vec<U>)
    requires forall|x: &T| f.requires((x,)), forall|x: T| g.requires((x,)),
    ensures forall|p: spec_fn(T) -> bool, h: spec_fn(T) -> U|
        (forall|x: &T, b: bool| f.ensures((x,), b) ==> b == p(*x)) && (forall|x: T, y: U| g.ensures((x,), y) ==> y == h(x))
        ==> #[trigger] filter_mapped(v@, r@, p, h),
{ unimplemented!() }
/// R22 stand-in for `set.extend(v.iter().map(g))` (A-std): the set gains exactly the mapped elements
pub open spec fn extended_by<T>(a: Set<u64>, b: Set<u64>, v: Seq<T>, h: spec_fn(T) -> u64) -> bool {
    forall|u: u64| #[trigger] b.contains(u) <==> (a.contains(u) || exists|j: int| 0 <= j < v.len() && h(#[trigger] v[j]) == u)
}
#[verifier::external_body]
pub fn vx_extend_mapped<T, G: Fn(&T) -> u64>(s: &mut PidSet, v: &Vec<T>, g: G)
    requires forall|x: &T| g.requires((x,)),
    ensures forall|h: spec_fn(T) -> u64| (forall|x: &T, y: u64| g.ensures((x,), y) ==> y == h(*x)) ==> #[trigger] extended_by(old(s)@, final(s)@, v@, h),
{ unimplemented!() }
} // verus!

pub mod vocab {
    use super::*;
    verus! {
    pub enum Effect {
        /// a control message was handed to the connection's writer
        Control(ControlMessage),
        /// the session subscribed to pid lifecycle events
        MonitorPids,
        /// the session subscribed to process-group (scope) notifications
        MonitorPg,
        /// the heartbeat task was started
        PingLoop,
    }
    pub enum Kind { Spawn, PgJoin, Ready, OtherControl, MonitorPids, MonitorPg, PingLoop }
    pub open spec fn kind_of(e: Effect) -> Kind {
        match e {
            Effect::Control(ControlMessage { msg: Some(Msg::Spawn(_)) }) => Kind::Spawn,
            Effect::Control(ControlMessage { msg: Some(Msg::PgJoin(_)) }) => Kind::PgJoin,
            Effect::Control(ControlMessage { msg: Some(Msg::Ready(_)) }) => Kind::Ready,
            Effect::Control(_) => Kind::OtherControl,
            Effect::MonitorPids => Kind::MonitorPids,
            Effect::MonitorPg => Kind::MonitorPg,
            Effect::PingLoop => Kind::PingLoop,
        }
    }
    }
}
pub use vocab::*;
// @include ../_common/effectlog.rs

#[verus_verify(external_body)]
#[verus_spec(
    with Tracked(log): Tracked<&mut EffectLog>
    ensures final(log).s == old(log).s.push(Effect::MonitorPids))]
pub fn vx_pid_monitor(c: ActorCell) { unimplemented!() }
#[verus_verify(external_body)]
#[verus_spec(
    with Tracked(log): Tracked<&mut EffectLog>
    ensures final(log).s == old(log).s.push(Effect::MonitorPg))]
pub fn vx_pg_monitor_scope(s: String, c: ActorCell) { unimplemented!() }
#[verus_verify(external_body)]
#[verus_spec(
    with Tracked(log): Tracked<&mut EffectLog>
    ensures final(log).s == old(log).s.push(Effect::MonitorPg))]
pub fn vx_pg_monitor(s: String, c: ActorCell) { unimplemented!() }

#[verus_verify]
impl NodeSessionState {
    /// hands the control message to the connection's writer (dropped when the connection is gone); touches no session state
    #[verus_verify(external_body)]
    #[verus_spec(
        with Tracked(log): Tracked<&mut EffectLog>
        ensures final(log).s == old(log).s.push(Effect::Control(msg)))]
    pub fn tcp_send_control(&self, msg: ControlMessage) { unimplemented!() }
    /// starts the heartbeat task: ASSUMED to touch only `ping_task`
    #[verus_verify(external_body)]
    #[verus_spec(
        with Tracked(log): Tracked<&mut EffectLog>
        ensures final(log).s == old(log).s.push(Effect::PingLoop), *final(self) == (NodeSessionState { ping_task: final(self).ping_task, ..*old(self) }))]
    pub fn start_ping_loop(&mut self) { unimplemented!() }
}

verus! {
/// the two functions the property speaks of: "supports remoting" and "the wire description of an actor"
pub open spec fn is_remotable() -> spec_fn(ActorCell) -> bool { |c: ActorCell| c.remotable() }
pub open spec fn described() -> spec_fn(ActorCell) -> Actor { |c: ActorCell| Actor { pid: c.pid(), name: c.name() } }
pub open spec fn pid_of() -> spec_fn(Actor) -> u64 { |a: Actor| a.pid }
pub open spec fn some_remotable() -> bool { exists|k: int| 0 <= k < registry_pids().len() && (#[trigger] registry_pids()[k]).remotable() }
pub open spec fn ready_msg() -> ControlMessage { ControlMessage { msg: Some(Msg::Ready(Ready {})) } }
} // verus!
