// ---- unit routing: C14 (custom hashing stays inside the pool, round robin visits every worker, queuer routing hands out only available workers) ----
#![feature(proc_macro_hygiene)]
#![feature(allocator_api)]
#![allow(unused, non_snake_case, non_camel_case_types, dead_code, unreachable_code)]
use vstd::prelude::*;
use verus_builtin_macros::{verus_spec, verus_verify, proof, proof_decl};
use std::collections::VecDeque;
use std::marker::PhantomData;

verus! {
pub type WorkerId = usize;
pub trait JobKey: Sized + HashLike {}
pub trait Message: Sized {}
#[verifier::external_body] pub struct JobOptions { _p: u8 }
#[verifier::external_body] #[verifier::reject_recursive_types(K)] #[verifier::reject_recursive_types(M)]
pub struct ReplyPort<K, M> { _p: core::marker::PhantomData<(K, M)> }
} // verus!
pub mod poolmod {
    use super::*;
    verus! {
/// stand-in for the pool record: the plain-data fields a router can read (`wid`, `is_draining`) are real fields, everything
/// else (queue, actor, counters) is reached only through the methods below
#[verifier::reject_recursive_types(K)] #[verifier::reject_recursive_types(M)]
pub struct WorkerProperties<K, M> { pub wid: WorkerId, pub is_draining: bool, pub _p: core::marker::PhantomData<(K, M)> }
/// the pool (R9 stand-in for HashMap<WorkerId, WorkerProperties>): which ids exist and which of them are available
#[verifier::external_body] #[verifier::reject_recursive_types(K)] #[verifier::reject_recursive_types(M)]
pub struct Pool<K, M> { _p: core::marker::PhantomData<(K, M)> }
impl<K, M> WorkerProperties<K, M> {
    pub uninterp spec fn available(&self) -> bool;
    pub uninterp spec fn wid_view(&self) -> WorkerId;
    /// the worker has this key pending (active or queued) / in flight
    pub uninterp spec fn pending(&self, k: K) -> bool;
    pub uninterp spec fn processing(&self, k: K) -> bool;
    #[verifier::external_body]
    pub fn has_pending_key(&self, key: &K) -> (r: bool) ensures r == self.pending(*key) { unimplemented!() }
    #[verifier::external_body]
    pub fn is_processing_key(&self, key: &K) -> (r: bool) ensures r == self.processing(*key) { unimplemented!() }
    #[verifier::external_body]
    pub fn is_available(&self) -> (r: bool) ensures r == self.available() { unimplemented!() }
}
impl<K, M> Pool<K, M> {
    pub uninterp spec fn has(&self, w: WorkerId) -> bool;
    pub uninterp spec fn avail(&self, w: WorkerId) -> bool;
    /// (w, p) is an entry of the map: p is THE record stored under w
    pub uninterp spec fn entry_is(&self, w: WorkerId, p: WorkerProperties<K, M>) -> bool;
    #[verifier::external_body]
    pub fn iter<'a>(&'a self) -> (r: PoolIter<'a, K, M>) ensures r.pool() == self { unimplemented!() }

    #[verifier::external_body]
    pub fn get(&self, wid: &WorkerId) -> (r: Option<&WorkerProperties<K, M>>)
        ensures r is Some <==> self.has(*wid), r matches Some(w) ==> self.entry_is(*wid, *w) && w.available() == self.avail(*wid) && w.wid_view() == *wid,
    { unimplemented!() }
    #[verifier::external_body]
    pub fn contains_key(&self, wid: &WorkerId) -> (r: bool) ensures r == self.has(*wid) { unimplemented!() }
    /// A-std (HashMap::len / is_empty): how many records the map holds -- NOT the factory's pool size (a shrink keeps busy workers in
    /// the map, marked draining, beyond the new size; a dead worker's slot may be missing below it)
    pub uninterp spec fn count(&self) -> nat;
    #[verifier::external_body]
    pub fn len(&self) -> (r: usize) ensures r == self.count() { unimplemented!() }
    #[verifier::external_body]
    pub fn is_empty(&self) -> (r: bool) ensures r == (self.count() == 0) { unimplemented!() }
}


/// A-std (a map holds one record per key): an entry's key exists and the availability seen through the entry is the map's
#[verifier::external_body]
pub broadcast proof fn axiom_entry<K, M>(pool: &Pool<K, M>, w: WorkerId, p: WorkerProperties<K, M>)
    requires #[trigger] pool.entry_is(w, p),
    ensures pool.has(w), pool.avail(w) == p.available(), p.wid_view() == w,
{}
    } // verus!
}
pub use poolmod::*;
verus! {
broadcast use poolmod::axiom_entry;
/// macro-generated (impl_routing_mode!) marker struct: its two PhantomData fields are never read
pub struct KeyPersistentRouting<TKey, TMsg> { pub _key: PhantomData<TKey>, pub _msg: PhantomData<TMsg> }

/// iteration over the pool (R9 stand-in for hash_map::Iter) with the two adapters the routers use
#[verifier::external_body] #[verifier::reject_recursive_types(K)] #[verifier::reject_recursive_types(M)]
pub struct PoolIter<'a, K, M> { _p: core::marker::PhantomData<&'a (K, M)> }
impl<'a, K, M> PoolIter<'a, K, M> {
    pub uninterp spec fn pool(self) -> &'a Pool<K, M>;
    /// A-std: find_map returns f's first Some over the entries, None if f is None on every entry
    #[verifier::external_body]
    pub fn find_map<B, F: FnMut((&'a WorkerId, &'a WorkerProperties<K, M>)) -> Option<B>>(self, f: F) -> (r: Option<B>)
        requires forall|w: &'a WorkerId, p: &'a WorkerProperties<K, M>| f.requires(((w, p),)),
        ensures
            r matches Some(b) ==> exists|w: &'a WorkerId, p: &'a WorkerProperties<K, M>| self.pool().entry_is(*w, *p) && f.ensures(((w, p),), Some(b)),
            r is None ==> forall|w: &'a WorkerId, p: &'a WorkerProperties<K, M>| self.pool().entry_is(*w, *p) ==> f.ensures(((w, p),), None::<B>),
    { unimplemented!() }
    #[verifier::external_body]
    pub fn find<F: FnMut(&(&'a WorkerId, &'a WorkerProperties<K, M>)) -> bool>(self, f: F) -> (r: Option<(&'a WorkerId, &'a WorkerProperties<K, M>)>)
        requires forall|e: (&'a WorkerId, &'a WorkerProperties<K, M>)| f.requires((&e,)),
        ensures
            r matches Some(e) ==> self.pool().entry_is(*e.0, *e.1) && f.ensures((&e,), true),
            r is None ==> forall|w: &'a WorkerId, p: &'a WorkerProperties<K, M>| self.pool().entry_is(*w, *p) ==> f.ensures((&(w, p),), false),
    { unimplemented!() }
}

/// std DefaultHasher stand-in: the hash value is unconstrained (any u64)
#[verifier::external_body] pub struct HasherStub { _p: u8 }
#[verifier::external_body] pub fn vx_hasher_new() -> HasherStub { unimplemented!() }
impl HasherStub {
    #[verifier::external_body] pub fn finish(&self) -> u64 { unimplemented!() }
}
/// `TKey: Hash` stand-in (pathmap on the bound)
pub trait HashLike { fn hash(&self, h: &mut HasherStub); }

/// user-supplied hash function: may return ANY usize (C14 "whatever the hash returns")
pub trait CustomHashFunction<TKey>: Sized {
    fn hash(&self, key: &TKey, worker_count: usize) -> usize;
}

pub assume_specification<T> [bool::then_some::<T>] (b: bool, t: T) -> (r: Option<T>)
    ensures r == (if b { Some(t) } else { None::<T> });

/// A-std: Option::filter
pub assume_specification<T, P: FnOnce(&T) -> bool> [Option::<T>::filter] (o: Option<T>, pred: P) -> (r: Option<T>)
    requires o is Some ==> pred.requires((&o.unwrap(),)),
    ensures o is None ==> r is None, r is Some ==> r == o && pred.ensures((&o.unwrap(),), true),
        (o is Some && r is None) ==> pred.ensures((&o.unwrap(),), false);
pub assume_specification<T, A: core::alloc::Allocator> [VecDeque::<T, A>::is_empty] (q: &VecDeque<T, A>) -> (r: bool)
    ensures r == (q@.len() == 0);

/// the hint names an existing, available worker
pub open spec fn hint_usable<K, M>(hint: Option<WorkerId>, pool: &Pool<K, M>) -> bool {
    match hint { Some(h) => pool.has(h) && pool.avail(h), None => false }
}
/// representation invariant of the queuer routers: a worker flagged "in queue" really is in the deque
pub open spec fn flagged_are_queued(flags: Seq<bool>, dq: Seq<WorkerId>) -> bool {
    forall|w: int| 0 <= w < flags.len() && #[trigger] flags[w] ==> dq.contains(w as usize)
}
/// round robin: the un-hinted cursor step proved for RoundRobinRouting::choose_target_worker, iterated
pub open spec fn rr_next(c: int, n: int) -> int { if c + 1 >= n { 0 } else { c + 1 } }
pub open spec fn rr_iter(c: int, n: int, k: nat) -> int decreases k { if k == 0 { c } else { rr_next(rr_iter(c, n, (k - 1) as nat), n) } }
pub proof fn lemma_rr_iter_is_mod(c: int, n: int, k: nat)
    requires n > 0, 0 <= c < n,
    ensures rr_iter(c, n, k) == (c + k) % n, 0 <= rr_iter(c, n, k) < n,
    decreases k,
{
    if k == 0 {
        vstd::arithmetic::div_mod::lemma_small_mod(c as nat, n as nat);
    } else {
        lemma_rr_iter_is_mod(c, n, (k - 1) as nat);
        let x = (c + k - 1) % n;
        vstd::arithmetic::div_mod::lemma_mod_bound(c + k - 1, n);
        vstd::arithmetic::div_mod::lemma_add_mod_noop(c + k - 1, 1, n);
        if x + 1 < n {
            vstd::arithmetic::div_mod::lemma_small_mod((x + 1) as nat, n as nat);
            if n > 1 { vstd::arithmetic::div_mod::lemma_small_mod(1, n as nat); }
        } else {
            vstd::arithmetic::div_mod::lemma_mod_self_0(n);
            if n > 1 { vstd::arithmetic::div_mod::lemma_small_mod(1, n as nat); } else { vstd::arithmetic::div_mod::lemma_mod_self_0(1); }
        }
    }
}
/// C14 "round-robin spreads consecutive jobs over all workers": within `n` consecutive un-hinted choices every index 0..n is chosen
// @props C14
pub proof fn lemma_round_robin_visits_every_worker(c: int, n: int, target: int)
    requires n > 0, 0 <= c < n, 0 <= target < n,
    ensures exists|k: nat| 1 <= k <= n && rr_iter(c, n, k) == target,
{
    let k: nat = if target > c { (target - c) as nat } else { (n - c + target) as nat };
    lemma_rr_iter_is_mod(c, n, k);
    if target > c {
        vstd::arithmetic::div_mod::lemma_small_mod(target as nat, n as nat);
    } else {
        vstd::arithmetic::div_mod::lemma_mod_add_multiples_vanish(target, n);
        vstd::arithmetic::div_mod::lemma_small_mod(target as nat, n as nat);
    }
    assert(rr_iter(c, n, k) == target);
}
pub proof fn lemma_push_keeps(flags: Seq<bool>, dq: Seq<WorkerId>, x: WorkerId)
    requires flagged_are_queued(flags, dq),
    ensures
        dq.push(x).contains(x),
        flagged_are_queued(flags, dq.push(x)),
        forall|fl: Seq<bool>| fl.len() == flags.len() && (forall|w: int| 0 <= w < fl.len() && w != x ==> fl[w] == flags[w]) ==> #[trigger] flagged_are_queued(fl, dq.push(x)),
{
    assert(dq.push(x)[dq.len() as int] == x);
    assert forall|y: WorkerId| dq.contains(y) implies #[trigger] dq.push(x).contains(y) by {
        let i = choose|i: int| 0 <= i < dq.len() && dq[i] == y;
        assert(dq.push(x)[i] == y);
    }
    assert forall|fl: Seq<bool>| fl.len() == flags.len() && (forall|w: int| 0 <= w < fl.len() && w != x ==> fl[w] == flags[w]) implies #[trigger] flagged_are_queued(fl, dq.push(x)) by {
        assert forall|w: int| 0 <= w < fl.len() && #[trigger] fl[w] implies dq.push(x).contains(w as usize) by {
            if w != x { assert(flags[w]); assert(dq.contains(w as usize)); }
        }
    }
}
pub proof fn lemma_unflag_keeps(flags: Seq<bool>, fl: Seq<bool>, dq: Seq<WorkerId>)
    requires flagged_are_queued(flags, dq), fl.len() >= flags.len(),
        forall|w: int| 0 <= w < fl.len() && #[trigger] fl[w] ==> w < flags.len() && flags[w],
    ensures flagged_are_queued(fl, dq),
{}
} // verus!
