// ---- unit ttlsweep: the TTL sweep of the shipped DefaultQueue (C13: a job leaves the queue unhandled only expired, reported once) ----
#![feature(proc_macro_hygiene)]
#![feature(allocator_api)]
#![allow(unused, non_snake_case, non_camel_case_types, dead_code, unreachable_code)]
use vstd::prelude::*;
use verus_builtin_macros::{verus_spec, verus_verify, proof, proof_decl};
use std::collections::VecDeque;
use std::sync::Arc;

verus! {
pub trait JobKey: Sized {}
pub trait Message: Sized {}
#[verifier::external_body] pub struct JobOptions { _p: u8 }
#[verifier::external_body] #[verifier::reject_recursive_types(K)] #[verifier::reject_recursive_types(M)]
pub struct ReplyPort<K, M> { _p: core::marker::PhantomData<(K, M)> }
#[verifier::external_body] #[verifier::reject_recursive_types(K)] #[verifier::reject_recursive_types(M)]
pub struct DiscardHandlerObj<K, M> { _p: core::marker::PhantomData<(K, M)> }

/// identity of a job (what the submitter handed in)
pub uninterp spec fn jid_of<K, M>(k: K, m: M) -> int;
/// whether the TTL of a job with these options has run out.  A-clock: time does not advance inside one synchronous
/// factory call, so expiry is a function of the job's options
pub uninterp spec fn opts_expired(o: JobOptions) -> bool;

/// ghost record of what the discard handler was told: (reason, job identity), in call order
pub struct DLog { pub s: Seq<(DiscardReason, int)> }
} // verus!

pub mod sweep {
    use super::*;
    verus! {
    pub open spec fn jid<K: JobKey, M: Message>(j: Job<K, M>) -> int { jid_of(j.key, j.msg) }
    pub open spec fn expired<K: JobKey, M: Message>(j: Job<K, M>) -> bool { opts_expired(j.options) }
    /// the identities of the live (not expired) jobs of `s`, in order
    pub open spec fn live<K: JobKey, M: Message>(s: Seq<Job<K, M>>) -> Seq<int>
        decreases s.len(),
    {
        if s.len() == 0 { Seq::empty() } else if expired(s.last()) { live(s.drop_last()) } else { live(s.drop_last()).push(jid(s.last())) }
    }
    /// what a handler hears when every expired job of `s` is reported once, in order, as TTL-expired
    pub open spec fn dead<K: JobKey, M: Message>(s: Seq<Job<K, M>>) -> Seq<(DiscardReason, int)>
        decreases s.len(),
    {
        if s.len() == 0 { Seq::empty() } else if expired(s.last()) { dead(s.drop_last()).push((DiscardReason::TtlExpired, jid(s.last()))) } else { dead(s.drop_last()) }
    }
    pub open spec fn ids<K: JobKey, M: Message>(s: Seq<Job<K, M>>) -> Seq<int> { s.map_values(|j: Job<K, M>| jid(j)) }
    pub proof fn lemma_step<K: JobKey, M: Message>(s: Seq<Job<K, M>>, p: int)
        requires 0 <= p < s.len(),
        ensures
            expired(s[p]) ==> live(s.subrange(0, p + 1)) == live(s.subrange(0, p))
                && dead(s.subrange(0, p + 1)) == dead(s.subrange(0, p)).push((DiscardReason::TtlExpired, jid(s[p]))),
            !expired(s[p]) ==> live(s.subrange(0, p + 1)) == live(s.subrange(0, p)).push(jid(s[p]))
                && dead(s.subrange(0, p + 1)) == dead(s.subrange(0, p)),
    {
        let t = s.subrange(0, p + 1);
        assert(t.drop_last() =~= s.subrange(0, p));
        assert(t.last() == s[p]);
    }
    pub proof fn lemma_live_len<K: JobKey, M: Message>(s: Seq<Job<K, M>>)
        ensures live(s).len() <= s.len(), live(s).len() + dead(s).len() == s.len(),
        decreases s.len(),
    {
        if s.len() > 0 { lemma_live_len(s.drop_last()); }
    }
    }
}
pub use sweep::*;

verus! {
/// R37 stand-ins: the three operations the index loop that `retain_mut` means is written with (A-std: VecDeque behaves as a sequence)
pub trait VxRetain<T> {
    spec fn vx_seq(&self) -> Seq<T>;
    fn vx_len(&self) -> (r: usize) ensures r == self.vx_seq().len();
    fn vx_item_mut_at(&mut self, i: usize) -> (r: &mut T)
        requires i < old(self).vx_seq().len()
        ensures *r == old(self).vx_seq()[i as int], final(self).vx_seq() == old(self).vx_seq().update(i as int, *final(r));
    fn vx_remove_at(&mut self, i: usize)
        requires i < old(self).vx_seq().len()
        ensures final(self).vx_seq() == old(self).vx_seq().remove(i as int);
}
impl<T> VxRetain<T> for VecDeque<T> {
    open spec fn vx_seq(&self) -> Seq<T> { self@ }
    #[verifier::external_body]
    fn vx_len(&self) -> (r: usize) { self.len() }
    #[verifier::external_body]
    fn vx_item_mut_at(&mut self, i: usize) -> (r: &mut T) { &mut self[i] }
    #[verifier::external_body]
    fn vx_remove_at(&mut self, i: usize) { let _ = self.remove(i); }
}
} // verus!

#[verus_verify]
impl<K: JobKey, M: Message> DiscardHandlerObj<K, M> {
    /// user callback (R9 stand-in for `dyn DiscardHandler`); ASSUMED not to change the job's identity or options
    #[verus_verify(external_body)]
    #[verus_spec(
        with Tracked(log): Tracked<&mut DLog>
        ensures
            final(log).s == old(log).s.push((reason, jid(*old(job)))),
            jid(*final(job)) == jid(*old(job)), final(job).options == old(job).options,
    )]
    pub fn discard(&self, reason: DiscardReason, job: &mut Job<K, M>) { unimplemented!() }
}

#[verus_verify]
impl<TKey: JobKey, TMsg: Message> Job<TKey, TMsg> {
    /// reads the clock through the TTL timer (A-clock)
    #[verus_verify(external_body)]
    #[verus_spec(r => ensures r == expired(*self))]
    pub fn is_expired(&self) -> bool { unimplemented!() }
}
