// ---- unit timers: what each timer task does, in order (R7: the spawned block is evaluated where it is spawned) ----
#![feature(proc_macro_hygiene)]
#![allow(unused, non_snake_case, non_camel_case_types, dead_code, unreachable_code)]
use vstd::prelude::*;
use verus_builtin_macros::{verus_spec, verus_verify, proof, proof_decl};
use vstd::std_specs::cmp::*;

verus! {
broadcast use effectlog::group_effectlog;
pub trait Message: Sized {}
#[verifier::external_body] #[derive(Clone, Copy)] pub struct Duration { _p: u8 }
impl View for Duration { type V = int; uninterp spec fn view(&self) -> int; }
#[verifier::external_body] #[verifier::reject_recursive_types(T)] pub struct JoinHandle<T> { _p: core::marker::PhantomData<T> }
#[verifier::reject_recursive_types(T)]
pub enum MessagingErr<T> { SendErr(T), ChannelClosed, InvalidActorType }
/// `@` = the actor's identity
#[verifier::external_body] pub struct ActorCell { _p: u8 }
impl View for ActorCell { type V = int; uninterp spec fn view(&self) -> int; }
/// `DerivedActorRef<M>`: `@` = the target actor's identity
#[verifier::external_body] #[verifier::reject_recursive_types(M)] pub struct DerivedActorRef<M> { _p: core::marker::PhantomData<M> }
impl<M> View for DerivedActorRef<M> { type V = int; uninterp spec fn view(&self) -> int; }
impl<M> Clone for DerivedActorRef<M> {
    #[verifier::external_body]
    fn clone(&self) -> (r: Self) ensures r@ == self@ { unimplemented!() }
}
/// what tokio does about ticks it could not deliver in time
pub enum MissedTickBehavior { Burst, Delay, Skip }
/// tokio's Interval: its period and missed-tick behaviour (tokio's default is Burst: ticks stay on the original grid, no drift)
pub struct Interval { pub ghost p: int, pub ghost behaviour: MissedTickBehavior }
impl Interval { pub open spec fn period(&self) -> int { self.p } }
pub assume_specification [<ActorStatus as PartialEq>::eq] (a: &ActorStatus, b: &ActorStatus) -> (r: bool)
    ensures r == (*a == *b);
impl PartialEqSpecImpl for ActorStatus {
    open spec fn obeys_eq_spec() -> bool { true }
    open spec fn eq_spec(&self, b: &ActorStatus) -> bool { *self == *b }
}
/// `x` occurs in `v`
#[verifier::opaque]
pub open spec fn slice_has<T>(v: Seq<T>, x: T) -> bool { exists|i: int| 0 <= i < v.len() && #[trigger] v[i] == x }
/// A-std: slice `contains` with the derived (structural) PartialEq
pub assume_specification<T: PartialEq> [<[T]>::contains] (v: &[T], x: &T) -> (r: bool)
    ensures r == slice_has(v@, *x);
pub open spec fn active(s: ActorStatus) -> bool { s == ActorStatus::Starting || s == ActorStatus::Running || s == ActorStatus::Upgrading }
} // verus!

pub mod vocab {
    use super::*;
    verus! {
    pub enum Effect {
        /// the task slept for the whole duration (A-time: `sleep(d)` returns no earlier than `d`)
        Sleep(int),
        /// an interval timer with this period was created / ticked (the first tick is immediate, A-time)
        IntervalNew(int),
        Tick,
        /// the target's status was read
        StatusRead(ActorStatus),
        /// one message was offered to the target (did the target take it)
        Send(int, bool),
        Stop(int),
        Kill(int),
    }
    pub enum Kind { Sleep, IntervalNew, Tick, ActiveRead, InactiveRead, SendTaken, SendRefused, Stop, Kill }
    pub open spec fn kind_of(e: Effect) -> Kind {
        match e { Effect::Sleep(_) => Kind::Sleep, Effect::IntervalNew(_) => Kind::IntervalNew, Effect::Tick => Kind::Tick,
            Effect::StatusRead(s) => if s == ActorStatus::Starting || s == ActorStatus::Running || s == ActorStatus::Upgrading { Kind::ActiveRead } else { Kind::InactiveRead },
            Effect::Send(_, took) => if took { Kind::SendTaken } else { Kind::SendRefused }, Effect::Stop(_) => Kind::Stop, Effect::Kill(_) => Kind::Kill }
    }
    }
}
pub use vocab::*;
// @include ../_common/effectlog.rs

verus! {
/// the real constant lists exactly Starting, Running, Upgrading
// @props C12
pub proof fn lemma_active_states()
    ensures forall|s: ActorStatus| #[trigger] slice_has(ACTIVE_STATES@, s) == active(s),
{
    reveal(slice_has);
    assert forall|s: ActorStatus| #[trigger] slice_has(ACTIVE_STATES@, s) == active(s) by {
        assert(ACTIVE_STATES@.len() == 3);
        assert(ACTIVE_STATES@[0] == ActorStatus::Starting && ACTIVE_STATES@[1] == ActorStatus::Running && ACTIVE_STATES@[2] == ActorStatus::Upgrading);
    }
}
}

/// R7: `spawn(async move { E })` -- E evaluated where it is spawned; the handle stands for its value
#[verus_verify(external_body)]
pub fn vx_spawn_value<T>(v: T) -> JoinHandle<T> { unimplemented!() }
#[verus_verify(external_body)]
#[verus_spec(
    with Tracked(log): Tracked<&mut EffectLog>
    ensures final(log).s == old(log).s.push(Effect::Sleep(d@)))]
pub fn vx_sleep(d: Duration) { unimplemented!() }
#[verus_verify(external_body)]
#[verus_spec(r =>
    with Tracked(log): Tracked<&mut EffectLog>
    ensures final(log).s == old(log).s.push(Effect::IntervalNew(d@)), r.period() == d@, r.behaviour == MissedTickBehavior::Burst)]
pub fn vx_interval(d: Duration) -> Interval { unimplemented!() }
#[verus_verify]
impl Interval {
    #[verus_verify(external_body)]
    #[verus_spec(
        with Tracked(log): Tracked<&mut EffectLog>
        ensures final(log).s == old(log).s.push(Effect::Tick), final(self).p == old(self).p, final(self).behaviour == old(self).behaviour)]
    pub fn tick(&mut self) { unimplemented!() }
}
#[verus_verify]
impl Duration {
    #[verus_verify(external_body)]
    pub fn as_millis(&self) -> u128 { unimplemented!() }
}
#[verus_verify]
impl ActorCell {
    #[verus_verify(external_body)]
    #[verus_spec(r =>
        with Tracked(log): Tracked<&mut EffectLog>
        ensures final(log).s == old(log).s.push(Effect::StatusRead(r)))]
    pub fn get_status(&self) -> ActorStatus { unimplemented!() }
    #[verus_verify(external_body)]
    #[verus_spec(r =>
        with Tracked(log): Tracked<&mut EffectLog>
        ensures final(log).s == old(log).s.push(Effect::Send(self@, r is Ok)))]
    pub fn send_message<M: Message>(&self, m: M) -> Result<(), MessagingErr<M>> { unimplemented!() }
    #[verus_verify(external_body)]
    #[verus_spec(
        with Tracked(log): Tracked<&mut EffectLog>
        ensures final(log).s == old(log).s.push(Effect::Stop(self@)))]
    pub fn stop(&self, reason: Option<String>) { unimplemented!() }
    #[verus_verify(external_body)]
    #[verus_spec(
        with Tracked(log): Tracked<&mut EffectLog>
        ensures final(log).s == old(log).s.push(Effect::Kill(self@)))]
    pub fn kill(&self) { unimplemented!() }
}
#[verus_verify(external_body)]
pub fn vx_format() -> String { unimplemented!() }

#[verus_verify]
impl<M> DerivedActorRef<M> {
    #[verus_verify(external_body)]
    #[verus_spec(r =>
        with Tracked(log): Tracked<&mut EffectLog>
        ensures final(log).s == old(log).s.push(Effect::StatusRead(r)))]
    pub fn get_status(&self) -> ActorStatus { unimplemented!() }
    #[verus_verify(external_body)]
    #[verus_spec(r =>
        with Tracked(log): Tracked<&mut EffectLog>
        ensures final(log).s == old(log).s.push(Effect::Send(self@, r is Ok)))]
    pub fn send_message(&self, m: M) -> Result<(), MessagingErr<M>> { unimplemented!() }
}

/// `tokio::time::interval(d)`: first tick immediate, default missed-tick behaviour Burst
#[verus_verify(external_body)]
#[verus_spec(r => ensures r.p == d@, r.behaviour == MissedTickBehavior::Burst)]
pub fn tokio_interval(d: Duration) -> Interval { unimplemented!() }
#[verus_verify]
impl Interval {
    #[verus_verify(external_body)]
    #[verus_spec(ensures final(self).p == old(self).p, final(self).behaviour == b)]
    pub fn set_missed_tick_behavior(&mut self, b: MissedTickBehavior) { unimplemented!() }
}
