// ---- unit proxytable: prelude (NodeSession::get_or_spawn_remote_actor: at most one proxy actor per remote pid) ----
#![feature(proc_macro_hygiene)]
#![allow(unused, non_snake_case, non_camel_case_types, dead_code, unreachable_code)]
use vstd::prelude::*;
use verus_builtin_macros::{verus_spec, verus_verify, proof, proof_decl};

verus! {
broadcast use effectlog::group_effectlog;
#[verifier::external_body] pub struct Opaque { _p: u8 }
#[verifier::external_body] pub struct SessionRef { _p: u8 }
#[verifier::external_body] pub struct ServerRef { _p: u8 }
#[verifier::external_body] pub struct ActorCell { _p: u8 }
#[verifier::external_body] pub struct SpawnErr { _p: u8 }
#[verifier::external_body] pub struct JoinHandle { _p: u8 }
#[verifier::external_body] pub struct AuthState { _p: u8 }
#[verifier::external_body] pub struct PidSet { _p: u8 }
/// A-std: the reflexive `From` impl used by `?` is the identity
pub assume_specification<T> [<T as core::convert::From<T>>::from] (t: T) -> (r: T)
    ensures r == t;
impl SessionRef {
    #[verifier::external_body]
    pub fn vx_clone(&self) -> SessionRef { unimplemented!() }
    #[verifier::external_body]
    pub fn get_cell(&self) -> ActorCell { unimplemented!() }
}
/// the proxy actor for one remote pid (`ActorRef<RemoteActorMessage>`): `rid()` = the remote pid it stands for; a clone is a handle to
/// the same proxy
#[verifier::external_body] pub struct RemoteRef { _p: u8 }
impl RemoteRef {
    pub uninterp spec fn rid(&self) -> u64;
    #[verifier::external_body]
    pub fn vx_clone(&self) -> (r: RemoteRef) ensures r == *self { unimplemented!() }
}
/// HashMap<u64, ActorRef<RemoteActorMessage>> stand-in (A-std) with its map view
#[verifier::external_body] pub struct RemoteActors { _p: u8 }
impl View for RemoteActors { type V = Map<u64, RemoteRef>; uninterp spec fn view(&self) -> Map<u64, RemoteRef>; }
impl RemoteActors {
    #[verifier::external_body]
    pub fn get(&self, k: &u64) -> (r: Option<&RemoteRef>)
        ensures r is Some <==> self@.contains_key(*k), r matches Some(x) ==> *x == self@[*k],
    { unimplemented!() }
    #[verifier::external_body]
    pub fn insert(&mut self, k: u64, v: RemoteRef) -> (r: Option<RemoteRef>)
        ensures final(self)@ == old(self)@.insert(k, v),
    { unimplemented!() }
}
/// the unit struct `RemoteActor` (the proxy's behaviour: unit remote)
pub struct RemoteActor;
} // verus!

pub mod vocab {
    use super::*;
    verus! {
    pub enum Effect {
        /// a proxy actor for remote pid was spawned, linked to the session (did the start succeed)
        SpawnProxy(u64, bool),
    }
    pub enum Kind { SpawnProxy }
    pub open spec fn kind_of(e: Effect) -> Kind { Kind::SpawnProxy }
    }
}
pub use vocab::*;
// @include ../_common/effectlog.rs

#[verus_verify]
impl RemoteActor {
    /// `RemoteActor.spawn_linked(session, name, pid, node_id, supervisor).await` (R7): starts the proxy under the session's supervision;
    /// ASSUMED: the proxy it returns stands for the pid it was given
    #[verus_verify(external_body)]
    #[verus_spec(r =>
        with Tracked(log): Tracked<&mut EffectLog>
        ensures final(log).s == old(log).s.push(Effect::SpawnProxy(pid, r is Ok)), r matches Ok(p) ==> p.0.rid() == pid)]
    pub fn spawn_linked(&self, session: SessionRef, name: Option<String>, pid: u64, node_id: u64, supervisor: ActorCell) -> Result<(RemoteRef, JoinHandle), SpawnErr> { unimplemented!() }
}
