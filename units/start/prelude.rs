// ---- unit start: ActorRuntime::start (C04/C08: the lifecycle guard is marked running before the actor task exists, and never on a failed start) ----
#![feature(proc_macro_hygiene)]
#![allow(unused, non_snake_case, non_camel_case_types, dead_code, unreachable_code)]
use vstd::prelude::*;
use verus_builtin_macros::{verus_spec, verus_verify, proof, proof_decl};
use vstd::std_specs::cmp::*;

verus! {
broadcast use effectlog::group_effectlog;

pub type ActorName = String;
#[verifier::external_body] pub struct ActorProcessingErr { _p: u8 }
#[verifier::external_body] pub struct ActorCell { _p: u8 }
#[verifier::external_body] pub struct ActorPortSet { _p: u8 }
#[verifier::external_body] #[verifier::reject_recursive_types(T)] pub struct JoinHandle<T> { _p: core::marker::PhantomData<T> }
#[verifier::external_body] #[verifier::reject_recursive_types(M)] pub struct ActorRef<M> { _p: core::marker::PhantomData<M> }
#[verifier::external_body] #[verifier::reject_recursive_types(S)] pub struct PreStartFut<S> { _p: core::marker::PhantomData<S> }
#[verifier::external_body] #[verifier::reject_recursive_types(S)] pub struct SignalFut<S> { _p: core::marker::PhantomData<S> }
pub enum Signal { Kill }
/// the lifecycle guard (contracts of its real methods: unit lifecycle); here only *when* mark_running is called matters
#[verifier::external_body] pub struct ActorLifecycleGuard { _p: u8 }

/// `Actor` trait stand-in: only the associated types are used by start()
pub trait Actor: Sized {
    type Msg;
    type State;
    type Arguments;
}

impl<'a> From<&'a str> for ActorProcessingErr {
    #[verifier::external_body]
    fn from(s: &'a str) -> ActorProcessingErr { unimplemented!() }
}
#[verifier::external_body]
pub fn vx_pin<T>(t: T) -> (r: T) ensures r == t { unimplemented!() }

// A-std: derived comparisons of the fieldless repr(u8) enum ActorStatus
pub assume_specification [<ActorStatus as PartialEq>::eq] (a: &ActorStatus, b: &ActorStatus) -> (r: bool)
    ensures r == (*a == *b);
impl PartialEqSpecImpl for ActorStatus {
    open spec fn obeys_eq_spec() -> bool { true }
    open spec fn eq_spec(&self, b: &ActorStatus) -> bool { *self == *b }
}
} // verus!

pub mod vocab {
    use super::*;
    verus! {
    pub enum Effect {
        StatusRead(ActorStatus),
        SetStatus(ActorStatus),
        /// pre_start ran (beside the signal port) and how it ended: 0 = Ok(state), 1 = Err, 2 = panic, 3 = killed
        PreStart(int),
        HandleSignal,
        /// try_link(supervisor) and whether the supervisor accepted the child
        TryLink(bool),
        /// lifecycle.mark_running(): from now on a cancelled/aborted actor task reports ActorTerminated("actor_task_cancelled")
        MarkRunning,
        /// the actor task was handed to the executor
        Spawn,
    }
    pub enum Kind { StatusRead, SetStatus, PreStart, HandleSignal, TryLink, MarkRunning, Spawn }
    pub open spec fn kind_of(e: Effect) -> Kind {
        match e { Effect::StatusRead(_) => Kind::StatusRead, Effect::SetStatus(_) => Kind::SetStatus, Effect::PreStart(_) => Kind::PreStart,
            Effect::HandleSignal => Kind::HandleSignal, Effect::TryLink(_) => Kind::TryLink, Effect::MarkRunning => Kind::MarkRunning, Effect::Spawn => Kind::Spawn }
    }
    }
}
pub use vocab::*;
// @include ../_common/effectlog.rs

verus! {
pub open spec fn outcome<S>(o: Result<Result<Result<S, ActorProcessingErr>, SpawnErr>, Signal>) -> int {
    match o { Ok(Ok(Ok(_))) => 0, Ok(Ok(Err(_))) => 1, Ok(Err(_)) => 2, Err(_) => 3 }
}
} // verus!

#[verus_verify]
impl<M> ActorRef<M> {
    #[verus_verify(external_body)]
    #[verus_spec(r =>
        with Tracked(log): Tracked<&mut EffectLog>
        ensures final(log).s == old(log).s.push(Effect::StatusRead(r)),
    )]
    pub fn get_status(&self) -> ActorStatus { unimplemented!() }
    #[verus_verify(external_body)]
    #[verus_spec(r =>
        with Tracked(log): Tracked<&mut EffectLog>
        ensures final(log).s == old(log).s.push(Effect::SetStatus(status)),
    )]
    pub fn set_status(&self, status: ActorStatus) -> ActorStatus { unimplemented!() }
    #[verus_verify(external_body)]
    #[verus_spec(r =>
        with Tracked(log): Tracked<&mut EffectLog>
        ensures final(log).s == old(log).s.push(Effect::TryLink(r)),
    )]
    pub fn try_link(&self, sup: ActorCell) -> bool { unimplemented!() }
    #[verus_verify(external_body)]
    pub fn clone(&self) -> ActorRef<M> { unimplemented!() }
    #[verus_verify(external_body)]
    pub fn get_name(&self) -> Option<ActorName> { unimplemented!() }
}
#[verus_verify]
impl ActorCell {
    #[verus_verify(external_body)]
    pub fn clone(&self) -> ActorCell { unimplemented!() }
}
#[verus_verify]
impl ActorLifecycleGuard {
    #[verus_verify(external_body)]
    #[verus_spec(
        with Tracked(log): Tracked<&mut EffectLog>
        ensures final(log).s == old(log).s.push(Effect::MarkRunning),
    )]
    pub fn mark_running(&mut self) { unimplemented!() }
}
#[verus_verify]
impl ActorPortSet {
    #[verus_verify(external_body)]
    pub fn run_with_signal<S>(&mut self, f: PreStartFut<S>) -> SignalFut<S> { unimplemented!() }
}
#[verus_verify]
impl<TActor: Actor> ActorRuntime<TActor> {
    /// not under contract here (async, catch_unwind): produces the pre_start future
    #[verus_verify(external_body)]
    pub fn do_pre_start(myself: ActorRef<TActor::Msg>, handler: &TActor, arguments: TActor::Arguments) -> PreStartFut<TActor::State> { unimplemented!() }
    #[verus_verify(external_body)]
    #[verus_spec(r =>
        with Tracked(log): Tracked<&mut EffectLog>
        ensures final(log).s == old(log).s.push(Effect::HandleSignal),
    )]
    pub fn handle_signal(myself: ActorRef<TActor::Msg>, signal: Signal) -> Option<String> { unimplemented!() }
}
/// R7: awaiting pre_start beside the signal port may end in any of the four ways
#[verus_verify(external_body)]
#[verus_spec(o =>
    with Tracked(log): Tracked<&mut EffectLog>
    ensures final(log).s == old(log).s.push(Effect::PreStart(outcome(o))),
)]
pub fn vx_await<S>(f: SignalFut<S>) -> Result<Result<Result<S, ActorProcessingErr>, SpawnErr>, Signal> { unimplemented!() }
/// R8: the spawned actor task (async block) is erased; the hand-over to the executor is kept as an effect
#[verus_verify(external_body)]
#[verus_spec(r =>
    with Tracked(log): Tracked<&mut EffectLog>
    ensures final(log).s == old(log).s.push(Effect::Spawn),
)]
pub fn spawn_named(erased: ()) -> JoinHandle<()> { unimplemented!() }

verus! {
#[verifier::external_body] pub struct ThreadLocalActorSpawner { _p: u8 }
#[verifier::external_body] pub struct SpawnerErr { _p: u8 }
/// R8: `Box::new(move || { async move { .. } })`: the start routine handed to the spawner thread runs later, on that thread; its
/// text is erased here (pre_start, mark_running and the processing loop live in it)
#[verifier::external_body] pub struct Builder { _p: u8 }
}
#[verus_verify(external_body)]
pub fn vx_builder(erased: ()) -> Builder { unimplemented!() }
#[verus_verify]
impl ThreadLocalActorSpawner {
    /// hands the start routine to the spawner thread (logged as the spawn)
    #[verus_verify(external_body)]
    #[verus_spec(r =>
        with Tracked(log): Tracked<&mut EffectLog>
        ensures final(log).s == old(log).s.push(Effect::Spawn))]
    pub fn spawn(&self, b: Builder, name: Option<String>) -> Result<JoinHandle<()>, SpawnerErr> { unimplemented!() }
}
verus! {
impl SpawnerErr {
    #[verifier::external_body]
    pub fn into(self) -> ActorProcessingErr { unimplemented!() }
}
}
