// ---- unit jobmeta: Job::deserialize_meta is total (C19: bad job metadata is an error, never a panic) ----
#![feature(proc_macro_hygiene)]
#![allow(unused, non_snake_case, non_camel_case_types, dead_code, unreachable_code)]
use vstd::prelude::*;
use verus_builtin_macros::{verus_spec, verus_verify, proof, proof_decl};

verus! {
#[verifier::external_body] pub struct BoxedDowncastErrInner { _p: u8 }
pub struct BoxedDowncastErr;
#[verifier::external_body] #[verifier::reject_recursive_types(K)] #[verifier::reject_recursive_types(M)]
pub struct ReplyPort<K, M> { _p: core::marker::PhantomData<(K, M)> }
pub trait Message: Sized {}
/// BytesConvertable stand-in: user key decoding may panic on garbage (documented contract of the trait); the bytes it is
/// given are recorded so the contract can say WHICH bytes went where
pub trait JobKey: Sized {
    spec fn decoded_from(bytes: Seq<u8>) -> Self;
    fn from_bytes(bytes: Vec<u8>) -> (r: Self) ensures r == Self::decoded_from(bytes@);
}
#[verifier::external_body] pub struct JobOptions { _p: u8 }
impl JobOptions {
    pub uninterp spec fn decoded_from(bytes: Seq<u8>) -> JobOptions;
    /// total for every input (any length): contract of the real impl, not proved here (reads the clock / tracing span)
    #[verifier::external_body]
    pub fn from_bytes(data: Vec<u8>) -> (r: JobOptions) ensures r == JobOptions::decoded_from(data@) { unimplemented!() }
}
} // verus!
