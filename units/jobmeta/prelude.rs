// ---- unit jobmeta: Job::deserialize_meta is total (C19: bad job metadata is an error, never a panic) ----
#![feature(proc_macro_hygiene)]
#![allow(unused, non_snake_case, non_camel_case_types, dead_code, unreachable_code)]
use vstd::prelude::*;
use verus_builtin_macros::{verus_spec, verus_verify, proof, proof_decl};

verus! {
#[verifier::external_body] pub struct BoxedDowncastErrInner { _p: u8 }
pub struct BoxedDowncastErr;
#[verifier::external_body] #[verifier::reject_recursive_types(K)] #[verifier::reject_recursive_types(M)]
pub struct ReplyPort<K, M> { _p: core::marker::PhantomData<(K, M)> }
/// the inner message type: its own serialize/deserialize are user code (may fail, ASSUMED not to panic; the derive-generated ones
/// are covered by unit derive)
pub trait Message: Sized {
    fn serialize(self) -> Result<SerializedMessage, BoxedDowncastErr>;
    fn deserialize(bytes: SerializedMessage) -> Result<Self, BoxedDowncastErr>;
}
/// BytesConvertable stand-in: user key decoding may panic on garbage (documented contract of the trait); the bytes it is
/// given are recorded so the contract can say WHICH bytes went where
pub trait JobKey: Sized {
    spec fn decoded_from(bytes: Seq<u8>) -> Self;
    /// the bytes the key encodes to
    spec fn encoded(&self) -> Seq<u8>;
    fn from_bytes(bytes: Vec<u8>) -> (r: Self) ensures r == Self::decoded_from(bytes@);
    /// (A-alloc: a Vec never holds more than isize::MAX bytes)
    fn into_bytes(self) -> (r: Vec<u8>) ensures r@ == self.encoded(), r@.len() <= isize::MAX;
}
#[verifier::external_body] pub struct JobOptions { _p: u8 }
impl JobOptions {
    pub uninterp spec fn decoded_from(bytes: Seq<u8>) -> JobOptions;
    /// total for every input (any length): contract of the real impl, not proved here (reads the clock / tracing span)
    #[verifier::external_body]
    pub fn from_bytes(data: Vec<u8>) -> (r: JobOptions) ensures r == JobOptions::decoded_from(data@) { unimplemented!() }
    pub uninterp spec fn encoded(&self) -> Seq<u8>;
    /// "exactly 16 bytes" (contract of the real impl: two big-endian u64 halves)
    #[verifier::external_body]
    pub fn into_bytes(self) -> (r: Vec<u8>) ensures r@ == self.encoded(), r@.len() == 16 { unimplemented!() }
}
/// the caller's wire reply port: opaque
#[verifier::external_body] pub struct WirePort { _p: u8 }
/// `vec![x; n]` (R23)
#[verifier::external_body]
pub fn vx_vec_repeat(x: u8, n: usize) -> (r: Vec<u8>)
    ensures r@.len() == n, forall|i: int| 0 <= i < n ==> #[trigger] r@[i] == x,
{ unimplemented!() }
/// `v[a..b].copy_from_slice(src)` (R22): panics unless the lengths agree and the range is inside `v`
#[verifier::external_body]
pub fn vx_copy_into(v: &mut Vec<u8>, a: usize, b: usize, src: &Vec<u8>)
    requires a <= b <= old(v)@.len(), src@.len() == b - a,
    ensures final(v)@.len() == old(v)@.len(),
        forall|i: int| 0 <= i < old(v)@.len() ==> #[trigger] final(v)@[i] == (if a <= i < b { src@[i - a] } else { old(v)@[i] }),
{ unimplemented!() }
/// `v[a..].copy_from_slice(src)` (R22)
#[verifier::external_body]
pub fn vx_copy_into_tail(v: &mut Vec<u8>, a: usize, src: &Vec<u8>)
    requires a <= old(v)@.len(), src@.len() == old(v)@.len() - a,
    ensures final(v)@.len() == old(v)@.len(),
        forall|i: int| 0 <= i < old(v)@.len() ==> #[trigger] final(v)@[i] == (if a <= i { src@[i - a] } else { old(v)@[i] }),
{ unimplemented!() }
/// what serialize_meta writes is split by deserialize_meta into exactly the two encodings it was built from (so a key / options
/// pair whose own codec round-trips, unit codecs, round-trips through the job metadata)
// @props C19
pub proof fn lemma_meta_roundtrip(o: Seq<u8>, k: Seq<u8>)
    requires o.len() == 16,
    ensures (o + k).len() >= 16, (o + k).subrange(0, 16) =~= o, (o + k).subrange(16, (o + k).len() as int) =~= k,
{}
} // verus!
