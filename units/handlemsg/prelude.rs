// ---- unit handlemsg: one dequeued item -> one callback (C01, C02 receive side) ----
#![feature(proc_macro_hygiene)]
#![allow(unused, non_snake_case, non_camel_case_types, dead_code, unreachable_code)]
use vstd::prelude::*;
use verus_builtin_macros::{verus_spec, verus_verify, proof, proof_decl};

verus! {
broadcast use effectlog::group_effectlog;
#[verifier::external_body] pub struct ActorProcessingErr { _p: u8 }
#[verifier::external_body] pub struct BoxedDowncastErr { _p: u8 }
#[verifier::external_body] pub struct ActorLifecycleGuard { _p: u8 }
#[verifier::external_body] pub struct ActorId { _p: u8 }
#[verifier::external_body] pub struct Span { _p: u8 }
#[verifier::external_body] pub struct SupervisionEvent { _p: u8 }
impl SupervisionEvent { pub uninterp spec fn ident(&self) -> int; }
#[verifier::external_body] #[verifier::reject_recursive_types(M)] pub struct ActorRef<M> { _p: core::marker::PhantomData<M> }
impl<M> ActorRef<M> { #[verifier::external_body] pub fn clone(&self) -> ActorRef<M> { unimplemented!() } }
/// a message as it travels through the mailbox: WHICH message it is, and the tracing span it carries
pub struct BoxedMessage { pub span: Option<Span>, pub ghost which: int }
impl core::convert::From<BoxedDowncastErr> for ActorProcessingErr {
    #[verifier::external_body]
    fn from(e: BoxedDowncastErr) -> ActorProcessingErr { unimplemented!() }
}
/// the actor's message type: unboxing gives back the very message that was boxed, or fails
pub trait Message: Sized {
    spec fn which(&self) -> int;
    fn from_boxed(m: BoxedMessage) -> (r: Result<Self, BoxedDowncastErr>)
        ensures r matches Ok(v) ==> v.which() == m.which;
}
/// the future of a user handler invocation: which callback on which item
#[verifier::external_body] pub struct HandlerFut { _p: u8 }
impl HandlerFut {
    pub uninterp spec fn kind(&self) -> Cb;
    pub uninterp spec fn item(&self) -> int;
    /// `fut.instrument(span)`: the same future, polled inside the span
    #[verifier::external_body]
    pub fn instrument(self, s: Span) -> (r: HandlerFut) ensures r.kind() == self.kind(), r.item() == self.item() { unimplemented!() }
}
pub trait Actor: Sized {
    type Msg: Message;
    type State;
    type Arguments;
    fn handle(&self, myself: ActorRef<Self::Msg>, message: Self::Msg, state: &mut Self::State) -> (f: HandlerFut)
        ensures f.kind() == Cb::Handle, f.item() == message.which();
    fn handle_supervisor_evt(&self, myself: ActorRef<Self::Msg>, message: SupervisionEvent, state: &mut Self::State) -> (f: HandlerFut)
        ensures f.kind() == Cb::SupEvt, f.item() == message.ident();
}
} // verus!

pub mod vocab {
    use super::*;
    verus! {
    pub enum Cb { Handle, SupEvt }
    pub enum Effect {
        /// a user callback was driven (to completion or until it was dropped): which one, on which item
        Ran(Cb, int),
    }
    pub type Kind = Effect;
    pub open spec fn kind_of(e: Effect) -> Kind { e }
    }
}
pub use vocab::*;
// @include ../_common/effectlog.rs

/// R7: awaiting the handler's future is what runs the user's code
#[verus_verify(external_body)]
#[verus_spec(r =>
    with Tracked(log): Tracked<&mut EffectLog>
    ensures final(log).s == old(log).s.push(Effect::Ran(f.kind(), f.item())))]
pub fn vx_await(f: HandlerFut) -> Result<(), ActorProcessingErr> { unimplemented!() }
