// ---- unit worker: prelude (factory per-worker bookkeeping: C13 one fate per job, C14 one job at a time + FIFO, C15 worker-queue limit) ----
#![feature(proc_macro_hygiene)]
#![feature(allocator_api)]
#![allow(unused, non_snake_case, non_camel_case_types, dead_code, unreachable_code)]
use vstd::prelude::*;
use verus_builtin_macros::{verus_spec, verus_verify, proof, proof_decl};
use std::collections::VecDeque;
use std::sync::Arc;

verus! {
broadcast use {effectlog::group_effectlog, keycount::group_occ};

pub type WorkerId = usize;
} // verus!
pub mod jk {
    use super::*;
    verus! {
    /// stand-ins for the user-implemented traits; `clone` of a key yields an equal key (lawful Clone: ASSUMED of user keys)
    pub trait JobKey: Sized {
        fn clone(&self) -> (r: Self) ensures r == *self;
    }
    pub trait Message: Sized {}
    }
}
pub use jk::*;
verus! {

// ------------------------------------------------------------------ opaque stand-ins (R9)
#[verifier::external_body] pub struct JoinHandle { _p: u8 }
#[verifier::external_body] pub struct Instant { _p: u8 }
#[verifier::external_body] pub struct StatsStub { _p: u8 }
#[verifier::external_body] pub struct ActorProcessingErr { _p: u8 }
#[verifier::external_body] pub struct JobOptions { _p: u8 }
impl Clone for JobOptions {
    #[verifier::external_body]
    fn clone(&self) -> (r: Self) ensures r == *self { unimplemented!() }
}
/// whether the TTL of a job with these options has run out.  A-clock: time does not advance inside one synchronous
/// factory call, so expiry is a function of the job (its options)
pub uninterp spec fn opts_expired(o: JobOptions) -> bool;

#[verifier::external_body] #[verifier::reject_recursive_types(K)] #[verifier::reject_recursive_types(M)]
pub struct WorkerRef<K, M> { _p: core::marker::PhantomData<(K, M)> }
/// the worker actor behind this reference no longer takes messages by the end of the factory call under contract.  Death is monotone,
/// so a `cast` that was refused at any point of the call implies it (A-chan: a cast is only refused by a closed mailbox)
pub uninterp spec fn gone<K, M>(w: WorkerRef<K, M>) -> bool;
#[verifier::external_body] #[verifier::reject_recursive_types(K)] #[verifier::reject_recursive_types(M)]
pub struct ReplyPort<K, M> { _p: core::marker::PhantomData<(K, M)> }
#[verifier::external_body] #[verifier::reject_recursive_types(K)] #[verifier::reject_recursive_types(M)]
pub struct DiscardHandlerObj<K, M> { _p: core::marker::PhantomData<(K, M)> }

/// HashMap<TKey, JobOptions> stand-in (A-std: behaves as a finite map for lawful keys)
#[verifier::external_body] #[verifier::reject_recursive_types(K)]
pub struct CurrJobs<K> { _p: core::marker::PhantomData<K> }
impl<K> View for CurrJobs<K> { type V = Map<K, JobOptions>; uninterp spec fn view(&self) -> Map<K, JobOptions>; }
/// HashMap<TKey, usize> stand-in: only touched by the two TRUSTED helpers track/untrack_pending_key
#[verifier::external_body] #[verifier::reject_recursive_types(K)]
pub struct KeyCounts<K> { _p: core::marker::PhantomData<K> }
impl<K> View for KeyCounts<K> { type V = Map<K, nat>; uninterp spec fn view(&self) -> Map<K, nat>; }
impl<K> KeyCounts<K> {
    #[verifier::external_body]
    pub fn clear(&mut self) ensures final(self)@ == Map::<K, nat>::empty() { unimplemented!() }
    #[verifier::external_body]
    pub fn contains_key(&self, k: &K) -> (r: bool) ensures r == self@.contains_key(*k) { unimplemented!() }
}

impl<K> CurrJobs<K> {
    #[verifier::external_body]
    pub fn insert(&mut self, k: K, v: JobOptions) -> (r: Option<JobOptions>)
        ensures final(self)@ == old(self)@.insert(k, v),
    { unimplemented!() }
    #[verifier::external_body]
    pub fn remove(&mut self, k: &K) -> (r: Option<JobOptions>)
        ensures
            final(self)@ == old(self)@.remove(*k),
            r is Some <==> old(self)@.contains_key(*k),
            r matches Some(v) ==> v == old(self)@[*k],
    { unimplemented!() }
    #[verifier::external_body]
    pub fn contains_key(&self, k: &K) -> (r: bool) ensures r == self@.contains_key(*k) { unimplemented!() }
    #[verifier::external_body]
    pub fn is_empty(&self) -> (r: bool) ensures r == (self@.dom() =~= Set::<K>::empty()) { unimplemented!() }
    #[verifier::external_body]
    pub fn len(&self) -> (r: usize) ensures r == self@.dom().len() { unimplemented!() }
    /// A-std: each key of the map exactly once
    #[verifier::external_body]
    pub fn keys(&self) -> (r: Vec<&K>)
        ensures
            forall|i: int| 0 <= i < r@.len() ==> self@.contains_key(*#[trigger] r@[i]),
            r@.len() == self@.dom().len(),
            forall|i: int, j: int| 0 <= i < j < r@.len() ==> *r@[i] != *r@[j],
            forall|k: K| self@.contains_key(k) ==> exists|i: int| 0 <= i < r@.len() && *#[trigger] r@[i] == k,
    { unimplemented!() }
    #[verifier::external_body]
    pub fn clear(&mut self) ensures final(self)@ == Map::<K, JobOptions>::empty() { unimplemented!() }
}
/// std::mem::take on the in-flight map (pathmap): hands the old map out and leaves an empty one
#[verifier::external_body]
pub fn vx_mem_take<K>(m: &mut CurrJobs<K>) -> (r: CurrJobs<K>)
    ensures r@ == old(m)@, final(m)@ == Map::<K, JobOptions>::empty(),
{ unimplemented!() }

/// A-std: VecDeque::is_empty
pub assume_specification<T, A: core::alloc::Allocator> [VecDeque::<T, A>::is_empty] (q: &VecDeque<T, A>) -> (r: bool)
    ensures r == (q@.len() == 0);

/// abstract identity of a job (its key and payload); preserved by everything that touches a job's bookkeeping fields
pub uninterp spec fn jid_of<K, M>(k: K, m: M) -> int;
} // verus!

pub mod vocab {
    use super::*;
    verus! {
    pub enum Effect {
        /// the job was handed to the worker actor (cast accepted by its mailbox)
        Cast(int),
        /// the discard handler was told about the job, with the reason
        Discard(DiscardReason, int),
        /// the submitter's acceptance port was answered "accepted"
        Accepted,
        /// the job was returned to the submitter through its acceptance port
        Rejected(int),
    }
    pub enum Kind { Cast, DiscardTtl, DiscardLoadshed, DiscardOther, Accepted, Rejected }
    pub open spec fn kind_of(e: Effect) -> Kind {
        match e {
            Effect::Cast(_) => Kind::Cast,
            Effect::Discard(DiscardReason::TtlExpired, _) => Kind::DiscardTtl,
            Effect::Discard(DiscardReason::Loadshed, _) => Kind::DiscardLoadshed,
            Effect::Discard(_, _) => Kind::DiscardOther,
            Effect::Accepted => Kind::Accepted,
            Effect::Rejected(_) => Kind::Rejected,
        }
    }
    }
}
pub use vocab::*;
// @include ../_common/effectlog.rs

pub mod keycount {
    use super::*;
    verus! {
    /// how many queued jobs carry key `k`
    pub open spec fn occ<K: JobKey, M: Message>(q: Seq<Job<K, M>>, k: K) -> nat
        decreases q.len(),
    {
        if q.len() == 0 { 0 } else { occ(q.drop_last(), k) + (if q.last().key == k { 1nat } else { 0nat }) }
    }
    pub broadcast proof fn lemma_occ_push<K: JobKey, M: Message>(q: Seq<Job<K, M>>, j: Job<K, M>, k: K)
        ensures #[trigger] occ(q.push(j), k) == occ(q, k) + (if j.key == k { 1nat } else { 0nat }),
    {
        assert(q.push(j).drop_last() =~= q);
    }
    pub broadcast proof fn lemma_occ_pop_front<K: JobKey, M: Message>(q: Seq<Job<K, M>>, k: K)
        requires q.len() > 0,
        ensures #[trigger] occ(q.subrange(1, q.len() as int), k) == occ(q, k) - (if q[0].key == k { 1int } else { 0int }),
        decreases q.len(),
    {
        if q.len() == 1 {
            assert(q.subrange(1, 1) =~= Seq::<Job<K, M>>::empty());
            assert(q.drop_last() =~= Seq::<Job<K, M>>::empty());
        } else {
            let r = q.drop_last();
            lemma_occ_pop_front(r, k);
            assert(q.subrange(1, q.len() as int).drop_last() =~= r.subrange(1, r.len() as int));
            assert(q.subrange(1, q.len() as int).last() == q.last());
            assert(r[0] == q[0]);
        }
    }
    pub broadcast proof fn lemma_occ_push_front<K: JobKey, M: Message>(q: Seq<Job<K, M>>, j: Job<K, M>, k: K)
        ensures #[trigger] occ(seq![j] + q, k) == occ(q, k) + (if j.key == k { 1nat } else { 0nat }),
        decreases q.len(),
    {
        if q.len() == 0 {
            assert(seq![j] + q =~= seq![j]);
            assert(seq![j].drop_last() =~= Seq::<Job<K, M>>::empty());
            assert(seq![j].last() == j);
            reveal_with_fuel(occ, 2);
        } else {
            lemma_occ_push_front(q.drop_last(), j, k);
            assert((seq![j] + q).drop_last() =~= seq![j] + q.drop_last());
            assert((seq![j] + q).last() == q.last());
        }
    }
    pub broadcast proof fn lemma_occ_empty<K: JobKey, M: Message>(q: Seq<Job<K, M>>, k: K)
        requires q.len() == 0,
        ensures #[trigger] occ(q, k) == 0,
    {}
    pub broadcast group group_occ { lemma_occ_push, lemma_occ_pop_front, lemma_occ_push_front, lemma_occ_empty }
    }
}
pub use keycount::*;

verus! {
/// pending-key bookkeeping (C14 key affinity across resize/replacement relies on it): the counter of a key equals the
/// number of queued jobs with that key plus one if a job with that key is in flight.  `excess` is the difference.
pub open spec fn kc<K>(m: Map<K, nat>, k: K) -> nat { if m.contains_key(k) { m[k] } else { 0 } }
pub open spec fn inflight<K>(c: Map<K, JobOptions>, k: K) -> nat { if c.contains_key(k) { 1 } else { 0 } }
#[verifier::inline]
pub open spec fn excess<K: JobKey, M: Message>(w: WorkerProperties<K, M>, k: K) -> int {
    kc(w.pending_key_counts@, k) - occ(w.message_queue@, k) - inflight(w.curr_jobs@, k)
}
pub open spec fn balanced<K: JobKey, M: Message>(w: WorkerProperties<K, M>) -> bool { forall|k: K| #![trigger kc(w.pending_key_counts@, k)] excess(w, k) == 0 }
pub open spec fn nonneg<K: JobKey, M: Message>(w: WorkerProperties<K, M>) -> bool { forall|k: K| #![trigger kc(w.pending_key_counts@, k)] excess(w, k) >= 0 }
pub open spec fn jid<K: JobKey, M: Message>(j: Job<K, M>) -> int { jid_of(j.key, j.msg) }
pub open spec fn expired<K: JobKey, M: Message>(j: Job<K, M>) -> bool { opts_expired(j.options) }
pub open spec fn wm_jid<K: JobKey, M: Message>(m: WorkerMessage<K, M>) -> int {
    match m { WorkerMessage::Dispatch(j) => jid(j), _ => -1 }
}
/// queue contents as job identities
pub open spec fn ids<K: JobKey, M: Message>(q: Seq<Job<K, M>>) -> Seq<int> { q.map_values(|j: Job<K, M>| jid(j)) }

/// representation invariant of a worker record: at most one job in flight (C14 "a worker handles one job at a time")
pub open spec fn wf<K: JobKey, M: Message>(w: WorkerProperties<K, M>) -> bool {
    w.curr_jobs@.dom().len() <= 1
}
pub open spec fn idle<K: JobKey, M: Message>(w: WorkerProperties<K, M>) -> bool { w.curr_jobs@.dom() =~= Set::<K>::empty() }
/// everything but queue / in-flight map / pending counters / heartbeat is untouched
pub open spec fn same_config<K: JobKey, M: Message>(a: WorkerProperties<K, M>, b: WorkerProperties<K, M>) -> bool {
    a.wid == b.wid && a.actor == b.actor && a.factory_name == b.factory_name && a.handle == b.handle
    && a.discard_settings == b.discard_settings && a.discard_handler == b.discard_handler && a.stats == b.stats
    && a.is_draining == b.is_draining
}
/// the effects added after `a` are exactly one TtlExpired discard per job of `gone`, in queue order (when a handler is installed)
pub open spec fn ttl_discards_logged<K: JobKey, M: Message>(a: Seq<Effect>, b: Seq<Effect>, off: int, gone: Seq<Job<K, M>>, handler: bool) -> bool {
    if handler {
        b.len() >= a.len() + off + gone.len()
        && forall|i: int| 0 <= i < gone.len() ==> b[a.len() + off + i] == Effect::Discard(DiscardReason::TtlExpired, jid(#[trigger] gone[i]))
    } else { true }
}
/// position-wise same jobs (identity and expiry; bookkeeping fields such as worker_time / the answered acceptance port may differ)
pub open spec fn same_jobs<K: JobKey, M: Message>(a: Seq<Job<K, M>>, b: Seq<Job<K, M>>) -> bool {
    a.len() == b.len() && forall|i: int| 0 <= i < a.len() ==> jid(#[trigger] a[i]) == jid(b[i]) && expired(a[i]) == expired(b[i])
}
/// `b` is `a` with the job `j` put back in front (a failed hand-over keeps the job at the queue head)
pub open spec fn restored_at_head<K: JobKey, M: Message>(a: Seq<Job<K, M>>, b: Seq<Job<K, M>>, j: Job<K, M>) -> bool {
    b.len() == a.len() + 1 && jid(b[0]) == jid(j) && expired(b[0]) == expired(j) && (forall|i: int| 1 <= i < b.len() ==> #[trigger] b[i] == a[i - 1])
}
pub open spec fn settings_of(s: WorkerDiscardSettings) -> Option<(usize, DiscardMode)> {
    match s { WorkerDiscardSettings::None => None, WorkerDiscardSettings::Static { limit, mode } => Some((limit, mode)) }
}
/// the front-door shedding condition of a worker queue: newest-mode limit reached on a busy worker
pub open spec fn sheds_newest<K: JobKey, M: Message>(w: WorkerProperties<K, M>) -> bool {
    settings_of(w.discard_settings) matches Some((l, m)) && m == DiscardMode::Newest
        && !(idle(w) && w.message_queue@.len() == 0) && w.message_queue@.len() >= l
}
pub open spec fn max_int(a: int, b: int) -> int { if a >= b { a } else { b } }
pub proof fn lemma_single_empty<K>(m: Map<K, JobOptions>, k: K)
    requires m.dom().len() <= 1, m.contains_key(k),
    ensures m.remove(k).dom() =~= Set::<K>::empty(), m.dom() =~= set![k],
{
    let d = m.dom();
    assert(d.remove(k).len() == d.len() - 1);
    assert(d.remove(k).len() == 0);
    assert(d.remove(k) =~= Set::<K>::empty());
    assert(m.remove(k).dom() =~= d.remove(k));
    assert forall|x: K| d.contains(x) implies x == k by { if x != k { assert(d.remove(k).contains(x)); } }
}
pub proof fn lemma_insert_into_empty<K>(m: Map<K, JobOptions>, k: K, v: JobOptions)
    requires m.dom() =~= Set::<K>::empty(),
    ensures m.insert(k, v).dom().len() == 1,
{
    assert(m.insert(k, v).dom() =~= set![k]);
}
} // verus!

// ------------------------------------------------------------------ dependency stubs with ghost effect log
#[verus_verify]
impl<K: JobKey, M: Message> WorkerRef<K, M> {
    /// A-chan: `cast` either enqueues the message in the worker's mailbox or hands the same message back
    #[verus_verify(external_body)]
    #[verus_spec(r =>
        with Tracked(log): Tracked<&mut EffectLog>
        ensures
            r is Ok ==> final(log).s == old(log).s.push(Effect::Cast(wm_jid(msg))),
            r matches Err(e) ==> final(log).s == old(log).s && e == MessagingErr::SendErr(msg) && gone(*self),
    )]
    pub fn cast(&self, msg: WorkerMessage<K, M>) -> Result<(), MessagingErr<WorkerMessage<K, M>>> { unimplemented!() }
}

#[verus_verify]
impl<K: JobKey, M: Message> ReplyPort<K, M> {
    #[verus_verify(external_body)]
    #[verus_spec(r =>
        with Tracked(log): Tracked<&mut EffectLog>
        ensures final(log).s == old(log).s.push(match v { None => Effect::Accepted, Some(j) => Effect::Rejected(jid(j)) }),
    )]
    pub fn send(self, v: Option<Job<K, M>>) -> Result<(), ()> { unimplemented!() }
}

#[verus_verify]
impl<K: JobKey, M: Message> DiscardHandlerObj<K, M> {
    /// user callback (R9 stand-in for `dyn DiscardHandler`); ASSUMED not to change the job's identity, options or acceptance port
    #[verus_verify(external_body)]
    #[verus_spec(
        with Tracked(log): Tracked<&mut EffectLog>
        ensures
            final(log).s == old(log).s.push(Effect::Discard(reason, jid(*old(job)))),
            jid(*final(job)) == jid(*old(job)), final(job).options == old(job).options, final(job).accepted == old(job).accepted, final(job).key == old(job).key,
    )]
    pub fn discard(&self, reason: DiscardReason, job: &mut Job<K, M>) { unimplemented!() }
}

#[verus_verify]
impl StatsStub {
    #[verus_verify(external_body)]
    pub fn job_ttl_expired(&self, f: &String, n: usize) { unimplemented!() }
    #[verus_verify(external_body)]
    pub fn job_discarded(&self, f: &String) { unimplemented!() }
}

/// methods of the real structs that are NOT under contract in this unit: TRUSTED signatures with assumed specs
#[verus_verify]
impl<TKey: JobKey, TMsg: Message> Job<TKey, TMsg> {
    /// reads the clock through the TTL timer (A-clock)
    #[verus_verify(external_body)]
    #[verus_spec(r => ensures r == expired(*self))]
    pub fn is_expired(&self) -> bool { unimplemented!() }
    /// stamps options.worker_time; ASSUMED not to affect identity, expiry or the acceptance port
    #[verus_verify(external_body)]
    #[verus_spec(ensures jid(*final(self)) == jid(*old(self)), final(self).key == old(self).key, final(self).accepted == old(self).accepted,
        expired(*final(self)) == expired(*old(self)))]
    pub fn set_worker_time(&mut self) { unimplemented!() }
}

#[verus_verify]
impl<TKey: JobKey, TMsg: Message> WorkerProperties<TKey, TMsg> {
    /// TRUSTED (HashMap::entry().or_default() is outside Verus): touches only pending_key_counts
    #[verus_verify(external_body)]
    #[verus_spec(ensures
        final(self).message_queue == old(self).message_queue, final(self).curr_jobs == old(self).curr_jobs,
        final(self).heartbeat == old(self).heartbeat, same_config(*old(self), *final(self)),
        forall|k: TKey| #[trigger] kc(final(self).pending_key_counts@, k) == kc(old(self).pending_key_counts@, k) + (if k == *key { 1nat } else { 0nat }))]
    pub fn track_pending_key(&mut self, key: &TKey) { unimplemented!() }
    #[verus_verify(external_body)]
    #[verus_spec(ensures
        final(self).message_queue == old(self).message_queue, final(self).curr_jobs == old(self).curr_jobs,
        final(self).heartbeat == old(self).heartbeat, same_config(*old(self), *final(self)),
        forall|k: TKey| #[trigger] kc(final(self).pending_key_counts@, k) == (if k == *key && kc(old(self).pending_key_counts@, k) >= 1 { (kc(old(self).pending_key_counts@, k) - 1) as nat } else { kc(old(self).pending_key_counts@, k) }))]
    pub fn untrack_pending_key(&mut self, key: &TKey) { unimplemented!() }
}
