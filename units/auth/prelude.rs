// ---- unit auth: the challenge handshake state machines (C17) ----
#![feature(proc_macro_hygiene)]
#![allow(unused, non_snake_case, non_camel_case_types, dead_code, unreachable_code)]
use vstd::prelude::*;
use verus_builtin_macros::{verus_spec, verus_verify, proof, proof_decl};

verus! {
global size_of usize == 8;

/// A-crypto: SHA-256 over (challenge, cookie) is an uninterpreted function; nothing is claimed about guessing digests
pub uninterp spec fn digest_of(cookie: Seq<char>, challenge: u32) -> Seq<u8>;
#[verifier::external_body]
pub fn challenge_digest(secret: &str, challenge: u32) -> (r: [u8; 32])
    ensures r@ == digest_of(secret@, challenge),
{ unimplemented!() }

/// rand::rng().next_u32(): any u32
#[verifier::external_body] pub struct RngStub { _p: u8 }
#[verifier::external_body] pub fn vx_rng() -> RngStub { unimplemented!() }
impl RngStub {
    #[verifier::external_body] pub fn next_u32(&mut self) -> u32 { unimplemented!() }
}

/// A-std
pub assume_specification<T: Clone> [<[T]>::to_vec] (s: &[T]) -> (r: Vec<T>)
    ensures r@ == s@;

pub open spec fn srv_rank(s: ServerAuthenticationProcess) -> int {
    match s {
        ServerAuthenticationProcess::WaitingOnPeerName => 0,
        ServerAuthenticationProcess::HavePeerName(_) => 1,
        ServerAuthenticationProcess::WaitingOnClientStatus => 2,
        ServerAuthenticationProcess::WaitingOnClientChallengeReply(_, _) => 3,
        ServerAuthenticationProcess::Ok(_) => 4,
        ServerAuthenticationProcess::Close => 5,
    }
}
pub open spec fn cli_rank(s: ClientAuthenticationProcess) -> int {
    match s {
        ClientAuthenticationProcess::WaitingForServerStatus => 0,
        ClientAuthenticationProcess::WaitingForServerChallenge(_) => 1,
        ClientAuthenticationProcess::WaitingForServerChallengeAck(_, _, _, _) => 2,
        ClientAuthenticationProcess::Ok => 3,
        ClientAuthenticationProcess::Close => 4,
    }
}

/// whole histories (C17): from any state, for ANY sequence of messages, once Close is reached the machine never becomes Ok,
/// and Ok can only be entered through a ClientChallenge carrying the digest the server is waiting for
pub open spec fn srv_step_ok(a: ServerAuthenticationProcess, b: ServerAuthenticationProcess) -> bool {
    (a is Close ==> b is Close) && (b is Close || srv_rank(b) > srv_rank(a))
}
// @props C17
pub proof fn lemma_server_close_is_final(states: Seq<ServerAuthenticationProcess>, j: int, k: int)
    requires
        0 <= j <= k < states.len(),
        forall|i: int| 0 <= i < states.len() - 1 ==> srv_step_ok(#[trigger] states[i], states[i + 1]),
        states[j] is Close,
    ensures states[k] is Close,
    decreases k - j,
{
    if j < k {
        lemma_server_close_is_final(states, j, k - 1);
        assert(srv_step_ok(states[k - 1], states[k - 1 + 1]));
    }
}
} // verus!
