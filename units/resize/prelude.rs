// ---- unit resize: prelude (FactoryState::resize_pool / grow_pool: which worker slots exist after a resize, and with what discard
// configuration a new worker is built) ----
#![feature(proc_macro_hygiene)]
#![allow(unused, non_snake_case, non_camel_case_types, dead_code, unreachable_code)]
use vstd::prelude::*;
use verus_builtin_macros::{verus_spec, verus_verify, proof, proof_decl};
use std::sync::Arc;
use std::cmp::Ordering;

verus! {
pub type WorkerId = usize;
pub trait JobKey: Sized {}
pub trait Message: Sized {}

#[verifier::external_body] pub struct Opaque { _p: u8 }
#[verifier::external_body] pub struct StatsStub { _p: u8 }
#[verifier::external_body] pub struct ActorProcessingErr { _p: u8 }
#[verifier::external_body] pub struct SpawnErr { _p: u8 }
#[verifier::external_body] pub struct FactoryRef { _p: u8 }
#[verifier::external_body] pub struct ActorCell { _p: u8 }
#[verifier::external_body] pub struct ActorId { _p: u8 }
#[verifier::external_body] pub struct WorkerRef { _p: u8 }
#[verifier::external_body] pub struct JoinHandle { _p: u8 }
#[verifier::external_body] pub struct BuilderBox { _p: u8 }
#[verifier::external_body] pub struct WorkerObj { _p: u8 }
#[verifier::external_body] pub struct StartArg { _p: u8 }
#[verifier::external_body] pub struct ActorIndex { _p: u8 }
#[verifier::external_body] #[verifier::reject_recursive_types(K)] #[verifier::reject_recursive_types(M)]
pub struct DiscardHandlerObj<K, M> { _p: core::marker::PhantomData<(K, M)> }
#[verifier::external_body] #[verifier::reject_recursive_types(K)] #[verifier::reject_recursive_types(M)]
pub struct Job<K, M> { _p: core::marker::PhantomData<(K, M)> }
pub struct WorkerStartContext { pub wid: WorkerId, pub factory: FactoryRef, pub custom_start: StartArg }
#[verifier::external_body] pub struct DeadMansSwitch { _p: u8 }
impl DeadMansSwitch {
    #[verifier::external_body]
    pub fn is_some(&self) -> bool { unimplemented!() }
}
impl core::convert::From<SpawnErr> for ActorProcessingErr {
    #[verifier::external_body]
    fn from(e: SpawnErr) -> (r: Self) { unimplemented!() }
}
impl vstd::std_specs::convert::FromSpecImpl<SpawnErr> for ActorProcessingErr {
    open spec fn obeys_from_spec() -> bool { false }
    uninterp spec fn from_spec(v: SpawnErr) -> ActorProcessingErr;
}
/// A-std: `std::cmp::min` on usize (pathmap)
#[verifier::external_body]
pub fn vx_min_usize(a: usize, b: usize) -> (r: usize)
    ensures r == (if a <= b { a } else { b })
{ unimplemented!() }
/// A-std: the reflexive `From` impl used by `?` is the identity
pub assume_specification<T> [<T as core::convert::From<T>>::from] (t: T) -> (r: T)
    ensures r == t;

impl FactoryRef {
    #[verifier::external_body]
    pub fn vx_clone(&self) -> FactoryRef { unimplemented!() }
    #[verifier::external_body]
    pub fn get_cell(&self) -> ActorCell { unimplemented!() }
}
impl WorkerRef {
    #[verifier::external_body]
    pub fn get_id(&self) -> ActorId { unimplemented!() }
}
impl BuilderBox {
    #[verifier::external_body]
    pub fn build(&mut self, wid: WorkerId) -> (WorkerObj, StartArg) { unimplemented!() }
}
impl StatsStub {
    #[verifier::external_body]
    pub fn vx_clone(&self) -> StatsStub { unimplemented!() }
}
impl ActorIndex {
    #[verifier::external_body]
    pub fn insert(&mut self, k: ActorId, v: WorkerId) -> Option<WorkerId> { unimplemented!() }
}
/// `Actor::spawn_linked(None, handler, context, supervisor).await` (R7, pathmap): starts the worker actor; may fail
#[verifier::external_body]
pub fn vx_spawn_linked(name: Option<String>, w: WorkerObj, spec: WorkerStartContext, sup: ActorCell) -> Result<(WorkerRef, JoinHandle), SpawnErr> { unimplemented!() }

pub trait VxClone: Sized {
    fn vx_clone(&self) -> (r: Self) ensures r == *self;
}
impl<K, M> VxClone for Option<Arc<DiscardHandlerObj<K, M>>> {
    #[verifier::external_body]
    fn vx_clone(&self) -> (r: Self) { unimplemented!() }
}
impl VxClone for String {
    #[verifier::external_body]
    fn vx_clone(&self) -> (r: Self) { unimplemented!() }
}

/// R9 stand-in for the `Router` trait: whether it queues at the factory is a constant of the router
pub trait Router<TKey: JobKey, TMsg: Message>: Sized {
    spec fn factory_queueing(&self) -> bool;
    fn is_factory_queueing(&self) -> (r: bool)
        ensures r == self.factory_queueing();
    fn on_worker_availability_change(&mut self, wid: WorkerId, available: bool)
        ensures final(self).factory_queueing() == old(self).factory_queueing();
}
pub trait Queue<TKey: JobKey, TMsg: Message>: Sized {
    fn peek(&self) -> Option<&Job<TKey, TMsg>>;
}

/// R9 stand-in for `HashMap<WorkerId, WorkerProperties>` with its map view
#[verifier::external_body] #[verifier::reject_recursive_types(K)] #[verifier::reject_recursive_types(M)]
pub struct Pool<K, M> { _p: core::marker::PhantomData<(K, M)> }
impl<K: JobKey, M: Message> Pool<K, M> {
    pub uninterp spec fn m(&self) -> Map<WorkerId, WorkerProperties<K, M>>;
    /// A-std (HashMap::get_mut)
    #[verifier::external_body]
    pub fn get_mut(&mut self, k: &WorkerId) -> (r: Option<&mut WorkerProperties<K, M>>)
        ensures
            r is Some <==> old(self).m().contains_key(*k),
            r is None ==> final(self).m() == old(self).m(),
            r matches Some(w) ==> *w == old(self).m()[*k] && final(self).m() == old(self).m().insert(*k, *final(w)),
    { unimplemented!() }
    /// A-std (HashMap::insert)
    #[verifier::external_body]
    pub fn insert(&mut self, k: WorkerId, v: WorkerProperties<K, M>) -> (r: Option<WorkerProperties<K, M>>)
        ensures final(self).m() == old(self).m().insert(k, v),
    { unimplemented!() }
}

pub open spec fn worker_view(factory_queueing: bool, s: DiscardSettings) -> WorkerDiscardSettings {
    if factory_queueing { WorkerDiscardSettings::None } else {
        match s {
            DiscardSettings::None => WorkerDiscardSettings::None,
            DiscardSettings::Static { limit, mode } => WorkerDiscardSettings::Static { limit, mode },
            DiscardSettings::Dynamic { limit, mode, updater } => WorkerDiscardSettings::Static { limit, mode },
        }
    }
}
impl Clone for DiscardMode {
    fn clone(&self) -> (r: Self) ensures r == *self { match self { DiscardMode::Oldest => DiscardMode::Oldest, DiscardMode::Newest => DiscardMode::Newest } }
}
impl Copy for DiscardMode {}

/// the discard configuration of every worker record that was there is as it was, and nobody left
pub open spec fn kept<K: JobKey, M: Message>(a: Pool<K, M>, b: Pool<K, M>) -> bool {
    forall|w: WorkerId| #[trigger] a.m().contains_key(w) ==> b.m().contains_key(w)
        && b.m()[w].discard_settings == a.m()[w].discard_settings && b.m()[w].discard_handler == a.m()[w].discard_handler
}
/// every record that joined was built from the factory's configuration `(ws, h)`
pub open spec fn joined_with<K: JobKey, M: Message>(a: Pool<K, M>, b: Pool<K, M>, ws: WorkerDiscardSettings, h: Option<Arc<DiscardHandlerObj<K, M>>>) -> bool {
    forall|w: WorkerId| #[trigger] b.m().contains_key(w) && !a.m().contains_key(w) ==> b.m()[w].discard_settings == ws && b.m()[w].discard_handler == h
}
/// every slot in [lo, hi) holds a worker that is not marked for removal
pub open spec fn live_slots<K: JobKey, M: Message>(p: Pool<K, M>, lo: int, hi: int) -> bool {
    forall|w: WorkerId| lo <= w < hi ==> #[trigger] p.m().contains_key(w) && !p.m()[w].is_draining
}
pub open spec fn every_worker_enforces<K: JobKey, M: Message>(p: Pool<K, M>, ws: WorkerDiscardSettings) -> bool {
    forall|w: WorkerId| #[trigger] p.m().contains_key(w) ==> p.m()[w].discard_settings == ws
}
pub open spec fn every_worker_reports_to<K: JobKey, M: Message>(p: Pool<K, M>, h: Option<Arc<DiscardHandlerObj<K, M>>>) -> bool {
    forall|w: WorkerId| #[trigger] p.m().contains_key(w) ==> p.m()[w].discard_handler == h
}
/// the same slots, each with the discard configuration and draining mark it had
pub open spec fn same_records<K: JobKey, M: Message>(a: Pool<K, M>, b: Pool<K, M>) -> bool {
    a.m().dom() == b.m().dom() && forall|w: WorkerId| #[trigger] a.m().contains_key(w) ==> b.m()[w].discard_settings == a.m()[w].discard_settings
        && b.m()[w].discard_handler == a.m()[w].discard_handler && b.m()[w].is_draining == a.m()[w].is_draining
}
/// whoever is in `b` but was not in `a` sits in a slot of [lo, hi)
pub open spec fn joined_only_in<K: JobKey, M: Message>(a: Pool<K, M>, b: Pool<K, M>, lo: int, hi: int) -> bool {
    forall|w: WorkerId| #[trigger] b.m().contains_key(w) ==> a.m().contains_key(w) || lo <= w < hi
}
pub open spec fn min_usize(a: usize, b: usize) -> usize { if a <= b { a } else { b } }
pub open spec fn only_the_pool_router_and_index_differ<K: JobKey, M: Message, R: Router<K, M>, Q: Queue<K, M>>(a: FactoryState<K, M, R, Q>, b: FactoryState<K, M, R, Q>) -> bool {
    a == (FactoryState { pool: a.pool, router: a.router, worker_by_actor: a.worker_by_actor, worker_builder: a.worker_builder, ..b })
}
} // verus!

#[verus_verify]
impl<K: JobKey, M: Message> WorkerProperties<K, M> {
    /// constructor (worker.rs): ASSUMED to store what it is given; a new worker is not draining
    #[verus_verify(external_body)]
    #[verus_spec(r => ensures r.wid == wid, r.discard_settings == discard_settings, r.discard_handler == discard_handler, !r.is_draining)]
    pub fn new(factory_name: String, wid: WorkerId, actor: WorkerRef, discard_settings: WorkerDiscardSettings, discard_handler: Option<Arc<DiscardHandlerObj<K, M>>>, handle: JoinHandle, stats: StatsStub) -> Self { unimplemented!() }
    /// contract proved in unit worker's vocabulary: sets the flag, nothing else
    #[verus_verify(external_body)]
    #[verus_spec(ensures *final(self) == (WorkerProperties { is_draining: d, ..*old(self) }))]
    pub fn set_draining(&mut self, d: bool) { unimplemented!() }
    #[verus_verify(external_body)]
    pub fn is_available(&self) -> bool { unimplemented!() }
}

#[verus_verify]
impl<TKey: JobKey, TMsg: Message, TRouter: Router<TKey, TMsg>, TQueue: Queue<TKey, TMsg>> FactoryState<TKey, TMsg, TRouter, TQueue> {
    /// pings every worker (the loop itself is under contract in unit settings, inlined into update_settings): ASSUMED to touch only
    /// heartbeats
    #[verus_verify(external_body)]
    #[verus_spec(ensures only_the_pool_router_and_index_differ(*final(self), *old(self)), final(self).router == old(self).router,
        final(self).pool.m().dom() == old(self).pool.m().dom(),
        forall|w: WorkerId| #[trigger] old(self).pool.m().contains_key(w) ==> final(self).pool.m()[w].discard_settings == old(self).pool.m()[w].discard_settings
            && final(self).pool.m()[w].discard_handler == old(self).pool.m()[w].discard_handler && final(self).pool.m()[w].is_draining == old(self).pool.m()[w].is_draining)]
    pub fn ping_workers(&mut self) { unimplemented!() }
    /// unit factory proves (in its effect-log vocabulary) that shrink touches only the tail [size-n, size): idle workers there are
    /// removed, busy ones marked draining. ASSUMED here in state vocabulary: records that stay keep their discard configuration,
    /// nobody joins, the factory-level fields are not touched
    #[verus_verify(external_body)]
    #[verus_spec(
        requires to_remove <= old(self).pool_size
        ensures only_the_pool_router_and_index_differ(*final(self), *old(self)), final(self).router.factory_queueing() == old(self).router.factory_queueing(),
        forall|w: WorkerId| #[trigger] final(self).pool.m().contains_key(w) ==> old(self).pool.m().contains_key(w)
            && final(self).pool.m()[w].discard_settings == old(self).pool.m()[w].discard_settings && final(self).pool.m()[w].discard_handler == old(self).pool.m()[w].discard_handler)]
    pub fn shrink_pool(&mut self, to_remove: usize) { unimplemented!() }
    /// unit routenext proves its frame (pool size, drain state); ASSUMED here: worker records keep their discard configuration, nobody
    /// joins or leaves the pool, factory-level settings untouched
    #[verus_verify(external_body)]
    #[verus_spec(r => ensures final(self).pool_size == old(self).pool_size, final(self).discard_settings == old(self).discard_settings,
        final(self).discard_handler == old(self).discard_handler, final(self).router.factory_queueing() == old(self).router.factory_queueing(),
        final(self).pool.m().dom() == old(self).pool.m().dom(),
        forall|w: WorkerId| #[trigger] old(self).pool.m().contains_key(w) ==> final(self).pool.m()[w].discard_settings == old(self).pool.m()[w].discard_settings
            && final(self).pool.m()[w].discard_handler == old(self).pool.m()[w].discard_handler && final(self).pool.m()[w].is_draining == old(self).pool.m()[w].is_draining)]
    pub fn try_route_next_active_job(&mut self, worker_hint: Option<WorkerId>) -> Result<(), ActorProcessingErr> { unimplemented!() }
}
