// ---- unit registry: prelude ----
#![feature(proc_macro_hygiene)]
#![allow(unused, non_snake_case, non_camel_case_types, dead_code, unreachable_code, non_upper_case_globals)]
use vstd::prelude::*;
use verus_builtin_macros::{verus_spec, verus_verify, proof, proof_decl};
use vstd::std_specs::cmp::*;

verus! {
broadcast use effectlog::group_effectlog;

pub type ActorName = String;
/// stand-ins (R9 on trait bounds, via pathmap) for `K: AsRef<str>` / `K: Into<String>`: same method signatures, total,
/// which string they yield is not constrained
pub trait NameRef<T: ?Sized> { fn as_ref(&self) -> &T; }
pub trait NameInto<T>: Sized { fn into(self) -> T; }
/// ActorCell stand-in: opaque handle; `@` = identity of the actor
#[verifier::external_body] pub struct ActorCell { _p: u8 }
impl View for ActorCell { type V = int; uninterp spec fn view(&self) -> int; }
impl Clone for ActorCell {
    #[verifier::external_body]
    fn clone(&self) -> (r: Self) ensures r == *self { unimplemented!() }
}

impl ActorCell {
    /// reading the occupant's status is harmless; what a caller may do with it is decided by the guard stubs below
    #[verifier::external_body]
    pub fn get_status(&self) -> ActorStatus { unimplemented!() }
}
// A-std: derive(PartialEq, PartialOrd) on the fieldless repr(u8) enum ActorStatus compares discriminants
pub open spec fn status_cmp(a: ActorStatus, b: ActorStatus) -> Option<core::cmp::Ordering> {
    if (a as u8) < (b as u8) { Some(core::cmp::Ordering::Less) }
    else if (a as u8) == (b as u8) { Some(core::cmp::Ordering::Equal) }
    else { Some(core::cmp::Ordering::Greater) }
}
pub assume_specification [<ActorStatus as PartialEq>::eq] (a: &ActorStatus, b: &ActorStatus) -> (r: bool)
    ensures r == (*a == *b);
pub assume_specification [<ActorStatus as PartialOrd>::partial_cmp] (a: &ActorStatus, b: &ActorStatus) -> (r: Option<core::cmp::Ordering>)
    ensures r == status_cmp(*a, *b);
impl PartialOrdSpecImpl for ActorStatus {
    open spec fn obeys_partial_cmp_spec() -> bool { true }
    open spec fn partial_cmp_spec(&self, b: &ActorStatus) -> Option<core::cmp::Ordering> { status_cmp(*self, *b) }
}
impl PartialEqSpecImpl for ActorStatus {
    open spec fn obeys_eq_spec() -> bool { true }
    open spec fn eq_spec(&self, b: &ActorStatus) -> bool { *self == *b }
}

// ------------------------------------------------------------------ dashmap stand-ins (A-dashmap: each entry operation is atomic for its key)
#[verifier::external_body] pub struct RegistryMap { _p: u8 }
#[verifier::external_body] pub struct OccupiedEntry { _p: u8 }
#[verifier::external_body] pub struct VacantEntry { _p: u8 }
#[verifier::external_body] pub struct MapRef { _p: u8 }
pub enum Entry { Occupied(OccupiedEntry), Vacant(VacantEntry) }
pub use Entry::{Occupied, Vacant};

impl OccupiedEntry { pub uninterp spec fn key_view(&self) -> Seq<char>; }
impl VacantEntry { pub uninterp spec fn key_view(&self) -> Seq<char>; }
impl MapRef { pub uninterp spec fn value_view(&self) -> ActorCell; }

/// `static ACTOR_REGISTRY: OnceCell<Arc<DashMap<..>>>` stand-in
#[verifier::external_body] pub struct RegistryCell { _p: u8 }
} // verus!

pub mod vocab {
    use super::*;
    verus! {
    pub enum Effect {
        /// DashMap::entry(key): the slot was (occupied?) at that atomic moment
        Entry(Seq<char>, bool),
        /// VacantEntry::insert: writes (key, actor) into the slot found vacant
        Insert(Seq<char>, ActorCell),
        /// DashMap::remove(key)
        Remove(Seq<char>),
        /// DashMap::get(key) and what it held
        Get(Seq<char>, Option<ActorCell>),
        /// DashMap::try_get(key): a look that gives up (`Locked`) when the shard is busy -- it does not say whether the name is held
        TryGet(Seq<char>),
    }
    pub enum Kind { Entry, Insert, Remove, Get, TryGet }
    pub open spec fn kind_of(e: Effect) -> Kind {
        match e { Effect::Entry(_, _) => Kind::Entry, Effect::Insert(_, _) => Kind::Insert, Effect::Remove(_) => Kind::Remove, Effect::Get(_, _) => Kind::Get, Effect::TryGet(_) => Kind::TryGet }
    }
    }
}
pub use vocab::*;
// @include ../_common/effectlog.rs

verus! {
/// dashmap::try_result::TryResult
pub enum TryResult<R> { Present(R), Absent, Locked }
pub open spec fn entry_key(e: Effect) -> Seq<char> { match e { Effect::Entry(k, _) => k, _ => Seq::empty() } }
pub open spec fn entry_occupied(e: Effect) -> bool { match e { Effect::Entry(_, o) => o, _ => false } }
// ------------------------------------------------------------------ abstract registry (what the atomic entry operations mean) and the C10 lemma
pub enum Op { Register(Seq<char>, int), Unregister(Seq<char>) }
/// register = entry(); insert only if vacant.  Returns (new map, succeeded)
pub open spec fn apply(m: Map<Seq<char>, int>, op: Op) -> (Map<Seq<char>, int>, bool) {
    match op {
        Op::Register(n, a) => if m.contains_key(n) { (m, false) } else { (m.insert(n, a), true) },
        Op::Unregister(n) => (m.remove(n), true),
    }
}
pub open spec fn run(m: Map<Seq<char>, int>, ops: Seq<Op>) -> Map<Seq<char>, int>
    decreases ops.len(),
{
    if ops.len() == 0 { m } else { apply(run(m, ops.drop_last()), ops.last()).0 }
}
/// at any moment a name maps to at most one actor (a Map), a successful register is the only way to become the holder, and
/// between a successful register of `n` and the next unregister of `n` every other register of `n` fails and leaves the holder alone
// @props C10
pub proof fn lemma_one_holder_per_name(m: Map<Seq<char>, int>, ops: Seq<Op>, n: Seq<char>, a: int)
    requires
        m.contains_key(n) && m[n] == a,
        forall|i: int| 0 <= i < ops.len() ==> !(#[trigger] ops[i] matches Op::Unregister(k) && k == n),
    ensures
        run(m, ops).contains_key(n) && run(m, ops)[n] == a,
        forall|b: int| !apply(run(m, ops), Op::Register(n, b)).1,
    decreases ops.len(),
{
    if ops.len() > 0 {
        let pre = ops.drop_last();
        assert forall|i: int| 0 <= i < pre.len() implies !(#[trigger] pre[i] matches Op::Unregister(k) && k == n) by { assert(pre[i] == ops[i]); }
        lemma_one_holder_per_name(m, pre, n, a);
        let _ = ops[ops.len() - 1];
    }
}
} // verus!

#[verus_verify]
impl RegistryMap {
    #[verus_verify(external_body)]
    #[verus_spec(r =>
        with Tracked(log): Tracked<&mut EffectLog>
        ensures
            final(log).s == old(log).s.push(Effect::Entry(key@, r is Occupied)),
            r matches Entry::Occupied(o) ==> o.key_view() == key@,
            r matches Entry::Vacant(v) ==> v.key_view() == key@,
    )]
    pub fn entry(&self, key: String) -> Entry { unimplemented!() }

    /// looking whether a name is taken is harmless in itself (it is one atomic step, like `get`)
    #[verus_verify(external_body)]
    #[verus_spec(r =>
        with Tracked(log): Tracked<&mut EffectLog>
        ensures final(log).s == old(log).s.push(Effect::Get(key@, if r { Some(arbitrary()) } else { None })),
    )]
    pub fn contains_key(&self, key: &str) -> bool { unimplemented!() }

    /// guard stub: a blind overwrite of a slot is never allowed on the name registry
    #[verus_verify(external_body)]
    #[verus_spec(requires false)]
    pub fn insert(&self, key: String, value: ActorCell) -> Option<ActorCell> { unimplemented!() }

    #[verus_verify(external_body)]
    #[verus_spec(r =>
        with Tracked(log): Tracked<&mut EffectLog>
        ensures final(log).s == old(log).s.push(Effect::Remove(key@)),
    )]
    pub fn remove(&self, key: &str) -> Option<(String, ActorCell)> { unimplemented!() }

    #[verus_verify(external_body)]
    #[verus_spec(r =>
        with Tracked(log): Tracked<&mut EffectLog>
        ensures final(log).s == old(log).s.push(Effect::Get(key@, match r { Some(x) => Some(x.value_view()), None => None })),
    )]
    pub fn get(&self, key: &str) -> Option<MapRef> { unimplemented!() }
    /// `DashMap::try_get`: may answer `Locked` at any time, whatever the map holds
    #[verus_verify(external_body)]
    #[verus_spec(r =>
        with Tracked(log): Tracked<&mut EffectLog>
        ensures final(log).s == old(log).s.push(Effect::TryGet(key@)),
    )]
    pub fn try_get(&self, key: &str) -> TryResult<MapRef> { unimplemented!() }
}

#[verus_verify]
impl OccupiedEntry {
    #[verus_verify(external_body)]
    #[verus_spec(r => ensures r@ == self.key_view())]
    pub fn key(&self) -> &String { unimplemented!() }
    /// looking at the holder is harmless
    #[verus_verify(external_body)]
    pub fn get(&self) -> &ActorCell { unimplemented!() }
    /// guard stub: the holder of an occupied slot is never replaced
    #[verus_verify(external_body)]
    #[verus_spec(requires false)]
    pub fn insert(&mut self, value: ActorCell) -> ActorCell { unimplemented!() }
    /// guard stub: nor handed out for mutation
    #[verus_verify(external_body)]
    #[verus_spec(requires false)]
    pub fn get_mut(&mut self) -> &mut ActorCell { unimplemented!() }
    #[verus_verify(external_body)]
    #[verus_spec(requires false)]
    pub fn remove(self) -> ActorCell { unimplemented!() }
}

#[verus_verify]
impl VacantEntry {
    #[verus_verify(external_body)]
    #[verus_spec(
        with Tracked(log): Tracked<&mut EffectLog>
        ensures final(log).s == old(log).s.push(Effect::Insert(self.key_view(), value)),
    )]
    pub fn insert(self, value: ActorCell) { unimplemented!() }
}

#[verus_verify]
impl MapRef {
    #[verus_verify(external_body)]
    #[verus_spec(r => ensures *r == self.value_view())]
    pub fn value(&self) -> &ActorCell { unimplemented!() }
}

#[verus_verify]
impl RegistryCell {
    #[verus_verify(external_body)]
    pub fn get(&self) -> Option<&'static RegistryMap> { unimplemented!() }
}
#[verus_verify(external_body)]
pub fn get_actor_registry() -> &'static RegistryMap { unimplemented!() }
verus! {
#[verifier::external_body]
pub const ACTOR_REGISTRY: RegistryCell = RegistryCell { _p: 0 };
}

