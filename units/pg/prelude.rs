// ---- unit pg: prelude (process groups against a ghost heap) ----
#![feature(proc_macro_hygiene)]
#![allow(unused, non_snake_case, non_camel_case_types, dead_code, unreachable_code, non_upper_case_globals)]
use vstd::prelude::*;
use verus_builtin_macros::{verus_spec, verus_verify, proof, proof_decl};
use vstd::std_specs::cmp::*;

verus! {
/// `x.to_owned()` for a `Clone` type is `x.clone()` (std blanket impl)
pub assume_specification<T: Clone> [<T as std::borrow::ToOwned>::to_owned] (s: &T) -> (r: T)
    ensures call_ensures(T::clone, (s,), r);

// A-std: derive(PartialEq, PartialOrd) on the fieldless repr(u8) enum ActorStatus compares discriminants
pub open spec fn status_cmp(a: ActorStatus, b: ActorStatus) -> Option<core::cmp::Ordering> {
    if (a as u8) < (b as u8) { Some(core::cmp::Ordering::Less) }
    else if (a as u8) == (b as u8) { Some(core::cmp::Ordering::Equal) }
    else { Some(core::cmp::Ordering::Greater) }
}
pub assume_specification [<ActorStatus as PartialEq>::eq] (a: &ActorStatus, b: &ActorStatus) -> (r: bool)
    ensures r == (*a == *b);
pub assume_specification [<ActorStatus as PartialOrd>::partial_cmp] (a: &ActorStatus, b: &ActorStatus) -> (r: Option<core::cmp::Ordering>)
    ensures r == status_cmp(*a, *b);
impl PartialOrdSpecImpl for ActorStatus {
    open spec fn obeys_partial_cmp_spec() -> bool { true }
    open spec fn partial_cmp_spec(&self, b: &ActorStatus) -> Option<core::cmp::Ordering> { status_cmp(*self, *b) }
}
impl PartialEqSpecImpl for ActorStatus {
    open spec fn obeys_eq_spec() -> bool { true }
    open spec fn eq_spec(&self, b: &ActorStatus) -> bool { *self == *b }
}
/// stopping or stopped
pub open spec fn going(s: ActorStatus) -> bool { (s as u8) > (ActorStatus::Draining as u8) }

// ------------------------------------------------------------------ the ghost heap: what the four DashMap indexes hold
/// (scope, group)
pub type Key = (Seq<char>, Seq<char>);
pub open spec fn kv(k: ScopeGroupKey) -> Key { (k.scope@, k.group@) }
/// one delivered notification: who received it and what it said
pub struct Note { pub to: ActorId, pub evt: SupervisionEvent }
/// Abstract content of `PG_MONITOR` (A-dashmap: every entry-guard operation is atomic for its key; absent entry == empty value):
///  * `members[k]` = ids in `map[k].members`
///  * `index[s]`   = groups listed under scope `s` in `index`
///  * `rel[a]`     = `actor_relations[a].memberships` (the reverse index)
///  * `status[a]`  = the status of `a` as last read through `get_status()` (each read may find it advanced: statuses only grow, C06)
///  * `sent`       = notifications handed to listeners, in order
///  * `listeners[k]` = ids in `map[k].listeners` (the per-group monitors)
pub tracked struct PgHeap {
    pub ghost members: Map<Key, Set<ActorId>>,
    pub ghost index: Map<Seq<char>, Set<Seq<char>>>,
    pub ghost rel: Map<ActorId, Set<Key>>,
    pub ghost status: Map<ActorId, ActorStatus>,
    pub ghost sent: Seq<Note>,
    /// `map[k].listeners`: the actors monitoring group `k` (changed only by monitor/demonitor, which are not under contract)
    pub ghost listeners: Map<Key, Seq<ActorId>>,
}
pub open spec fn total(h: PgHeap) -> bool {
    &&& forall|k: Key| #[trigger] h.members.contains_key(k)
    &&& forall|s: Seq<char>| #[trigger] h.index.contains_key(s)
    &&& forall|a: ActorId| #[trigger] h.rel.contains_key(a)
    &&& forall|a: ActorId| #[trigger] h.status.contains_key(a)
}
pub open spec fn vacant(h: PgHeap, k: Key) -> bool { h.members[k] =~= Set::<ActorId>::empty() }
/// C11 representation invariant: a group is listed iff it has members; every membership is recorded in the member's reverse index
/// (which is what the automatic leave on exit walks; a stale extra key there is harmless and not excluded)
pub open spec fn wf(h: PgHeap) -> bool {
    &&& total(h)
    &&& forall|s: Seq<char>, g: Seq<char>| #![trigger h.index[s].contains(g)] #![trigger vacant(h, (s, g))] h.index[s].contains(g) <==> !vacant(h, (s, g))
    &&& forall|a: ActorId, k: Key| #![trigger h.members[k].contains(a)] #![trigger h.rel[a].contains(k)] h.members[k].contains(a) ==> h.rel[a].contains(k)
}
/// `a` is the id of one of the first `n` cells of `s`
pub open spec fn among(s: Seq<ActorCell>, n: int, a: ActorId) -> bool
    decreases n,
{
    n > 0 && n <= s.len() && (s[n - 1]@ == a || among(s, n - 1, a))
}

/// the ids of a vector of cells
pub open spec fn ids(v: Seq<ActorCell>) -> Seq<ActorId> { v.map_values(|c: ActorCell| c@) }
/// a notification that the actors `who` joined (left) group (scope, group)
pub open spec fn note_is(n: Note, join: bool, scope: Seq<char>, group: Seq<char>, who: Seq<ActorId>) -> bool {
    match n.evt {
        SupervisionEvent::ProcessGroupChanged(GroupChangeMessage::Join(s, g, v)) => join && s@ == scope && g@ == group && ids(v@) == who,
        SupervisionEvent::ProcessGroupChanged(GroupChangeMessage::Leave(s, g, v)) => !join && s@ == scope && g@ == group && ids(v@) == who,
        _ => false,
    }
}
/// every notification added after position `from` is such a note
pub open spec fn only_notes(sent: Seq<Note>, from: int, join: bool, scope: Seq<char>, group: Seq<char>, who: Seq<ActorId>) -> bool {
    forall|i: int| from <= i < sent.len() ==> note_is(#[trigger] sent[i], join, scope, group, who)
}
pub proof fn lemma_notes_extend(a: Seq<Note>, b: Seq<Note>, c: Seq<Note>, join: bool, scope: Seq<char>, group: Seq<char>, who: Seq<ActorId>)
    requires a.is_prefix_of(b), b.is_prefix_of(c), only_notes(b, a.len() as int, join, scope, group, who), only_notes(c, b.len() as int, join, scope, group, who),
    ensures a.is_prefix_of(c), only_notes(c, a.len() as int, join, scope, group, who),
{
    assert(a =~= c.subrange(0, a.len() as int)) by {
        assert forall|i: int| 0 <= i < a.len() implies a[i] == c.subrange(0, a.len() as int)[i] by {
            assert(a[i] == b.subrange(0, a.len() as int)[i]);
            assert(b[i] == c.subrange(0, b.len() as int)[i]);
        }
    }
    assert forall|i: int| a.len() <= i < c.len() implies note_is(#[trigger] c[i], join, scope, group, who) by {
        if i < b.len() { assert(b[i] == c.subrange(0, b.len() as int)[i]); }
    }
}
// ------------------------------------------------------------------ stand-ins
#[verifier::external_body] pub struct Opaque { _p: u8 }
#[verifier::external_body] pub struct BoxedState { _p: u8 }
#[verifier::external_body] pub struct ActorProcessingErr { _p: u8 }
#[verifier::external_body] pub struct WorldMap { _p: u8 }
/// ActorCell: opaque handle; `@` = the actor's id
#[verifier::external_body] pub struct ActorCell { _p: u8 }
impl View for ActorCell { type V = ActorId; uninterp spec fn view(&self) -> ActorId; }
impl Clone for ActorCell {
    #[verifier::external_body]
    fn clone(&self) -> (r: Self) ensures r == *self { unimplemented!() }
}
impl Clone for ScopeGroupKey {
    #[verifier::external_body]
    fn clone(&self) -> (r: Self) ensures r == *self { unimplemented!() }
}
/// dashmap's `Entry` (one generic enum, as in the real code: `Occupied(..)` patterns are shared)
pub enum Entry<O, V> { Occupied(O), Vacant(V) }
pub use Entry::{Occupied, Vacant};
#[verifier::external_body] pub struct GroupMap { _p: u8 }
pub struct GOcc { pub ghost key: Key }
pub struct GVac { pub ghost key: Key }
pub struct GRefMut { pub ghost key: Key }
pub struct ROcc { pub ghost owner: ActorId }
pub struct RVac { pub ghost owner: ActorId }
pub struct RRefMut { pub ghost owner: ActorId }
/// `HashSet<ActorId>` (local scratch sets of join_scoped)
pub struct IdSet { pub ghost s: Set<ActorId> }
#[verifier::external_body] pub struct IndexMap { _p: u8 }
pub struct IOcc { pub ghost scope: Seq<char> }
pub struct IVac { pub ghost scope: Seq<char> }
pub struct IRefMut { pub ghost scope: Seq<char> }
/// `HashSet<GroupName>` inside the scope index
pub struct GroupSet { pub ghost scope: Seq<char> }
/// `HashMap<ActorId, ActorCell>` inside a GroupState
pub struct MemberMap { pub ghost key: Key }
#[verifier::external_body] pub struct RelMap { _p: u8 }
pub struct RelRef { pub ghost owner: ActorId }
/// `Arc<Mutex<ActorRelations>>`
pub struct RelHandle { pub ghost owner: ActorId }
impl Clone for RelHandle {
    #[verifier::external_body]
    fn clone(&self) -> (r: Self) ensures r == *self { unimplemented!() }
}
/// `HashSet<ScopeGroupKey>` inside ActorRelations: `kind` 0 = memberships (tracked in the heap), 1/2 = monitors (not tracked)
pub struct KeySet { pub ghost owner: ActorId, pub ghost kind: int }
} // verus!

#[verus_verify(external_body)]
pub fn get_monitor() -> &'static PgState { unimplemented!() }

/// `relations.lock()` (poison ignored): exclusive access to the actor's relations
#[verus_verify(external_body)]
#[verus_spec(r => ensures r.memberships.owner == relations.owner && r.memberships.kind == 0
    && r.group_monitors.owner == relations.owner && r.group_monitors.kind == 1
    && r.world_monitors.owner == relations.owner && r.world_monitors.kind == 2)]
pub fn lock_relations(relations: &RelHandle) -> Box<ActorRelations> { unimplemented!() }

#[verus_verify]
impl ActorCell {
    #[verus_verify(external_body)]
    #[verus_spec(r => ensures r == self@)]
    pub fn get_id(&self) -> ActorId { unimplemented!() }
    #[verus_verify(external_body)]
    #[verus_spec(r =>
        with Tracked(heap): Tracked<&mut PgHeap>
        ensures *final(heap) == (PgHeap { status: old(heap).status.insert(self@, r), ..*old(heap) }), (r as u8) >= (old(heap).status[self@] as u8))]
    pub fn get_status(&self) -> ActorStatus { unimplemented!() }
    /// R25: the same read inside a closure (no ghost heap there): any status
    #[verus_verify(external_body)]
    pub fn get_status_unlocked(&self) -> ActorStatus { unimplemented!() }
    /// delivery attempt of one supervision event (the result is ignored by pg)
    #[verus_verify(external_body)]
    #[verus_spec(r =>
        with Tracked(heap): Tracked<&mut PgHeap>
        ensures *final(heap) == (PgHeap { sent: old(heap).sent.push(Note { to: self@, evt: message }), ..*old(heap) }))]
    pub fn send_supervisor_evt(&self, message: SupervisionEvent) -> Result<(), ()> { unimplemented!() }
}

#[verus_verify]
impl GroupMap {
    #[verus_verify(external_body)]
    #[verus_spec(r =>
        with Tracked(heap): Tracked<&mut PgHeap>
        ensures *final(heap) == *old(heap),
            r matches Entry::Occupied(o) ==> o.key == kv(key),
            r matches Entry::Vacant(v) ==> v.key == kv(key) && vacant(*old(heap), kv(key)))]
    pub fn entry(&self, key: ScopeGroupKey) -> Entry<GOcc, GVac> { unimplemented!() }
}
verus! {
pub struct GRef { pub ghost key: Key }
pub struct IRef { pub ghost scope: Seq<char> }
/// every id in `m` is the id of one of the cells of `v`, and every cell of `v` has an id in `m`
pub open spec fn same_ids(v: Seq<ActorCell>, m: Set<ActorId>) -> bool {
    &&& forall|j: int| 0 <= j < v.len() ==> m.contains((#[trigger] v[j])@)
    &&& forall|a: ActorId| #[trigger] m.contains(a) ==> among(v, v.len() as int, a)
}
}
#[verus_verify]
impl GroupMap {
    /// `map.get(&key)`: a read guard, absent when the group has neither members nor listeners
    #[verus_verify(external_body)]
    #[verus_spec(r =>
        with Tracked(heap): Tracked<&mut PgHeap>
        ensures *final(heap) == *old(heap),
            r matches Some(g) ==> g.key == kv(*key),
            r is None ==> vacant(*old(heap), kv(*key)))]
    pub fn get(&self, key: &ScopeGroupKey) -> Option<GRef> { unimplemented!() }
}
#[verus_verify]
impl GRef {
    #[verus_verify(external_body)]
    #[verus_spec(r => ensures r.members.key == self.key)]
    pub fn value(&self) -> &GroupState { unimplemented!() }
}
#[verus_verify]
impl IndexMap {
    #[verus_verify(external_body)]
    #[verus_spec(r =>
        with Tracked(heap): Tracked<&mut PgHeap>
        ensures *final(heap) == *old(heap),
            r matches Some(g) ==> g.scope == scope@,
            r is None ==> old(heap).index[scope@] =~= Set::<Seq<char>>::empty())]
    pub fn get(&self, scope: &String) -> Option<IRef> { unimplemented!() }
}
#[verus_verify]
impl IRef {
    /// `groups.iter().cloned().collect()` (R22): every listed group once, any order
    #[verus_verify(external_body)]
    #[verus_spec(r =>
        with Tracked(heap): Tracked<&mut PgHeap>
        ensures *final(heap) == *old(heap),
            forall|j: int| 0 <= j < r@.len() ==> old(heap).index[self.scope].contains((#[trigger] r@[j])@),
            forall|g: Seq<char>| #[trigger] old(heap).index[self.scope].contains(g) ==> exists|j: int| 0 <= j < r@.len() && (#[trigger] r@[j])@ == g)]
    pub fn vx_iter_cloned_collect(&self) -> Vec<String> { unimplemented!() }
}
#[verus_verify]
impl MemberMap {
    /// `members.values().cloned().collect()` (R22): every member cell once, any order
    #[verus_verify(external_body)]
    #[verus_spec(r =>
        with Tracked(heap): Tracked<&mut PgHeap>
        ensures *final(heap) == *old(heap), same_ids(r@, old(heap).members[self.key]))]
    pub fn vx_values_cloned_collect(&self) -> Vec<ActorCell> { unimplemented!() }
    /// `members.values().filter(f).cloned().collect()` (R22): exactly the member cells `f` accepts
    #[verus_verify(external_body)]
    #[verus_spec(r =>
        with Tracked(heap): Tracked<&mut PgHeap>
        requires forall|x: &&ActorCell| f.requires((x,))
        ensures *final(heap) == *old(heap),
            forall|j: int| 0 <= j < r@.len() ==> old(heap).members[self.key].contains((#[trigger] r@[j])@) && f.ensures((&&r@[j],), true),
            forall|a: ActorId| old(heap).members[self.key].contains(a) && (forall|c: ActorCell| c@ == a ==> !#[trigger] f.ensures((&&c,), false)) ==> #[trigger] among(r@, r@.len() as int, a))]
    pub fn vx_values_filter_cloned_collect<F: Fn(&&ActorCell) -> bool>(&self, f: F) -> Vec<ActorCell> { unimplemented!() }
}
#[verus_verify]
impl GOcc {
    #[verus_verify(external_body)]
    #[verus_spec(r =>
        with Tracked(heap): Tracked<&mut PgHeap>
        ensures *final(heap) == *old(heap), r.members.key == old(self).key, final(self).key == old(self).key, ids(r.listeners@) == old(heap).listeners[old(self).key])]
    pub fn get_mut(&mut self) -> &mut GroupState { unimplemented!() }
    #[verus_verify(external_body)]
    #[verus_spec(r =>
        with Tracked(heap): Tracked<&mut PgHeap>
        ensures *final(heap) == *old(heap), r.members.key == self.key, ids(r.listeners@) == old(heap).listeners[self.key])]
    pub fn get(&self) -> &GroupState { unimplemented!() }
    /// guard: an entry that still has members OR monitors is never dropped from the map
    #[verus_verify(external_body)]
    #[verus_spec(r =>
        with Tracked(heap): Tracked<&mut PgHeap>
        requires vacant(*old(heap), self.key), old(heap).listeners[self.key].len() == 0
        ensures *final(heap) == *old(heap))]
    pub fn remove(self) -> GroupState { unimplemented!() }
}
/// the other ways of taking an entry of the group map apart (dashmap `VacantEntry::insert`, `OccupiedEntry::into_ref`, `Default`): none of
/// them touches the ghost heap -- an absent entry and an entry without members and listeners are the same thing there.
/// (`VacantEntry::insert` is only specified for a state that has no members and no listeners, e.g. `GroupState::default()`.)
verus! {
impl GroupState {
    #[verifier::external_body]
    pub fn default() -> GroupState { unimplemented!() }
}
impl GVac {
    #[verifier::external_body]
    pub fn insert(self, v: GroupState) -> (r: GRefMut) ensures r.key == self.key { unimplemented!() }
}
impl GOcc {
    #[verifier::external_body]
    pub fn into_ref(self) -> (r: GRefMut) ensures r.key == self.key { unimplemented!() }
}
}
#[verus_verify]
impl Entry<GOcc, GVac> {
    /// `entry.or_default()`: an absent entry is created empty (absent == empty in the ghost heap)
    #[verus_verify(external_body)]
    #[verus_spec(r => ensures r.key == (match self { Entry::Occupied(o) => o.key, Entry::Vacant(v) => v.key }))]
    pub fn or_default(self) -> GRefMut { unimplemented!() }
}
#[verus_verify]
impl GRefMut {
    #[verus_verify(external_body)]
    #[verus_spec(r =>
        with Tracked(heap): Tracked<&mut PgHeap>
        ensures *final(heap) == *old(heap), r.members.key == old(self).key, final(self).key == old(self).key, ids(r.listeners@) == old(heap).listeners[old(self).key])]
    pub fn value_mut(&mut self) -> &mut GroupState { unimplemented!() }
}
#[verus_verify]
impl IdSet {
    #[verus_verify(external_body)]
    #[verus_spec(r => ensures r.s == Set::<ActorId>::empty())]
    pub fn with_capacity(n: usize) -> IdSet { unimplemented!() }
    #[verus_verify(external_body)]
    #[verus_spec(r => ensures r == !old(self).s.contains(id), final(self).s == old(self).s.insert(id))]
    pub fn insert(&mut self, id: ActorId) -> bool { unimplemented!() }
    #[verus_verify(external_body)]
    #[verus_spec(r => ensures r == self.s.contains(*id))]
    pub fn contains(&self, id: &ActorId) -> bool { unimplemented!() }
}
verus! {
/// `v.into_iter().filter(f).collect::<Vec<_>>()` (R22; std semantics, trusted): exactly the elements `f` accepts are kept
#[verifier::external_body]
pub fn vx_filter_collect<F: Fn(&ActorCell) -> bool>(v: Vec<ActorCell>, f: F) -> (r: Vec<ActorCell>)
    requires forall|x: &ActorCell| f.requires((x,)),
    ensures
        forall|j: int| 0 <= j < r@.len() ==> f.ensures((&#[trigger] r@[j],), true) && among(v@, v@.len() as int, r@[j]@),
        forall|i: int| 0 <= i < v@.len() && !f.ensures((&#[trigger] v@[i],), false) ==> among(r@, r@.len() as int, v@[i]@),
{ unimplemented!() }
/// one of the first `n` keys of `s` is `k`
pub open spec fn among_keys(s: Seq<ScopeGroupKey>, n: int, k: Key) -> bool
    decreases n,
{
    n > 0 && n <= s.len() && (kv(s[n - 1]) == k || among_keys(s, n - 1, k))
}
/// `std::slice::from_ref(cell)`: a one-element view of the cell
#[verifier::external_body]
pub fn vx_slice_from_ref(c: &ActorCell) -> (r: &Vec<ActorCell>)
    ensures r@ == seq![*c],
{ unimplemented!() }
#[verifier::external_body]
pub fn vx_drop<T>(t: T) { }
/// `Arc::ptr_eq`: the same allocation (true only for handles of the same actor)
#[verifier::external_body]
pub fn vx_ptr_eq(a: &RelHandle, b: &RelHandle) -> (r: bool)
    ensures r ==> a.owner == b.owner,
{ unimplemented!() }
/// what join_scoped promises about membership, relative to the heap `h0` it started from
pub open spec fn join_ok(h0: PgHeap, h: PgHeap, kk: Key, given: Seq<ActorCell>) -> bool {
    &&& wf(h)
    &&& forall|a: ActorId| #[trigger] h.members[kk].contains(a) ==> h0.members[kk].contains(a) || among(given, given.len() as int, a)
    &&& forall|a: ActorId| #[trigger] h.members[kk].contains(a) ==> h0.members[kk].contains(a) || !going(h.status[a])
    &&& forall|k: Key, a: ActorId| h0.members[k].contains(a) ==> #[trigger] h.members[k].contains(a)
    &&& forall|k: Key| k != kk ==> #[trigger] h.members[k] == h0.members[k]
}
/// every queued (actor, record) pair names the record of that actor
pub open spec fn owners_match(sr: Seq<(ActorId, RelHandle)>) -> bool { forall|j: int| 0 <= j < sr.len() ==> (#[trigger] sr[j]).1.owner == sr[j].0 }
pub proof fn lemma_among_witness(s: Seq<ActorCell>, n: int, a: ActorId) -> (i: int)
    requires among(s, n, a),
    ensures 0 <= i < n <= s.len(), s[i]@ == a,
    decreases n,
{
    if s[n - 1]@ == a { n - 1 } else { lemma_among_witness(s, n - 1, a) }
}
pub proof fn lemma_among_index(s: Seq<ActorCell>, i: int)
    requires 0 <= i < s.len(),
    ensures among(s, s.len() as int, s[i]@),
{
    lemma_among_mono(s, i + 1, s.len() as int, s[i]@);
}
pub proof fn lemma_among_mono(s: Seq<ActorCell>, n: int, m: int, a: ActorId)
    requires 0 <= n <= m <= s.len(), among(s, n, a),
    ensures among(s, m, a),
    decreases m - n,
{
    if n < m { lemma_among_mono(s, n, m - 1, a); }
}
}
#[verus_verify]
impl MemberMap {
    #[verus_verify(external_body)]
    #[verus_spec(r =>
        with Tracked(heap): Tracked<&mut PgHeap>
        ensures *final(self) == *old(self), (r is Some) == old(heap).members[old(self).key].contains(*id),
            *final(heap) == (PgHeap { members: old(heap).members.insert(old(self).key, old(heap).members[old(self).key].remove(*id)), ..*old(heap) }))]
    pub fn remove(&mut self, id: &ActorId) -> Option<ActorCell> { unimplemented!() }
    #[verus_verify(external_body)]
    #[verus_spec(r =>
        with Tracked(heap): Tracked<&mut PgHeap>
        requires id == cell@
        ensures *final(self) == *old(self),
            *final(heap) == (PgHeap { members: old(heap).members.insert(old(self).key, old(heap).members[old(self).key].insert(id)), ..*old(heap) }))]
    pub fn insert(&mut self, id: ActorId, cell: ActorCell) -> Option<ActorCell> { unimplemented!() }
    #[verus_verify(external_body)]
    #[verus_spec(r =>
        with Tracked(heap): Tracked<&mut PgHeap>
        ensures *final(heap) == *old(heap), r == vacant(*old(heap), self.key))]
    pub fn is_empty(&self) -> bool { unimplemented!() }
}
#[verus_verify]
impl IndexMap {
    #[verus_verify(external_body)]
    #[verus_spec(r =>
        with Tracked(heap): Tracked<&mut PgHeap>
        ensures *final(heap) == *old(heap),
            r matches Entry::Occupied(o) ==> o.scope == scope@,
            r matches Entry::Vacant(v) ==> v.scope == scope@ && old(heap).index[scope@] =~= Set::<Seq<char>>::empty())]
    pub fn entry(&self, scope: String) -> Entry<IOcc, IVac> { unimplemented!() }
}
#[verus_verify]
impl Entry<IOcc, IVac> {
    #[verus_verify(external_body)]
    #[verus_spec(r => ensures r.scope == (match self { Entry::Occupied(o) => o.scope, Entry::Vacant(v) => v.scope }))]
    pub fn or_default(self) -> IRefMut { unimplemented!() }
}
#[verus_verify]
impl IRefMut {
    #[verus_verify(external_body)]
    #[verus_spec(r =>
        with Tracked(heap): Tracked<&mut PgHeap>
        ensures final(self).scope == old(self).scope,
            *final(heap) == (PgHeap { index: old(heap).index.insert(old(self).scope, old(heap).index[old(self).scope].insert(group@)), ..*old(heap) }))]
    pub fn insert(&mut self, group: String) -> bool { unimplemented!() }
}
#[verus_verify]
impl IOcc {
    #[verus_verify(external_body)]
    #[verus_spec(r => ensures r.scope == old(self).scope, final(self).scope == old(self).scope)]
    pub fn get_mut(&mut self) -> &mut GroupSet { unimplemented!() }
    #[verus_verify(external_body)]
    #[verus_spec(r => ensures r.scope == self.scope)]
    pub fn get(&self) -> &GroupSet { unimplemented!() }
    /// guard: a scope that still lists groups is never dropped from the index
    #[verus_verify(external_body)]
    #[verus_spec(r =>
        with Tracked(heap): Tracked<&mut PgHeap>
        requires old(heap).index[self.scope] =~= Set::<Seq<char>>::empty()
        ensures *final(heap) == *old(heap))]
    pub fn remove(self) -> GroupSet { unimplemented!() }
}
#[verus_verify]
impl GroupSet {
    #[verus_verify(external_body)]
    #[verus_spec(r =>
        with Tracked(heap): Tracked<&mut PgHeap>
        ensures *final(self) == *old(self),
            *final(heap) == (PgHeap { index: old(heap).index.insert(old(self).scope, old(heap).index[old(self).scope].remove(group@)), ..*old(heap) }))]
    pub fn remove(&mut self, group: &String) -> bool { unimplemented!() }
    #[verus_verify(external_body)]
    #[verus_spec(r =>
        with Tracked(heap): Tracked<&mut PgHeap>
        ensures *final(heap) == *old(heap), r == (old(heap).index[self.scope] =~= Set::<Seq<char>>::empty()))]
    pub fn is_empty(&self) -> bool { unimplemented!() }
}
#[verus_verify]
impl RelMap {
    #[verus_verify(external_body)]
    #[verus_spec(r =>
        with Tracked(heap): Tracked<&mut PgHeap>
        ensures *final(heap) == *old(heap),
            r matches Some(x) ==> x.owner == *id,
            r is None ==> old(heap).rel[*id] =~= Set::<Key>::empty())]
    pub fn get(&self, id: &ActorId) -> Option<RelRef> { unimplemented!() }
}
#[verus_verify]
impl RelMap {
    #[verus_verify(external_body)]
    #[verus_spec(r =>
        with Tracked(heap): Tracked<&mut PgHeap>
        ensures *final(heap) == *old(heap),
            r matches Entry::Occupied(o) ==> o.owner == id,
            r matches Entry::Vacant(v) ==> v.owner == id && old(heap).rel[id] =~= Set::<Key>::empty())]
    pub fn entry(&self, id: ActorId) -> Entry<ROcc, RVac> { unimplemented!() }
}
#[verus_verify]
impl Entry<ROcc, RVac> {
    #[verus_verify(external_body)]
    #[verus_spec(r => ensures r.owner == (match self { Entry::Occupied(o) => o.owner, Entry::Vacant(v) => v.owner }))]
    pub fn or_default(self) -> RRefMut { unimplemented!() }
}
#[verus_verify]
impl RRefMut {
    /// `RefMut<_, Arc<Mutex<ActorRelations>>>::clone()` (deref to Arc::clone)
    #[verus_verify(external_body)]
    #[verus_spec(r => ensures r.owner == self.owner)]
    pub fn clone(&self) -> RelHandle { unimplemented!() }
}
#[verus_verify]
impl ROcc {
    #[verus_verify(external_body)]
    #[verus_spec(r => ensures r.owner == self.owner)]
    pub fn get(&self) -> &RelHandle { unimplemented!() }
    /// guard: a reverse-index entry that still records memberships is never dropped
    #[verus_verify(external_body)]
    #[verus_spec(r =>
        with Tracked(heap): Tracked<&mut PgHeap>
        requires old(heap).rel[self.owner] =~= Set::<Key>::empty()
        ensures *final(heap) == *old(heap))]
    pub fn remove(self) -> RelHandle { unimplemented!() }
}
#[verus_verify]
impl RelRef {
    #[verus_verify(external_body)]
    #[verus_spec(r => ensures r.owner == self.owner)]
    pub fn value(&self) -> &RelHandle { unimplemented!() }
}
#[verus_verify]
impl KeySet {
    #[verus_verify(external_body)]
    #[verus_spec(r =>
        with Tracked(heap): Tracked<&mut PgHeap>
        ensures *final(self) == *old(self),
            old(self).kind == 0 ==> *final(heap) == (PgHeap { rel: old(heap).rel.insert(old(self).owner, old(heap).rel[old(self).owner].remove(kv(*k))), ..*old(heap) }),
            old(self).kind != 0 ==> *final(heap) == *old(heap))]
    pub fn remove(&mut self, k: &ScopeGroupKey) -> bool { unimplemented!() }
    #[verus_verify(external_body)]
    #[verus_spec(r =>
        with Tracked(heap): Tracked<&mut PgHeap>
        ensures *final(self) == *old(self),
            old(self).kind == 0 ==> *final(heap) == (PgHeap { rel: old(heap).rel.insert(old(self).owner, old(heap).rel[old(self).owner].insert(kv(k))), ..*old(heap) }),
            old(self).kind != 0 ==> *final(heap) == *old(heap))]
    pub fn insert(&mut self, k: ScopeGroupKey) -> bool { unimplemented!() }
    #[verus_verify(external_body)]
    #[verus_spec(r =>
        with Tracked(heap): Tracked<&mut PgHeap>
        ensures *final(heap) == *old(heap), self.kind == 0 ==> r == (old(heap).rel[self.owner] =~= Set::<Key>::empty()))]
    pub fn is_empty(&self) -> bool { unimplemented!() }
}

/// scope-level and global monitors are told as well (body: two more listener loops over `world_listeners`; not under contract)
#[verus_verify(external_body)]
#[verus_spec(
    with Tracked(heap): Tracked<&mut PgHeap>
    ensures final(heap).members == old(heap).members, final(heap).index == old(heap).index, final(heap).rel == old(heap).rel,
        final(heap).status == old(heap).status, final(heap).listeners == old(heap).listeners, old(heap).sent.is_prefix_of(final(heap).sent),
        only_notes(final(heap).sent, old(heap).sent.len() as int, is_join, scope@, group@, ids(actors@)))]
pub fn notify_world_listeners(monitor: &PgState, scope: &String, group: &String, actors: &Vec<ActorCell>, is_join: bool) { unimplemented!() }

/// `std::mem::take(&mut guard.memberships)` followed by iteration: the drained set as a vector (each key once, any order);
/// the actor's reverse index is left empty
#[verus_verify(external_body)]
#[verus_spec(r =>
    with Tracked(heap): Tracked<&mut PgHeap>
    requires old(ks).kind == 0
    ensures
        *final(ks) == *old(ks),
        *final(heap) == (PgHeap { rel: old(heap).rel.insert(old(ks).owner, Set::<Key>::empty()), ..*old(heap) }),
        forall|k: Key| #[trigger] old(heap).rel[old(ks).owner].contains(k) <==> among_keys(r@, r@.len() as int, k),
)]
pub fn vx_take_keys(ks: &mut KeySet) -> Vec<ScopeGroupKey> { unimplemented!() }
