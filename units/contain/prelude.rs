// ---- unit contain: a panic in a lifecycle callback is caught and turned into an error (C04: failures never escape the actor) ----
#![feature(proc_macro_hygiene)]
#![allow(unused, non_snake_case, non_camel_case_types, dead_code, unreachable_code)]
use vstd::prelude::*;
use verus_builtin_macros::{verus_spec, verus_verify, proof, proof_decl};

pub mod futs {
    use super::*;
    verus! {
    /// a future after R7 ("call" mode): awaiting it is the call `vx_await(f)`
    pub trait VxFut: Sized {
        type Out;
        /// awaiting this future may unwind into the caller (a user callback that panics)
        spec fn may_panic(&self) -> bool;
        /// the awaited result is the "panicked" outcome of a caught future
        spec fn is_caught_panic(&self, out: Self::Out) -> bool;
    }
    /// the future a user callback returns: user code may panic when it is polled
    #[verifier::external_body] #[verifier::reject_recursive_types(T)] pub struct UserFut<T> { _p: core::marker::PhantomData<T> }
    /// `AssertUnwindSafe(f)`
    #[verifier::reject_recursive_types(F)] pub struct AssertUnwindSafe<F>(pub F);
    /// `catch_unwind(AssertUnwindSafe(f))`: resolves to Err(payload) when polling `f` panicked
    #[verifier::external_body] #[verifier::reject_recursive_types(T)] pub struct CaughtFut<T> { _p: core::marker::PhantomData<T> }
    #[verifier::external_body] pub struct PanicPayload { _p: u8 }
    impl<T> VxFut for UserFut<T> {
        type Out = T;
        open spec fn may_panic(&self) -> bool { true }
        open spec fn is_caught_panic(&self, out: T) -> bool { false }
    }
    impl<T> VxFut for CaughtFut<T> {
        type Out = Result<T, PanicPayload>;
        open spec fn may_panic(&self) -> bool { false }
        open spec fn is_caught_panic(&self, out: Result<T, PanicPayload>) -> bool { out is Err }
    }
    /// R7: `f.await`.  GUARD: a future that may unwind must not be awaited bare -- only through catch_unwind
    #[verifier::external_body]
    pub fn vx_await<F: VxFut>(f: F) -> (r: F::Out)
        requires !f.may_panic(),
    { unimplemented!() }
    #[verifier::external_body]
    pub fn vx_catch_unwind<T>(f: AssertUnwindSafe<UserFut<T>>) -> (r: CaughtFut<T>) { unimplemented!() }
    }
}
pub use futs::*;

verus! {
#[verifier::external_body] pub struct ActorProcessingErr { _p: u8 }
pub type ActorName = String;
#[verifier::external_body] pub struct ActorLifecycleGuard { _p: u8 }
#[verifier::external_body] pub struct ActorId { _p: u8 }
#[verifier::external_body] #[verifier::reject_recursive_types(M)] pub struct ActorRef<M> { _p: core::marker::PhantomData<M> }
/// the user's actor: each callback returns a future that may panic when polled
pub trait Actor: Sized {
    type Msg;
    type State;
    type Arguments;
    fn pre_start(&self, myself: ActorRef<Self::Msg>, args: Self::Arguments) -> UserFut<Result<Self::State, ActorProcessingErr>>;
    fn post_start(&self, myself: ActorRef<Self::Msg>, state: &mut Self::State) -> UserFut<Result<(), ActorProcessingErr>>;
    fn post_stop(&self, myself: ActorRef<Self::Msg>, state: &mut Self::State) -> UserFut<Result<(), ActorProcessingErr>>;
}
#[verifier::external_body] pub struct ActorCell { _p: u8 }
#[verifier::external_body] pub struct SupervisionEvent { _p: u8 }
#[verifier::external_body]
pub fn vx_started_event(c: ActorCell) -> SupervisionEvent { unimplemented!() }
impl<M> ActorRef<M> {
    #[verifier::external_body] pub fn clone(&self) -> ActorRef<M> { unimplemented!() }
    #[verifier::external_body] pub fn get_cell(&self) -> ActorCell { unimplemented!() }
    /// GUARD (C01/C04): the hook wrappers only run the user's callback under catch_unwind.  Whether the actor becomes Running and is
    /// announced as started is decided by the caller, once BOTH layers of the result (no panic, and the callback's own Ok) are known.
    #[verifier::external_body]
    pub fn set_status(&self, status: ActorStatus) requires false { unimplemented!() }
    #[verifier::external_body]
    pub fn notify_supervisor_and_monitors(&self, evt: SupervisionEvent) requires false { unimplemented!() }
}
/// the panic text (downcasts of the payload; not under contract)
#[verifier::external_body]
pub fn get_panic_string(e: PanicPayload) -> ActorProcessingErr { unimplemented!() }
}
