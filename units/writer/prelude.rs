// ---- unit writer: run_write_task (C20: per-session wire order == submission order) ----
#![feature(proc_macro_hygiene)]
#![allow(unused, non_snake_case, non_camel_case_types, dead_code, unreachable_code)]
use vstd::prelude::*;
use verus_builtin_macros::{verus_spec, verus_verify, proof, proof_decl};

verus! {
broadcast use wirelog::group_wirelog;
/// a protocol message on its way to the wire: which one
#[verifier::external_body] pub struct NetworkMessage { _p: u8 }
impl NetworkMessage {
    pub uninterp spec fn which(&self) -> int;
    #[verifier::external_body] pub fn encoded_len(&self) -> usize { unimplemented!() }
}
#[verifier::external_body] pub struct IoError { _p: u8 }
#[verifier::external_body] pub struct TryRecvError { _p: u8 }
#[verifier::external_body] pub struct SessionMessage { _p: u8 }
/// the batch buffer: which messages' frames it holds, in order (the bytes themselves: unit codecs / wire)
pub struct FrameBuf { pub ghost frames: Seq<int> }
impl FrameBuf {
    #[verifier::external_body] pub fn new() -> (r: FrameBuf) ensures r.frames == Seq::<int>::empty() { unimplemented!() }
    #[verifier::external_body] pub fn clear(&mut self) ensures final(self).frames == Seq::<int>::empty() { unimplemented!() }
    /// bytes in the buffer (the sizes are not modelled)
    #[verifier::external_body] pub fn len(&self) -> usize { unimplemented!() }
}
/// `encode_network_message(msg, buf)`: appends one complete length-prefixed frame of `msg` (its contract: unit wire's encoder tests / C19)
#[verifier::external_body]
pub fn encode_network_message(msg: &NetworkMessage, buf: &mut FrameBuf) ensures final(buf).frames == old(buf).frames.push(msg.which()) { unimplemented!() }
#[verifier::external_body] pub struct WireRx { _p: u8 }
#[verifier::external_body] pub struct ActorWriteHalf { _p: u8 }
#[verifier::external_body] pub struct SessionRef { _p: u8 }
#[verifier::external_body]
pub fn vx_send_request(m: NetworkMessage) -> (r: SessionMessage) { unimplemented!() }
} // verus!

pub mod vocab {
    use super::*;
    verus! {
    pub enum Effect {
        /// a message was taken from the head of the writer's queue
        Taken(int),
        /// these frames were written to the stream, in this order (and whether the write succeeded)
        Wrote(Seq<int>, bool),
        Flushed(bool),
        /// a message was put back at the TAIL of the session's send path
        Requeued,
        StopSession,
    }
    pub type Kind = Effect;
    pub open spec fn kind_of(e: Effect) -> Kind { e }
    }
}
pub use vocab::*;
// @include ../_common/effectlog.rs

#[verus_verify]
impl WireRx {
    /// R7: `rx.recv().await`: the head of the queue, or None when every sender is gone
    #[verus_verify(external_body)]
    #[verus_spec(r =>
        with Tracked(log): Tracked<&mut EffectLog>
        ensures match r { Some(m) => final(log).s == old(log).s.push(Effect::Taken(m.which())), None => final(log).s == old(log).s })]
    pub fn recv(&mut self) -> Option<NetworkMessage> { unimplemented!() }
    #[verus_verify(external_body)]
    #[verus_spec(r =>
        with Tracked(log): Tracked<&mut EffectLog>
        ensures match r { Ok(m) => final(log).s == old(log).s.push(Effect::Taken(m.which())), Err(_) => final(log).s == old(log).s })]
    pub fn try_recv(&mut self) -> Result<NetworkMessage, TryRecvError> { unimplemented!() }
}
#[verus_verify]
impl ActorWriteHalf {
    #[verus_verify(external_body)]
    #[verus_spec(r =>
        with Tracked(log): Tracked<&mut EffectLog>
        ensures final(log).s == old(log).s.push(Effect::Wrote(data.frames, r is Ok)))]
    pub fn write_all(&mut self, data: &FrameBuf) -> Result<(), IoError> { unimplemented!() }
    #[verus_verify(external_body)]
    #[verus_spec(r =>
        with Tracked(log): Tracked<&mut EffectLog>
        ensures final(log).s == old(log).s.push(Effect::Flushed(r is Ok)))]
    pub fn flush(&mut self) -> Result<(), IoError> { unimplemented!() }
}
#[verus_verify]
impl SessionRef {
    #[verus_verify(external_body)]
    #[verus_spec(
        with Tracked(log): Tracked<&mut EffectLog>
        ensures final(log).s == old(log).s.push(Effect::StopSession))]
    pub fn stop(&self, reason: Option<String>) { unimplemented!() }
    /// sending a message back to the session actor puts it behind everything that is already waiting there
    #[verus_verify(external_body)]
    #[verus_spec(r =>
        with Tracked(log): Tracked<&mut EffectLog>
        ensures final(log).s == old(log).s.push(Effect::Requeued))]
    pub fn cast(&self, m: SessionMessage) -> Result<(), IoError> { unimplemented!() }
}

pub mod wirelog {
use super::*;
verus! {
/// the messages taken off the writer's queue, in the order they were taken
pub open spec fn taken(s: Seq<Effect>) -> Seq<int>
    decreases s.len(),
{
    if s.len() == 0 { Seq::empty() } else { match s.last() { Effect::Taken(m) => taken(s.drop_last()).push(m), _ => taken(s.drop_last()) } }
}
/// the frames handed to the stream, in the order they were handed over
pub open spec fn wrote(s: Seq<Effect>) -> Seq<int>
    decreases s.len(),
{
    if s.len() == 0 { Seq::empty() } else { match s.last() { Effect::Wrote(f, _) => wrote(s.drop_last()) + f, _ => wrote(s.drop_last()) } }
}
pub open spec fn requeues(s: Seq<Effect>) -> nat
    decreases s.len(),
{
    if s.len() == 0 { 0 } else { requeues(s.drop_last()) + (if s.last() is Requeued { 1nat } else { 0nat }) }
}
pub broadcast proof fn lemma_push_taken(s: Seq<Effect>, e: Effect)
    ensures #[trigger] taken(s.push(e)) == (match e { Effect::Taken(m) => taken(s).push(m), _ => taken(s) }),
{ assert(s.push(e).drop_last() =~= s); }
pub broadcast proof fn lemma_push_wrote(s: Seq<Effect>, e: Effect)
    ensures #[trigger] wrote(s.push(e)) == (match e { Effect::Wrote(f, _) => wrote(s) + f, _ => wrote(s) }),
{ assert(s.push(e).drop_last() =~= s); }
pub broadcast proof fn lemma_push_requeues(s: Seq<Effect>, e: Effect)
    ensures #[trigger] requeues(s.push(e)) == requeues(s) + (if e is Requeued { 1nat } else { 0nat }),
{ assert(s.push(e).drop_last() =~= s); }
pub broadcast group group_wirelog { lemma_push_taken, lemma_push_wrote, lemma_push_requeues }
}
}
pub use wirelog::*;
