// ---- unit settings: prelude (FactoryState::update_settings / worker_pong: what a settings update does to the factory's and to
// every worker's copy of the discard settings and discard handler) ----
#![feature(proc_macro_hygiene)]
#![allow(unused, non_snake_case, non_camel_case_types, dead_code, unreachable_code)]
use vstd::prelude::*;
use verus_builtin_macros::{verus_spec, verus_verify, proof, proof_decl};
use std::sync::Arc;

verus! {
pub type WorkerId = usize;
pub trait JobKey: Sized {}
pub trait Message: Sized {}

#[verifier::external_body] pub struct Opaque { _p: u8 }
#[verifier::external_body] pub struct StatsStub { _p: u8 }
#[verifier::external_body] pub struct ActorProcessingErr { _p: u8 }
#[verifier::external_body] pub struct FactoryRef { _p: u8 }
#[verifier::external_body] pub struct Heartbeat { _p: u8 }
#[verifier::external_body] pub struct Duration { _p: u8 }
#[verifier::external_body] #[verifier::reject_recursive_types(K)] #[verifier::reject_recursive_types(M)]
pub struct DiscardHandlerObj<K, M> { _p: core::marker::PhantomData<(K, M)> }
/// `Option<DeadMansSwitchConfiguration>` (R9): only asked whether it is set
#[verifier::external_body] pub struct DeadMansSwitch { _p: u8 }
impl DeadMansSwitch {
    #[verifier::external_body]
    pub fn is_some(&self) -> bool { unimplemented!() }
}
impl Heartbeat {
    #[verifier::external_body]
    pub fn clear(&mut self) { unimplemented!() }
}
impl StatsStub {
    #[verifier::external_body]
    pub fn worker_ping_received(&self, f: &String, t: Duration) { unimplemented!() }
}

/// R9 stand-in for the `Router` trait: only `is_factory_queueing` is used here (a constant of the router type)
pub trait Router<TKey: JobKey, TMsg: Message>: Sized {
    spec fn factory_queueing(&self) -> bool;
    fn is_factory_queueing(&self) -> (r: bool)
        ensures r == self.factory_queueing();
}
pub trait Queue<TKey: JobKey, TMsg: Message>: Sized {}

/// R9 stand-in for `HashMap<WorkerId, WorkerProperties>`: `recs()` is one enumeration of its values (A-std: `values_mut()` visits
/// every value exactly once; which order is unspecified, so no contract here may depend on it), R34 walks it by index
#[verifier::external_body] #[verifier::reject_recursive_types(K)] #[verifier::reject_recursive_types(M)]
pub struct Pool<K, M> { _p: core::marker::PhantomData<(K, M)> }
impl<K: JobKey, M: Message> Pool<K, M> {
    pub uninterp spec fn recs(&self) -> Seq<WorkerProperties<K, M>>;
    #[verifier::external_body]
    pub fn vx_len(&self) -> (r: usize)
        ensures r == self.recs().len()
    { unimplemented!() }
    #[verifier::external_body]
    pub fn vx_value_mut_at(&mut self, i: usize) -> (r: &mut WorkerProperties<K, M>)
        requires i < old(self).recs().len()
        ensures *r == old(self).recs()[i as int], final(self).recs() == old(self).recs().update(i as int, *final(r))
    { unimplemented!() }
    /// A-std (HashMap::get_mut): the record stored under `k`, if any -- it is one of the enumerated values, and its `wid` is its key
    #[verifier::external_body]
    pub fn get_mut(&mut self, k: &WorkerId) -> (r: Option<&mut WorkerProperties<K, M>>)
        ensures
            r is None ==> final(self).recs() == old(self).recs(),
            r matches Some(w) ==> exists|i: int| 0 <= i < old(self).recs().len() && *w == #[trigger] old(self).recs()[i]
                && final(self).recs() == old(self).recs().update(i, *final(w)),
    { unimplemented!() }
}

/// A-std `Option::map_or`: None => the default, Some(x) => f(x)
pub assume_specification<T, U, F: FnOnce(T) -> U> [Option::<T>::map_or] (o: Option<T>, d: U, f: F) -> (r: U)
    requires o matches Some(x) ==> f.requires((x,)),
    ensures o is None ==> r == d, o matches Some(x) ==> f.ensures((x,), r);

/// A-std: derive(Clone, Copy) on the fieldless enum DiscardMode, written out (Verus gives the derived impl of a Copy type no
/// specification and accepts none for it): `clone` yields the same variant
impl Clone for DiscardMode {
    fn clone(&self) -> (r: Self) ensures r == *self { match self { DiscardMode::Oldest => DiscardMode::Oldest, DiscardMode::Newest => DiscardMode::Newest } }
}
impl Copy for DiscardMode {}

/// R22 stand-in for `.clone()` on the two types cloned here (Verus can give the derived `Clone` of an enum with a struct variant no
/// specification, and has none for `Option<Arc<T>>`). A-std: derive(Clone) on plain data yields an equal value; cloning an
/// `Option<Arc<T>>` yields a handle to the same shared object. Any other type cloned in this unit does not compile => undecided
pub trait VxClone: Sized {
    fn vx_clone(&self) -> (r: Self) ensures r == *self;
}
impl VxClone for WorkerDiscardSettings {
    #[verifier::external_body]
    fn vx_clone(&self) -> (r: Self) { unimplemented!() }
}
impl<K, M> VxClone for Option<Arc<DiscardHandlerObj<K, M>>> {
    #[verifier::external_body]
    fn vx_clone(&self) -> (r: Self) { unimplemented!() }
}

// ---- what the property says, as specification functions ----
/// the settings a worker enforces on its own queue under factory settings `s`: nothing when the factory queues itself,
/// otherwise the factory's limit and mode
pub open spec fn worker_view(factory_queueing: bool, s: DiscardSettings) -> WorkerDiscardSettings {
    if factory_queueing { WorkerDiscardSettings::None } else {
        match s {
            DiscardSettings::None => WorkerDiscardSettings::None,
            DiscardSettings::Static { limit, mode } => WorkerDiscardSettings::Static { limit, mode },
            DiscardSettings::Dynamic { limit, mode, updater } => WorkerDiscardSettings::Static { limit, mode },
        }
    }
}
pub open spec fn limit_of(s: DiscardSettings) -> usize {
    match s {
        DiscardSettings::None => 0,
        DiscardSettings::Static { limit, mode } => limit,
        DiscardSettings::Dynamic { limit, mode, updater } => limit,
    }
}
pub open spec fn every_worker_enforces<K: JobKey, M: Message>(p: Pool<K, M>, ws: WorkerDiscardSettings) -> bool {
    forall|i: int| 0 <= i < p.recs().len() ==> (#[trigger] p.recs()[i]).discard_settings == ws
}
pub open spec fn every_worker_reports_to<K: JobKey, M: Message>(p: Pool<K, M>, h: Option<Arc<DiscardHandlerObj<K, M>>>) -> bool {
    forall|i: int| 0 <= i < p.recs().len() ==> (#[trigger] p.recs()[i]).discard_handler == h
}
/// the same workers, each with the discard settings / handler it had
pub open spec fn same_discard_settings<K: JobKey, M: Message>(a: Pool<K, M>, b: Pool<K, M>) -> bool {
    a.recs().len() == b.recs().len() && forall|i: int| 0 <= i < a.recs().len() ==> (#[trigger] a.recs()[i]).discard_settings == b.recs()[i].discard_settings
}
pub open spec fn same_discard_handlers<K: JobKey, M: Message>(a: Pool<K, M>, b: Pool<K, M>) -> bool {
    a.recs().len() == b.recs().len() && forall|i: int| 0 <= i < a.recs().len() ==> (#[trigger] a.recs()[i]).discard_handler == b.recs()[i].discard_handler
}
/// nothing but the heartbeat / in-flight bookkeeping of the records changed: same slots, same queues, same discard configuration
pub open spec fn same_but_heartbeats<K: JobKey, M: Message>(a: Pool<K, M>, b: Pool<K, M>) -> bool {
    a.recs().len() == b.recs().len() && forall|i: int| 0 <= i < a.recs().len() ==>
        (#[trigger] a.recs()[i]).discard_settings == b.recs()[i].discard_settings && a.recs()[i].discard_handler == b.recs()[i].discard_handler
        && a.recs()[i].wid == b.recs()[i].wid && a.recs()[i].is_draining == b.recs()[i].is_draining
}
} // verus!

#[verus_verify]
impl<K: JobKey, M: Message> WorkerProperties<K, M> {
    /// sends a ping to the worker actor and notes the time; ASSUMED (not under contract here) to touch only the heartbeat
    #[verus_verify(external_body)]
    #[verus_spec(r => ensures *final(self) == (WorkerProperties { heartbeat: final(self).heartbeat, ..*old(self) }))]
    pub fn send_factory_ping(&mut self) -> Result<(), ()> { unimplemented!() }
}

#[verus_verify]
impl<TKey: JobKey, TMsg: Message, TRouter: Router<TKey, TMsg>, TQueue: Queue<TKey, TMsg>> FactoryState<TKey, TMsg, TRouter, TQueue> {
    /// cancels and re-arms the dead-man's-switch timer; ASSUMED to touch only `dead_mans_check`
    #[verus_verify(external_body)]
    #[verus_spec(ensures *final(self) == (FactoryState { dead_mans_check: final(self).dead_mans_check, ..*old(self) }))]
    pub fn reschedule_dead_mans_check(&mut self, myself: &FactoryRef) { unimplemented!() }
    /// grows or shrinks the pool (shrink_pool: unit factory; spawning: unit respawn). ASSUMED here: new workers are built from the
    /// factory's CURRENT discard settings and handler (WorkerProperties::new is given `self.discard_settings.get_worker_settings()`
    /// or None, and `self.discard_handler.clone()`), surviving records keep theirs, and the factory-level settings are not touched
    #[verus_verify(external_body)]
    #[verus_spec(r => ensures
        final(self).discard_settings == old(self).discard_settings, final(self).discard_handler == old(self).discard_handler,
        final(self).router == old(self).router,
        every_worker_enforces(old(self).pool, worker_view(old(self).router.factory_queueing(), old(self).discard_settings))
            ==> every_worker_enforces(final(self).pool, worker_view(old(self).router.factory_queueing(), old(self).discard_settings)),
        every_worker_reports_to(old(self).pool, old(self).discard_handler) ==> every_worker_reports_to(final(self).pool, old(self).discard_handler),
    )]
    pub fn resize_pool(&mut self, myself: &FactoryRef, n: usize) -> Result<(), ActorProcessingErr> { unimplemented!() }
}

verus! {
/// everything but the pool is as it was
pub open spec fn only_the_pool_differs<K: JobKey, M: Message, R: Router<K, M>, Q: Queue<K, M>>(a: FactoryState<K, M, R, Q>, b: FactoryState<K, M, R, Q>) -> bool {
    a == (FactoryState { pool: a.pool, ..b })
}
} // verus!
