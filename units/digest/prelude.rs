// ---- unit digest: prelude (hash::challenge_digest: WHAT is hashed -- the 4 challenge bytes followed by the whole cookie) ----
#![feature(proc_macro_hygiene)]
#![allow(unused, non_snake_case, non_camel_case_types, dead_code, unreachable_code)]
use vstd::prelude::*;
use verus_builtin_macros::{verus_spec, verus_verify, proof, proof_decl};

verus! {
/// SHA-256 as a mathematical function of its input bytes (A-crypto: its strength is trusted; what matters here is WHICH bytes go in)
pub uninterp spec fn sha256(input: Seq<u8>) -> Seq<u8>;
/// the UTF-8 bytes of a string (A-std)
pub uninterp spec fn bytes_of(s: &str) -> Seq<u8>;
/// big-endian bytes of a u32 (A-std)
pub open spec fn be4(x: u32) -> Seq<u8> { seq![(x >> 24) as u8, (x >> 16) as u8, (x >> 8) as u8, x as u8] }

#[verifier::external_body]
pub fn vx_as_bytes<'a>(s: &'a str) -> (r: &'a [u8]) ensures r@ == bytes_of(s) { unimplemented!() }
#[verifier::external_body]
pub fn vx_u32_to_be_bytes(x: u32) -> (r: [u8; 4]) ensures r@ == be4(x) { unimplemented!() }
/// `vec![x; n]` (R23, repeat form)
#[verifier::external_body]
pub fn vx_vec_repeat(x: u8, n: usize) -> (r: Vec<u8>) ensures r@.len() == n, forall|i: int| 0 <= i < n ==> r@[i] == x { unimplemented!() }
/// `v[a..b].copy_from_slice(src)` (R22): panics unless the lengths agree and the range is inside `v`
#[verifier::external_body]
pub fn vx_copy_into(v: &mut Vec<u8>, a: usize, b: usize, src: &[u8])
    requires a <= b <= old(v)@.len(), src@.len() == b - a,
    ensures final(v)@.len() == old(v)@.len(),
        forall|i: int| 0 <= i < old(v)@.len() ==> #[trigger] final(v)@[i] == (if a <= i < b { src@[i - a] } else { old(v)@[i] }),
{ unimplemented!() }
/// `v[a..].copy_from_slice(src)` (R22)
#[verifier::external_body]
pub fn vx_copy_into_tail(v: &mut Vec<u8>, a: usize, src: &[u8])
    requires a <= old(v)@.len(), src@.len() == old(v)@.len() - a,
    ensures final(v)@.len() == old(v)@.len(),
        forall|i: int| 0 <= i < old(v)@.len() ==> #[trigger] final(v)@[i] == (if a <= i { src@[i - a] } else { old(v)@[i] }),
{ unimplemented!() }
/// `sha2::Sha256::digest(&data)` followed by `.into()`: the 32 digest bytes of exactly the bytes it is given
#[verifier::external_body] pub struct Sha256Output { _p: u8 }
impl Sha256Output {
    pub uninterp spec fn bytes(&self) -> Seq<u8>;
    #[verifier::external_body]
    pub fn into(self) -> (r: [u8; 32]) ensures r@ == self.bytes() { unimplemented!() }
}
#[verifier::external_body]
pub fn vx_sha256(data: &Vec<u8>) -> (r: Sha256Output) ensures r.bytes() == sha256(data@) { unimplemented!() }
} // verus!
