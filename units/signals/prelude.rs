// ---- unit signals: prelude (ActorCell::kill / ActorCell::stop: a kill or stop request is handed to the actor's signal / stop port
// whatever the actor is doing -- C01 "post_stop never after a kill", C03 "a kill pre-empts everything") ----
#![feature(proc_macro_hygiene)]
#![allow(unused, non_snake_case, non_camel_case_types, dead_code, unreachable_code, non_upper_case_globals)]
use vstd::prelude::*;
use verus_builtin_macros::{verus_spec, verus_verify, proof, proof_decl};
use vstd::std_specs::cmp::*;
use std::sync::Arc;

verus! {
broadcast use effectlog::group_effectlog;
#[verifier::external_body] pub struct ActorProperties { _p: u8 }
#[verifier::external_body] pub struct SigErr { _p: u8 }
} // verus!
// @include ../_common/status_order.rs

pub mod vocab {
    use super::*;
    verus! {
    pub enum Effect {
        /// the signal was handed to the actor's signal port
        SendSignal(Signal),
        /// a stop request was handed to the actor's stop port
        SendStop,
        /// the actor's status word was read and showed this value
        StatusLoad(ActorStatus),
    }
    pub enum Kind { Kill, Stop, SawStopped, SawOther }
    pub open spec fn kind_of(e: Effect) -> Kind {
        match e {
            Effect::SendSignal(Signal::Kill) => Kind::Kill,
            Effect::SendStop => Kind::Stop,
            Effect::StatusLoad(ActorStatus::Stopped) => Kind::SawStopped,
            Effect::StatusLoad(_) => Kind::SawOther,
        }
    }
    }
}
pub use vocab::*;
// @include ../_common/effectlog.rs

#[verus_verify]
impl ActorProperties {
    /// hands the signal to the single-shot signal port (Err when the port is already spent, i.e. the actor is gone)
    #[verus_verify(external_body)]
    #[verus_spec(r =>
        with Tracked(log): Tracked<&mut EffectLog>
        ensures final(log).s == old(log).s.push(Effect::SendSignal(signal)))]
    pub fn send_signal(&self, signal: Signal) -> Result<(), SigErr> { unimplemented!() }
    /// hands the stop request to the single-shot stop port
    #[verus_verify(external_body)]
    #[verus_spec(r =>
        with Tracked(log): Tracked<&mut EffectLog>
        ensures final(log).s == old(log).s.push(Effect::SendStop))]
    pub fn send_stop(&self, reason: Option<String>) -> Result<(), SigErr> { unimplemented!() }
    /// one read of the status word: some status; the read is logged so that a contract can say what a decision was based on
    #[verus_verify(external_body)]
    #[verus_spec(r =>
        with Tracked(log): Tracked<&mut EffectLog>
        ensures final(log).s == old(log).s.push(Effect::StatusLoad(r)))]
    pub fn get_status(&self) -> ActorStatus { unimplemented!() }
}

#[verus_verify]
impl ActorCell {
    /// `ActorCell::get_status` (a one-line delegation to the status word, not extracted): one logged read of the status
    #[verus_verify(external_body)]
    #[verus_spec(r =>
        with Tracked(log): Tracked<&mut EffectLog>
        ensures final(log).s == old(log).s.push(Effect::StatusLoad(r)))]
    pub fn get_status(&self) -> ActorStatus { unimplemented!() }
}
