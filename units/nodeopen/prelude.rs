// ---- unit nodeopen: NodeServer::handle, arms ConnectionOpened / ConnectionOpenedExternal (C19: the configured inbound frame limit reaches every session) ----
#![feature(proc_macro_hygiene)]
#![allow(unused, non_snake_case, non_camel_case_types, dead_code, unreachable_code)]
use vstd::prelude::*;
use verus_builtin_macros::{verus_spec, verus_verify, proof, proof_decl};

verus! {
broadcast use effectlog::group_effectlog;
global size_of usize == 8;
pub type NodeId = u64;
#[verifier::external_body] pub struct Opaque { _p: u8 }
#[verifier::external_body] pub struct ActorProcessingErr { _p: u8 }
#[verifier::external_body] pub struct ActorCell { _p: u8 }
#[verifier::external_body] pub struct JoinHandle { _p: u8 }
#[verifier::external_body] pub struct SpawnErr { _p: u8 }
#[verifier::external_body] pub struct SubBox { _p: u8 }
#[verifier::external_body] pub struct Label { _p: u8 }
#[verifier::external_body] pub struct Half { _p: u8 }
/// the transport of a connection (opaque)
#[verifier::external_body] pub struct NetworkStream { _p: u8 }
/// Box<NetworkStream>: `*b` moves the stream out of the box
pub type StreamBox = Box<NetworkStream>;
#[verifier::external_body] pub struct ExtStreamBox { _p: u8 }
pub struct VxExternalStream { pub peer_label: Option<String>, pub local_label: Option<String>, pub reader: Half, pub writer: Half }
/// ActorRef<NodeSessionMessage>: which session it is
#[verifier::external_body] pub struct SessionRef { _p: u8 }
impl SessionRef {
    pub uninterp spec fn id(&self) -> ActorId;
    #[verifier::external_body] pub fn clone(&self) -> (r: SessionRef) ensures r == *self { unimplemented!() }
    #[verifier::external_body] pub fn get_id(&self) -> (r: ActorId) ensures r == self.id() { unimplemented!() }
}
#[verifier::external_body] pub struct ServerRef { _p: u8 }
impl ServerRef {
    #[verifier::external_body] pub fn clone(&self) -> (r: ServerRef) ensures r == *self { unimplemented!() }
    #[verifier::external_body] pub fn get_cell(&self) -> ActorCell { unimplemented!() }
}
impl Clone for NameMessage { #[verifier::external_body] fn clone(&self) -> (r: Self) ensures r == *self { unimplemented!() } }
impl Clone for NodeServerSessionInformation { #[verifier::external_body] fn clone(&self) -> (r: Self) ensures r == *self { unimplemented!() } }
impl NetworkStream { #[verifier::external_body] pub fn peer_addr(&self) -> String { unimplemented!() } }
impl ExtStreamBox {
    #[verifier::external_body] pub fn peer_label(&self) -> Option<String> { unimplemented!() }
    #[verifier::external_body] pub fn local_label(&self) -> Option<String> { unimplemented!() }
    #[verifier::external_body] pub fn split(self) -> (Half, Half) { unimplemented!() }
}
#[verifier::external_body]
pub fn vx_box_stream(s: VxExternalStream) -> StreamBox { unimplemented!() }
impl NodeSession {
    /// the per-dial nonce (random; C18)
    #[verifier::external_body]
    pub fn new_connection_id() -> u64 { unimplemented!() }
}
/// HashMap<ActorId, NodeServerSessionInformation>
#[verifier::external_body] pub struct SessionsMap { _p: u8 }
impl View for SessionsMap { type V = Map<ActorId, NodeServerSessionInformation>; uninterp spec fn view(&self) -> Map<ActorId, NodeServerSessionInformation>; }
impl SessionsMap {
    #[verifier::external_body]
    pub fn insert(&mut self, k: ActorId, v: NodeServerSessionInformation) -> (r: Option<NodeServerSessionInformation>) ensures final(self)@ == old(self)@.insert(k, v) { unimplemented!() }
}
/// the node server's state, as far as the two arms read and write it
pub struct NodeServerState {
    pub node_sessions: SessionsMap,
    pub node_id_counter: NodeId,
    pub this_node_name: NameMessage,
    pub subscriptions: SubMap,
}
#[verifier::external_body] pub struct SubMap { _p: u8 }
impl SubMap { #[verifier::external_body] pub fn values(&self) -> (r: &Vec<SubBox>) { unimplemented!() } }
impl NodeServerSessionInformation {
    #[verifier::external_body]
    pub fn new(actor: SessionRef, is_server: bool, node_id: NodeId, peer_addr: String) -> (r: NodeServerSessionInformation)
        ensures r.actor == actor, r.is_server == is_server, r.node_id == node_id, r.peer_name is None { unimplemented!() }
}
} // verus!

pub mod vocab {
    use super::*;
    verus! {
    pub enum Effect {
        /// a session actor was spawned (linked to the node server) for a connection: node id, direction, and the limit under which it reads frames
        SpawnSession { node_id: NodeId, is_server: bool, frame_limit: u64 },
        /// a subscriber was told about a new session
        Opened(NodeId),
        Rest,
    }
    pub type Kind = Effect;
    pub open spec fn kind_of(e: Effect) -> Kind { e }
    }
}
pub use vocab::*;
// @include ../_common/effectlog.rs

verus! {
/// the first thing the arm does is to spawn ONE session for this connection, with the next node id, its direction, and the given frame limit;
/// whatever follows are notifications
pub open spec fn opened(a: Seq<Effect>, b: Seq<Effect>, node_id: NodeId, is_server: bool, limit: u64) -> bool {
    ext(a, b) && added(a, b) >= 1 && at(a, b, 0) == (Effect::SpawnSession { node_id: node_id, is_server: is_server, frame_limit: limit })
    && (forall|e: Effect| (e is SpawnSession) ==> #[trigger] cnt(b, e) == cnt(a, e) + (if e == at(a, b, 0) { 1nat } else { 0nat }))
}
}
/// `Actor::spawn_linked(None, session, stream, supervisor).await`
#[verus_verify(external_body)]
#[verus_spec(r =>
    with Tracked(log): Tracked<&mut EffectLog>
    ensures final(log).s == old(log).s.push(Effect::SpawnSession { node_id: handler.node_id, is_server: handler.is_server, frame_limit: handler.max_inbound_frame_size }),
)]
pub fn vx_spawn_linked(name: Option<String>, handler: NodeSession, stream: NetworkStream, sup: ActorCell) -> Result<(SessionRef, JoinHandle), SpawnErr> { unimplemented!() }
#[verus_verify]
impl SubBox {
    #[verus_verify(external_body)]
    #[verus_spec(
        with Tracked(log): Tracked<&mut EffectLog>
        ensures final(log).s == old(log).s.push(Effect::Opened(ses.node_id)))]
    pub fn node_session_opened(&self, ses: NodeServerSessionInformation) { unimplemented!() }
}
/// R19: every other arm of the handler
#[verus_verify(external_body)]
#[verus_spec(
    with Tracked(log): Tracked<&mut EffectLog>
    ensures final(log).s == old(log).s.push(Effect::Rest))]
pub fn vx_rest_tail() { unimplemented!() }
