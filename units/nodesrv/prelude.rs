// ---- unit nodesrv: three arms of NodeServer::handle (who is listed, who is stopped after an election, who is announced ready) ----
#![feature(proc_macro_hygiene)]
#![allow(unused, non_snake_case, non_camel_case_types, dead_code, unreachable_code)]
use vstd::prelude::*;
use verus_builtin_macros::{verus_spec, verus_verify, proof, proof_decl};

verus! {
broadcast use effectlog::group_effectlog;
pub type NodeId = u64;
#[verifier::external_body] pub struct Opaque { _p: u8 }
#[verifier::external_body] pub struct ActorProcessingErr { _p: u8 }
/// `ActorRef<NodeSessionMessage>`: `@` = the session actor's id
#[verifier::external_body] pub struct SessionRef { _p: u8 }
impl View for SessionRef { type V = ActorId; uninterp spec fn view(&self) -> ActorId; }
/// `Box<dyn NodeEventSubscription>`
#[verifier::external_body] pub struct SubBox { _p: u8 }
/// the NodeServer itself: none of its fields is read by the three arms
pub struct NodeServer { pub _p: u8 }
/// `HashSet<ActorId>`
#[verifier::external_body] pub struct IdSet { _p: u8 }
impl View for IdSet { type V = Set<ActorId>; uninterp spec fn view(&self) -> Set<ActorId>; }
/// `HashMap<String, Box<dyn NodeEventSubscription>>`
#[verifier::external_body] pub struct Subs { _p: u8 }
/// stand-in for NodeServerState with the three fields the arms read: `node_sessions` (a HashMap in the real code) is the vector
/// of its entries (iteration order of a HashMap is unspecified; lookups go through `vx_session`)
pub struct NodeServerState {
    pub node_sessions: Vec<(ActorId, NodeServerSessionInformation)>,
    pub authenticated_sessions: IdSet,
    pub subscriptions: Subs,
    /// ghost: what `is_elected` answers (contract: unit nodeelect -- only authenticated sessions are elected)
    pub ghost elected: Set<ActorId>,
    /// ghost: the outcome of the last `commit_authenticated`: (does the candidate survive, the losers' ids)
    pub ghost last_election: Option<(bool, Seq<ActorId>)>,
}
/// the map `reply.send(map)` is given: which sessions (by their session actor) it lists
pub struct ListedMap { pub ghost listed: Set<ActorId> }
#[verifier::external_body] pub struct SessionsReply { _p: u8 }
impl Clone for NodeServerSessionInformation {
    #[verifier::external_body]
    fn clone(&self) -> (r: Self) ensures r == *self { unimplemented!() }
}
/// the entries of the session table are keyed by their session actor
pub open spec fn table_wf(t: Seq<(ActorId, NodeServerSessionInformation)>) -> bool {
    forall|i: int| 0 <= i < t.len() ==> (#[trigger] t[i]).1.actor@ == t[i].0
}
pub open spec fn ids_of(v: Seq<SessionRef>) -> Seq<ActorId> { v.map_values(|s: SessionRef| s@) }
/// the first `n` losers were told to stop, in order, right after position `base` of the log
pub open spec fn stopped_upto(l: Seq<Effect>, base: int, losers: Seq<ActorId>, n: int) -> bool {
    forall|j: int| 0 <= j < n ==> #[trigger] l[base + j] == Effect::Stop(losers[j])
}
/// every effect after position `from` is `e`
pub open spec fn only_after(l: Seq<Effect>, from: int, e: Effect) -> bool { forall|i: int| from <= i < l.len() ==> #[trigger] l[i] == e }
} // verus!

pub mod vocab {
    use super::*;
    verus! {
    pub enum Effect {
        /// a session actor was told to stop
        Stop(ActorId),
        /// subscribers were told that a session authenticated / became ready
        Authenticated(ActorId),
        Ready(ActorId),
        /// GetSessions was answered with a map listing these sessions
        Listed(Set<ActorId>),
        /// anything another arm of the handler does (R19)
        Rest,
    }
    pub enum Kind { Stop, Authenticated, Ready, Listed, Rest }
    pub open spec fn kind_of(e: Effect) -> Kind {
        match e { Effect::Stop(_) => Kind::Stop, Effect::Authenticated(_) => Kind::Authenticated, Effect::Ready(_) => Kind::Ready, Effect::Listed(_) => Kind::Listed, Effect::Rest => Kind::Rest }
    }
    }
}
pub use vocab::*;
// @include ../_common/effectlog.rs

/// R19: every arm that is not under contract
#[verus_verify(external_body)]
#[verus_spec(
    with Tracked(log): Tracked<&mut EffectLog>
    ensures final(log).s == old(log).s.push(Effect::Rest))]
pub fn vx_rest_tail<T>() -> T { unimplemented!() }

/// `&map[&id]` on the session table (panics in the real code when the id is absent: required present here)
#[verus_verify(external_body)]
#[verus_spec(r =>
    requires exists|i: int| 0 <= i < t@.len() && (#[trigger] t@[i]).0 == *id
    ensures exists|i: int| 0 <= i < t@.len() && (#[trigger] t@[i]).0 == *id && *r == t@[i].1)]
pub fn vx_session<'a>(t: &'a Vec<(ActorId, NodeServerSessionInformation)>, id: &ActorId) -> &'a NodeServerSessionInformation { unimplemented!() }

#[verus_verify]
impl IdSet {
    #[verus_verify(external_body)]
    #[verus_spec(r => ensures r == self@.contains(*k))]
    pub fn contains(&self, k: &ActorId) -> bool { unimplemented!() }
}
#[verus_verify]
impl Subs {
    #[verus_verify(external_body)]
    pub fn values(&self) -> &Vec<SubBox> { unimplemented!() }
}
#[verus_verify]
impl SubBox {
    #[verus_verify(external_body)]
    #[verus_spec(
        with Tracked(log): Tracked<&mut EffectLog>
        ensures final(log).s == old(log).s.push(Effect::Authenticated(ses.actor@)))]
    pub fn node_session_authenticated(&self, ses: NodeServerSessionInformation) { unimplemented!() }
    #[verus_verify(external_body)]
    #[verus_spec(
        with Tracked(log): Tracked<&mut EffectLog>
        ensures final(log).s == old(log).s.push(Effect::Ready(ses.actor@)))]
    pub fn node_session_ready(&self, ses: NodeServerSessionInformation) { unimplemented!() }
}
#[verus_verify]
impl SessionRef {
    #[verus_verify(external_body)]
    #[verus_spec(
        with Tracked(log): Tracked<&mut EffectLog>
        ensures final(log).s == old(log).s.push(Effect::Stop(self@)))]
    pub fn stop(&self, reason: Option<String>) { unimplemented!() }
}
#[verus_verify]
impl ListedMap {
    #[verus_verify(external_body)]
    #[verus_spec(r => ensures r.listed == Set::<ActorId>::empty())]
    pub fn new() -> ListedMap { unimplemented!() }
    #[verus_verify(external_body)]
    #[verus_spec(r => ensures final(self).listed == old(self).listed.insert(v.actor@))]
    pub fn insert(&mut self, k: NodeId, v: NodeServerSessionInformation) -> Option<NodeServerSessionInformation> { unimplemented!() }
}
#[verus_verify]
impl SessionsReply {
    #[verus_verify(external_body)]
    #[verus_spec(r =>
        with Tracked(log): Tracked<&mut EffectLog>
        ensures final(log).s == old(log).s.push(Effect::Listed(map.listed)))]
    pub fn send(self, map: ListedMap) -> Result<(), ()> { unimplemented!() }
}
#[verus_verify]
impl NodeServerState {
    /// contract of the real function: unit nodeelect (only authenticated sessions take part) + unit elect (the election itself)
    #[verus_verify(external_body)]
    #[verus_spec(r =>
        ensures final(self).node_sessions == old(self).node_sessions, final(self).elected == old(self).elected,
            final(self).last_election == (match r { Some(e) => Some((e.candidate_survives, ids_of(e.losers@))), None => None }),
            old(self).authenticated_sessions@.subset_of(final(self).authenticated_sessions@),
            r is Some ==> exists|i: int| 0 <= i < final(self).node_sessions@.len() && (#[trigger] final(self).node_sessions@[i]).0 == actor_id)]
    pub fn commit_authenticated(&mut self, actor_id: ActorId) -> Option<SessionElection> { unimplemented!() }
    #[verus_verify(external_body)]
    #[verus_spec(r => ensures r == self.elected.contains(actor_id),
        r ==> exists|i: int| 0 <= i < self.node_sessions@.len() && (#[trigger] self.node_sessions@[i]).0 == actor_id)]
    pub fn is_elected(&self, actor_id: ActorId) -> bool { unimplemented!() }
}
