// ---- unit wire: frame reading (C19: oversize frame rejected before its payload is read or buffered; reads are chunk-bounded; any fragmentation) ----
#![feature(proc_macro_hygiene)]
#![allow(unused, non_snake_case, non_camel_case_types, dead_code, unreachable_code)]
use vstd::prelude::*;
use verus_builtin_macros::{verus_spec, verus_verify, proof, proof_decl};

verus! {
broadcast use {effectlog::group_effectlog, recv::group_recv};
global size_of usize == 8;

#[verifier::external_body] pub struct IoError { _p: u8 }
/// std::io::ErrorKind: the kinds this crate names plus a few others (any kind may come out of the OS)
#[derive(Structural, PartialEq, Eq)]
pub enum ErrorKind { InvalidData, UnexpectedEof, Unsupported, InvalidInput, TimedOut, Interrupted, Other }
#[verifier::external_body] pub struct ActorProcessingErr { _p: u8 }
/// the session actor / the reader actor itself
#[verifier::external_body] pub struct SessionActorRef { _p: u8 }
#[verifier::external_body] pub struct ReaderRef { _p: u8 }
pub enum SessionMessage { ObjectAvailable(NetworkMessage), Other }
#[verifier::external_body] pub struct MessagingErr { _p: u8 }
#[verifier::external_body] pub struct ReadStub { _p: u8 }
#[verifier::external_body] pub struct Bytes { _p: u8 }
#[verifier::external_body] pub struct NetworkMessage { _p: u8 }
#[verifier::external_body] pub struct DecodeError { _p: u8 }
#[verifier::external_body] pub struct TryReserveError { _p: u8 }
/// `impl Into<Box<dyn Error + Send + Sync>>` stand-in for the message argument of io::Error::new
pub trait ErrMsg {}
impl ErrMsg for String {}
impl<'a> ErrMsg for &'a str {}
impl IoError {
    #[verifier::external_body]
    pub fn new<M: ErrMsg>(k: ErrorKind, msg: M) -> IoError { unimplemented!() }
}
/// `"EOF"` literal as error payload: the real signature takes `impl Into<Box<dyn Error>>`
#[verifier::external_body] pub fn vx_format() -> String { unimplemented!() }
impl Bytes {
    pub uninterp spec fn view(&self) -> Seq<u8>;
    #[verifier::external_body]
    pub fn from(v: Vec<u8>) -> (r: Bytes) ensures r.view() == v@ { unimplemented!() }
    #[verifier::external_body]
    pub fn len(&self) -> (r: usize) ensures r == self.view().len() { unimplemented!() }
}
impl NetworkMessage {
    /// prost decoding (not under contract): total, may fail
    #[verifier::external_body]
    pub fn decode(b: Bytes) -> Result<NetworkMessage, DecodeError> { unimplemented!() }
}
} // verus!

pub mod vocab {
    use super::*;
    verus! {
    pub enum Effect {
        /// the 8-byte length prefix was read (or the read failed)
        ReadLen,
        /// waited for readability
        Readable,
        /// one read request for at most `cap` payload bytes, which produced `got` bytes (0 = EOF); got <= cap
        ReadReq(usize, usize),
        /// a read request that failed with an I/O error
        ReadFailed(usize),
        /// the reader actor handed a decoded frame to its session
        Forward,
        /// the reader actor asked itself for the next frame
        Rearm,
        /// the reader actor stopped itself (the session follows: it supervises the reader)
        StopReader,
    }
    pub enum Kind { ReadLen, Readable, ReadReq, ReadFailed, Forward, Rearm, StopReader }
    pub open spec fn kind_of(e: Effect) -> Kind {
        match e { Effect::ReadLen => Kind::ReadLen, Effect::Readable => Kind::Readable, Effect::ReadReq(_, _) => Kind::ReadReq, Effect::ReadFailed(_) => Kind::ReadFailed,
            Effect::Forward => Kind::Forward, Effect::Rearm => Kind::Rearm, Effect::StopReader => Kind::StopReader }
    }
    }
}
pub use vocab::*;
// @include ../_common/effectlog.rs
pub mod recv {
    use super::*;
    verus! {
    /// payload bytes received so far among the effects added after `a`
    pub open spec fn received(a: Seq<Effect>, b: Seq<Effect>) -> int
        decreases b.len(),
    {
        if b.len() <= a.len() { 0 } else { received(a, b.drop_last()) + (match b.last() { Effect::ReadReq(_, got) => got as int, _ => 0 }) }
    }
    pub broadcast proof fn lemma_received_push(a: Seq<Effect>, b: Seq<Effect>, e: Effect)
        requires b.len() >= a.len(),
        ensures #[trigger] received(a, b.push(e)) == received(a, b) + (match e { Effect::ReadReq(_, got) => got as int, _ => 0 }),
    {
        assert(b.push(e).drop_last() =~= b);
    }
    pub broadcast proof fn lemma_received_refl(a: Seq<Effect>)
        ensures #[trigger] received(a, a) == 0,
    {}
    /// every read request added after `a` asked for no more than what was still missing from a frame of `len` bytes
    pub open spec fn within(a: Seq<Effect>, b: Seq<Effect>, len: int) -> bool
        decreases b.len(),
    {
        b.len() <= a.len() || (within(a, b.drop_last(), len)
            && (match b.last() { Effect::ReadReq(cap, _) => cap as int + received(a, b.drop_last()) <= len, Effect::ReadFailed(cap) => cap as int + received(a, b.drop_last()) <= len, _ => true }))
    }
    pub broadcast proof fn lemma_within_push(a: Seq<Effect>, b: Seq<Effect>, e: Effect, len: int)
        requires b.len() >= a.len(),
        ensures #[trigger] within(a, b.push(e), len) == (within(a, b, len)
            && (match e { Effect::ReadReq(cap, _) => cap as int + received(a, b) <= len, Effect::ReadFailed(cap) => cap as int + received(a, b) <= len, _ => true })),
    {
        assert(b.push(e).drop_last() =~= b);
    }
    pub broadcast proof fn lemma_within_refl(a: Seq<Effect>, len: int)
        ensures #[trigger] within(a, a, len),
    {}
    pub broadcast proof fn lemma_received_split(a: Seq<Effect>, b: Seq<Effect>, c: Seq<Effect>)
        requires #[trigger] ext(a, b), ext(b, c),
        ensures #[trigger] received(b, c) == received(a, c) - received(a, b),
        decreases c.len(),
    {
        if c.len() <= b.len() {
            assert(c =~= b);
        } else {
            let c1 = c.drop_last();
            assert(ext(b, c1));
            lemma_received_split(a, b, c1);
        }
    }
    pub broadcast proof fn lemma_bounded_split(a: Seq<Effect>, b: Seq<Effect>, c: Seq<Effect>)
        requires #[trigger] ext(a, b), ext(b, c), chunked(a, b), #[trigger] chunked(b, c),
        ensures chunked(a, c),
    {
        assert forall|i: int| a.len() <= i < c.len() implies ((#[trigger] c[i]) matches Effect::ReadReq(cap, got) ==> cap <= 8192 && got <= cap) by {
            if i < b.len() { assert(c[i] == b[i]); }
        }
    }
    /// every payload read request added after `a` asks for at most one chunk and gets at most what it asked for
    pub open spec fn chunked(a: Seq<Effect>, b: Seq<Effect>) -> bool {
        forall|i: int| a.len() <= i < b.len() ==> ((#[trigger] b[i]) matches Effect::ReadReq(cap, got) ==> cap <= 8192 && got <= cap)
    }
    pub broadcast group group_recv { lemma_received_push, lemma_received_refl, lemma_within_push, lemma_within_refl, lemma_received_split, lemma_bounded_split }
    }
}
pub use recv::*;

verus! {
/// futures of the async read primitives (R7 "call" mode): what awaiting them may yield and which effect that is
pub struct ReadU64Fut { pub ghost p: int }
pub struct ReadableFut { pub ghost p: int }
pub struct ReadFut { pub ghost cap: usize }

pub trait VxFuture: Sized {
    type Output;
    spec fn possible(self, o: Self::Output) -> bool;
    spec fn effect_of(self, o: Self::Output) -> Effect;
}
impl VxFuture for ReadU64Fut {
    type Output = Result<u64, IoError>;
    open spec fn possible(self, o: Result<u64, IoError>) -> bool { true }
    open spec fn effect_of(self, o: Result<u64, IoError>) -> Effect { Effect::ReadLen }
}
impl VxFuture for ReadableFut {
    type Output = Result<(), IoError>;
    open spec fn possible(self, o: Result<(), IoError>) -> bool { true }
    open spec fn effect_of(self, o: Result<(), IoError>) -> Effect { Effect::Readable }
}
impl VxFuture for ReadFut {
    type Output = Result<usize, IoError>;
    /// a read yields between 0 (EOF) and `cap` bytes, in ANY fragmentation
    open spec fn possible(self, o: Result<usize, IoError>) -> bool { o matches Ok(n) ==> n <= self.cap }
    open spec fn effect_of(self, o: Result<usize, IoError>) -> Effect { match o { Ok(n) => Effect::ReadReq(self.cap, n), Err(_) => Effect::ReadFailed(self.cap) } }
}
pub open spec fn no_payload_reads(a: Seq<Effect>, b: Seq<Effect>) -> bool {
    forall|i: int| a.len() <= i < b.len() ==> !((#[trigger] b[i]) is ReadReq) && !(b[i] is ReadFailed) && !(b[i] is Readable)
}
} // verus!

#[verus_verify]
impl ReadStub {
    #[verus_verify(external_body)]
    pub fn read_u64(&mut self) -> ReadU64Fut { unimplemented!() }
    #[verus_verify(external_body)]
    pub fn readable(&self) -> ReadableFut { unimplemented!() }
    /// AsyncReadExt::read(buf): may fill at most buf.len() bytes
    #[verus_verify(external_body)]
    #[verus_spec(r => ensures r.cap == old(buf)@.len())]
    pub fn read(&mut self, buf: &mut [u8]) -> ReadFut { unimplemented!() }
}

/// R7 ("call" mode): `x.await` is projected to `vx_await(x)`
#[verus_verify(external_body)]
#[verus_spec(o =>
    with Tracked(log): Tracked<&mut EffectLog>
    ensures f.possible(o), final(log).s == old(log).s.push(f.effect_of(o)),
)]
pub fn vx_await<F: VxFuture>(f: F) -> F::Output { unimplemented!() }

#[verus_verify]
impl IoError {
    #[verus_verify(external_body)]
    pub fn kind(&self) -> ErrorKind { unimplemented!() }
}
#[verus_verify]
impl SessionActorRef {
    #[verus_verify(external_body)]
    #[verus_spec(r =>
        with Tracked(log): Tracked<&mut EffectLog>
        ensures final(log).s == old(log).s.push(Effect::Forward))]
    pub fn cast(&self, m: SessionMessage) -> Result<(), MessagingErr> { unimplemented!() }
}
#[verus_verify]
impl ReaderRef {
    #[verus_verify(external_body)]
    #[verus_spec(r =>
        with Tracked(log): Tracked<&mut EffectLog>
        ensures final(log).s == old(log).s.push(Effect::Rearm))]
    pub fn cast(&self, m: SessionReaderMessage) -> Result<(), MessagingErr> { unimplemented!() }
    #[verus_verify(external_body)]
    #[verus_spec(
        with Tracked(log): Tracked<&mut EffectLog>
        ensures final(log).s == old(log).s.push(Effect::StopReader))]
    pub fn stop(&self, reason: Option<String>) { unimplemented!() }
}
#[verus_verify(external_body)]
pub fn vx_drop<T>(t: T) { }

verus! {
/// only I/O effects between `a` and `b` (nothing the reader ACTOR does)
pub open spec fn io_only(a: Seq<Effect>, b: Seq<Effect>) -> bool {
    delta(a, b, Kind::Forward) == 0 && delta(a, b, Kind::Rearm) == 0 && delta(a, b, Kind::StopReader) == 0
}
}
