// ---- unit remote: RemoteActor (the local stand-in of an actor on a peer node): forwarding and reply correlation ----
#![feature(proc_macro_hygiene)]
#![allow(unused, non_snake_case, non_camel_case_types, dead_code, unreachable_code)]
use vstd::prelude::*;
use verus_builtin_macros::{verus_spec, verus_verify, proof, proof_decl};

verus! {
broadcast use effectlog::group_effectlog;
#[verifier::external_body] pub struct ActorProcessingErr { _p: u8 }
/// the RemoteActor itself has no fields the handler reads
pub struct RemoteActor { pub _p: u8 }
/// `RpcReplyPort<Vec<u8>>`: the caller's end; `@` = the identity of that port (one per call)
#[verifier::external_body] pub struct ReplyPort { _p: u8 }
impl View for ReplyPort { type V = int; uninterp spec fn view(&self) -> int; }
#[verifier::external_body] pub struct DurationStub { _p: u8 }
/// `ActorRef<NodeSessionMessage>`: the owning session
#[verifier::external_body] pub struct SessionRef { _p: u8 }
/// `ActorRef<RemoteActorMessage>` of this remote actor: `@` = its ActorId (Remote { node_id, pid })
#[verifier::external_body] pub struct MyRef { _p: u8 }
impl View for MyRef { type V = ActorId; uninterp spec fn view(&self) -> ActorId; }
/// the two NodeSessionMessage variants are opaque here except SendMessage
pub enum NodeSessionMessage { SendMessage(NodeMessage), Other }
#[verifier::external_body] pub struct MessagingErr { _p: u8 }
pub enum RactorErr { Messaging(MessagingErr), Other }
impl RactorErr {
    /// `RactorErr::from(MessagingErr)` (From impl in ractor/src/errors.rs)
    #[verifier::external_body]
    pub fn from(e: MessagingErr) -> (r: RactorErr) { unimplemented!() }
}
/// `BTreeMap<u64, RpcReplyPort<Vec<u8>>>`: tag -> identity of the waiting caller's port
#[verifier::external_body] pub struct PendingMap { _p: u8 }
impl View for PendingMap { type V = Map<u64, int>; uninterp spec fn view(&self) -> Map<u64, int>; }

pub open spec fn pid_of(a: ActorId) -> u64 { match a { ActorId::Local(p) => p, ActorId::Remote { node_id, pid } => pid } }
/// every outstanding tag was handed out by this remote actor already (so the next tag is fresh)
pub open spec fn state_wf(s: RemoteActorState) -> bool {
    forall|t: u64| #[trigger] s.pending_requests@.contains_key(t) ==> t <= s.message_tag
}
} // verus!

pub mod vocab {
    use super::*;
    verus! {
    pub enum Effect {
        /// a NodeMessage was handed to the owning session for sending (whether the session took it)
        Sent(NodeMessage, bool),
        /// reply bytes were delivered into the caller's port with this identity
        Replied(int, Seq<u8>),
    }
    pub enum Kind { Sent, Replied }
    pub open spec fn kind_of(e: Effect) -> Kind { match e { Effect::Sent(_, _) => Kind::Sent, Effect::Replied(_, _) => Kind::Replied } }
    }
}
pub use vocab::*;
// @include ../_common/effectlog.rs

#[verus_verify]
impl MyRef {
    #[verus_verify(external_body)]
    #[verus_spec(r => ensures r == self@)]
    pub fn get_id(&self) -> ActorId { unimplemented!() }
}
#[verus_verify]
impl ReplyPort {
    #[verus_verify(external_body)]
    pub fn get_timeout(&self) -> Option<DurationStub> { unimplemented!() }
    /// delivers into the caller's oneshot port
    #[verus_verify(external_body)]
    #[verus_spec(r =>
        with Tracked(log): Tracked<&mut EffectLog>
        ensures final(log).s == old(log).s.push(Effect::Replied(self@, data@)))]
    pub fn send(self, data: Vec<u8>) -> Result<(), ()> { unimplemented!() }
}
#[verus_verify]
impl DurationStub {
    #[verus_verify(external_body)]
    pub fn as_millis(&self) -> u128 { unimplemented!() }
}
#[verus_verify]
impl SessionRef {
    /// `session.cast(SendMessage(m))`: the message is offered to the session's mailbox (C02 says what an Ok means)
    #[verus_verify(external_body)]
    #[verus_spec(r =>
        with Tracked(log): Tracked<&mut EffectLog>
        requires msg is SendMessage
        ensures final(log).s == old(log).s.push(Effect::Sent(msg->SendMessage_0, r is Ok)))]
    pub fn cast(&self, msg: NodeSessionMessage) -> Result<(), MessagingErr> { unimplemented!() }
}
#[verus_verify]
impl PendingMap {
    #[verus_verify(external_body)]
    #[verus_spec(r => ensures final(self)@ == old(self)@.insert(k, v@))]
    pub fn insert(&mut self, k: u64, v: ReplyPort) -> Option<ReplyPort> { unimplemented!() }
    #[verus_verify(external_body)]
    #[verus_spec(r => ensures final(self)@ == old(self)@.remove(*k),
        (r is Some) == old(self)@.contains_key(*k), r matches Some(p) ==> p@ == old(self)@[*k])]
    pub fn remove(&mut self, k: &u64) -> Option<ReplyPort> { unimplemented!() }
    #[verus_verify(external_body)]
    #[verus_spec(r => ensures r == (self@.dom() =~= Set::<u64>::empty()))]
    pub fn is_empty(&self) -> bool { unimplemented!() }
}
#[verus_verify]
impl RemoteActorState {
    /// NOT under contract (BTreeMap range/iter/take adapters): ASSUMED to drop only entries of the table, never to add or re-key
    /// one, and to leave the tag counter alone (it reclaims ports whose caller has gone away)
    #[verus_verify(external_body)]
    #[verus_spec(
        ensures final(self).message_tag == old(self).message_tag, final(self).session == old(self).session,
            forall|t: u64| #[trigger] final(self).pending_requests@.contains_key(t) ==> old(self).pending_requests@.contains_key(t) && final(self).pending_requests@[t] == old(self).pending_requests@[t])]
    pub fn cleanup_closed_pending_requests(&mut self) { unimplemented!() }
}
