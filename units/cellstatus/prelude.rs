// ---- unit cellstatus: prelude ----
#![feature(proc_macro_hygiene)]
#![allow(unused, non_snake_case, non_camel_case_types, dead_code, unreachable_code)]
use vstd::prelude::*;
use verus_builtin_macros::{verus_spec, verus_verify, proof, proof_decl};
use vstd::std_specs::cmp::*;
use std::sync::Arc;

verus! {
broadcast use effectlog::group_effectlog;

#[verifier::external_body] pub struct Opaque { _p: u8 }
#[verifier::external_body] pub struct ActorProcessingErr { _p: u8 }
pub type ActorName = String;
/// stand-in for the `Actor` trait bound of `ActorCell::new::<TActor>`
pub trait Actor {}

// A-std: derive(PartialEq, PartialOrd) on the fieldless repr(u8) enum ActorStatus compares discriminants
pub open spec fn status_cmp(a: ActorStatus, b: ActorStatus) -> Option<core::cmp::Ordering> {
    if (a as u8) < (b as u8) { Some(core::cmp::Ordering::Less) }
    else if (a as u8) == (b as u8) { Some(core::cmp::Ordering::Equal) }
    else { Some(core::cmp::Ordering::Greater) }
}
pub assume_specification [<ActorStatus as PartialEq>::eq] (a: &ActorStatus, b: &ActorStatus) -> (r: bool)
    ensures r == (*a == *b);
pub assume_specification [<ActorStatus as PartialOrd>::partial_cmp] (a: &ActorStatus, b: &ActorStatus) -> (r: Option<core::cmp::Ordering>)
    ensures r == status_cmp(*a, *b);
impl PartialOrdSpecImpl for ActorStatus {
    open spec fn obeys_partial_cmp_spec() -> bool { true }
    open spec fn partial_cmp_spec(&self, b: &ActorStatus) -> Option<core::cmp::Ordering> { status_cmp(*self, *b) }
}
impl PartialEqSpecImpl for ActorStatus {
    open spec fn obeys_eq_spec() -> bool { true }
    open spec fn eq_spec(&self, b: &ActorStatus) -> bool { *self == *b }
}
/// the conversion applied by `?` in ActorCell::new: specification of the extracted `impl From<ActorRegistryErr> for SpawnErr`
impl vstd::std_specs::convert::FromSpecImpl<ActorRegistryErr> for SpawnErr {
    open spec fn obeys_from_spec() -> bool { true }
    open spec fn from_spec(v: ActorRegistryErr) -> SpawnErr {
        match v { ActorRegistryErr::AlreadyRegistered(n) => SpawnErr::ActorAlreadyRegistered(n) }
    }
}
} // verus!

pub mod vocab {
    use super::*;
    verus! {
    pub enum Effect {
        /// ActorProperties::set_status(arg) (= one fetch_max, unit admission) and the previous status it returned
        StatusSet(ActorStatus, ActorStatus),
        DemonitorPid(ActorId),
        UnregisterPid(ActorId),
        UnregisterName(Seq<char>),
        PgDemonitorAll(ActorId),
        PgLeaveAll(ActorId),
        NotifyStop,
        /// registry::register(name, cell) and whether it succeeded
        RegisterName(Seq<char>, bool),
        /// pid_registry::register_pid(id, cell) and whether it succeeded
        RegisterPid(ActorId, bool),
        /// a fresh ActorProperties was built (id, name)
        NewProps(ActorId, Option<Seq<char>>),
    }
    pub enum Kind { StatusSet, DemonitorPid, UnregisterPid, UnregisterName, PgDemonitorAll, PgLeaveAll, NotifyStop, RegisterName, RegisterPid, NewProps }
    pub open spec fn kind_of(e: Effect) -> Kind {
        match e {
            Effect::StatusSet(_, _) => Kind::StatusSet,
            Effect::DemonitorPid(_) => Kind::DemonitorPid,
            Effect::UnregisterPid(_) => Kind::UnregisterPid,
            Effect::UnregisterName(_) => Kind::UnregisterName,
            Effect::PgDemonitorAll(_) => Kind::PgDemonitorAll,
            Effect::PgLeaveAll(_) => Kind::PgLeaveAll,
            Effect::NotifyStop => Kind::NotifyStop,
            Effect::RegisterName(_, _) => Kind::RegisterName,
            Effect::RegisterPid(_, _) => Kind::RegisterPid,
            Effect::NewProps(_, _) => Kind::NewProps,
        }
    }
    }
}
pub use vocab::*;
// @include ../_common/effectlog.rs

verus! {
/// the `K: AsRef<str>` / `K: Into<String>` arguments of the registry functions, with the string they denote
pub trait NameLike: Sized { spec fn nv(&self) -> Seq<char>; }
impl NameLike for String { open spec fn nv(&self) -> Seq<char> { self@ } }
impl<'a> NameLike for &'a String { open spec fn nv(&self) -> Seq<char> { (**self)@ } }

pub open spec fn name_view(n: Option<String>) -> Option<Seq<char>> { match n { Some(s) => Some(s@), None => None } }

/// exit cleanup of the registries and process groups, in order (cluster builds also release the pid)
pub open spec fn exit_cleanup(cluster: bool, id: ActorId, name: Option<Seq<char>>) -> Seq<Effect> {
    (if cluster { seq![Effect::DemonitorPid(id), Effect::UnregisterPid(id)] } else { Seq::<Effect>::empty() })
    + (match name { Some(n) => seq![Effect::UnregisterName(n)], None => Seq::<Effect>::empty() })
    + seq![Effect::PgDemonitorAll(id), Effect::PgLeaveAll(id)]
}
/// what ActorCell::set_status(status) does, given the previous status `p` the atomic update returned
pub open spec fn set_status_log(cluster: bool, id: ActorId, name: Option<Seq<char>>, status: ActorStatus, p: ActorStatus) -> Seq<Effect> {
    seq![Effect::StatusSet(status, p)]
    + (if status as u8 >= 5 && (p as u8) < 5 { exit_cleanup(cluster, id, name) } else { Seq::<Effect>::empty() })
    + (if status as u8 == 6 && (p as u8) < 6 { seq![Effect::NotifyStop] } else { Seq::<Effect>::empty() })
}
/// C06/C10/C11, independent of the order of the individual clean-up steps: the new status is published FIRST; the exit clean-up
/// (name, pid, process groups) runs exactly once, on the transition into Stopping-or-later, and not otherwise; waiters are released
/// exactly once, on the transition into Stopped, and only after everything else
pub open spec fn set_status_shape(a: Seq<Effect>, b: Seq<Effect>, cluster: bool, named: bool, status: ActorStatus) -> bool {
    let p = prev_seen(a, b);
    let exits = status as u8 >= 5 && (p as u8) < 5;
    let stops = status as u8 == 6 && (p as u8) < 6;
    &&& ext(a, b) && added(a, b) >= 1 && (at(a, b, 0) matches Effect::StatusSet(s, _) && s == status)
    &&& delta(a, b, Kind::StatusSet) == 1
    &&& delta(a, b, Kind::PgLeaveAll) == (if exits { 1int } else { 0int }) && delta(a, b, Kind::PgDemonitorAll) == (if exits { 1int } else { 0int })
    &&& delta(a, b, Kind::UnregisterPid) == (if exits && cluster { 1int } else { 0int }) && delta(a, b, Kind::DemonitorPid) == (if exits && cluster { 1int } else { 0int })
    &&& delta(a, b, Kind::NotifyStop) == (if stops { 1int } else { 0int }) && (stops ==> b.last() == Effect::NotifyStop)
    &&& delta(a, b, Kind::RegisterName) == 0 && delta(a, b, Kind::RegisterPid) == 0 && delta(a, b, Kind::NewProps) == 0
}
/// C10: only a cell that was enrolled in the name registry -- a LOCAL actor with a name (ActorCell::new); a remote-actor proxy merely
/// carries the name of its origin (ActorCell::new_remote never registers it) -- releases that name, and exactly on its exit transition
pub open spec fn enrolled(id: ActorId, name: Option<ActorName>) -> bool { name is Some && id is Local }
pub open spec fn releases_name_iff_enrolled(a: Seq<Effect>, b: Seq<Effect>, id: ActorId, name: Option<ActorName>, status: ActorStatus) -> bool {
    let p = prev_seen(a, b);
    let exits = status as u8 >= 5 && (p as u8) < 5;
    delta(a, b, Kind::UnregisterName) == (if exits && enrolled(id, name) { 1int } else { 0int })
}
pub open spec fn prev_seen(old_s: Seq<Effect>, new_s: Seq<Effect>) -> ActorStatus {
    if old_s.len() < new_s.len() { match new_s[old_s.len() as int] { Effect::StatusSet(_, p) => p, _ => ActorStatus::Unstarted } } else { ActorStatus::Unstarted }
}
} // verus!

#[verus_verify]
impl ActorProperties {
    /// contract proved in unit admission: exactly one fetch_max, returns the decoded previous value
    #[verus_verify(external_body)]
    #[verus_spec(r =>
        with Tracked(log): Tracked<&mut EffectLog>
        ensures final(log).s == old(log).s.push(Effect::StatusSet(status, r)),
    )]
    pub fn set_status(&self, status: ActorStatus) -> ActorStatus { unimplemented!() }

    #[verus_verify(external_body)]
    #[verus_spec(
        with Tracked(log): Tracked<&mut EffectLog>
        ensures final(log).s == old(log).s.push(Effect::NotifyStop),
    )]
    pub fn notify_stop_listener(&self) { unimplemented!() }

    #[verus_verify(external_body)]
    #[verus_spec(r =>
        with Tracked(log): Tracked<&mut EffectLog>
        ensures
            final(log).s == old(log).s.push(Effect::NewProps(r.0.id, name_view(name))),
            name_view(r.0.name) == name_view(name),
            r.0.id is Local,
    )]
    pub fn new<TActor: Actor>(name: Option<ActorName>) -> (ActorProperties, Opaque, Opaque, Opaque, Opaque) { unimplemented!() }
}

/// registry::register: contract proved in unit registry
#[verus_verify(external_body)]
#[verus_spec(r =>
    with Tracked(log): Tracked<&mut EffectLog>
    ensures
        final(log).s == old(log).s.push(Effect::RegisterName(name.nv(), r is Ok)),
        r matches Err(e) ==> (e matches ActorRegistryErr::AlreadyRegistered(n) && n@ == name.nv()),
)]
pub fn register<K: NameLike>(name: K, actor: ActorCell) -> Result<(), ActorRegistryErr> { unimplemented!() }

#[verus_verify(external_body)]
#[verus_spec(
    with Tracked(log): Tracked<&mut EffectLog>
    ensures final(log).s == old(log).s.push(Effect::UnregisterName(name.nv())),
)]
pub fn unregister<K: NameLike>(name: K) { unimplemented!() }

#[verus_verify(external_body)]
#[verus_spec(r =>
    with Tracked(log): Tracked<&mut EffectLog>
    ensures final(log).s == old(log).s.push(Effect::RegisterPid(id, r is Ok)),
)]
pub fn register_pid(id: ActorId, actor: ActorCell) -> Result<(), ActorRegistryErr> { unimplemented!() }

#[verus_verify(external_body)]
#[verus_spec(
    with Tracked(log): Tracked<&mut EffectLog>
    ensures final(log).s == old(log).s.push(Effect::UnregisterPid(id)),
)]
pub fn unregister_pid(id: ActorId) { unimplemented!() }

#[verus_verify(external_body)]
#[verus_spec(
    with Tracked(log): Tracked<&mut EffectLog>
    ensures final(log).s == old(log).s.push(Effect::DemonitorPid(id)),
)]
pub fn demonitor(id: ActorId) { unimplemented!() }

#[verus_verify(external_body)]
#[verus_spec(
    with Tracked(log): Tracked<&mut EffectLog>
    ensures final(log).s == old(log).s.push(Effect::PgDemonitorAll(id)),
)]
pub fn demonitor_all(id: ActorId) { unimplemented!() }

#[verus_verify(external_body)]
#[verus_spec(
    with Tracked(log): Tracked<&mut EffectLog>
    ensures final(log).s == old(log).s.push(Effect::PgLeaveAll(id)),
)]
pub fn leave_all(id: ActorId) { unimplemented!() }

verus! {
impl Clone for ActorCell {
    #[verifier::external_body]
    fn clone(&self) -> (r: Self) ensures r == *self { unimplemented!() }
}
}
