// ---- unit gate: the authentication gate of NodeSession::handle_node and the advertised-pid allow-list (C17) ----
#![feature(proc_macro_hygiene)]
#![allow(unused, non_snake_case, non_camel_case_types, dead_code, unreachable_code)]
use vstd::prelude::*;
use verus_builtin_macros::{verus_spec, verus_verify, proof, proof_decl};

verus! {
broadcast use effectlog::group_effectlog;
global size_of usize == 8;

#[verifier::external_body] pub struct Opaque { _p: u8 }
#[verifier::external_body] pub struct SessionRef { _p: u8 }
#[verifier::external_body] pub struct ControlMessage { _p: u8 }
#[verifier::external_body] pub struct ActorProcessingErr { _p: u8 }
#[verifier::external_body] pub struct ReplyPortStub { _p: u8 }
#[verifier::external_body] pub struct OneshotTx { _p: u8 }
#[verifier::external_body] pub struct OneshotRx { _p: u8 }
#[verifier::external_body] pub struct Duration { _p: u8 }
#[verifier::external_body] pub struct RemoteRef { _p: u8 }
/// the actor struct itself: handle_node does not read its fields
pub struct NodeSession { pub _p: u8 }

/// ractor::ActorCell stand-in: identity + whether its message type supports remoting
#[verifier::external_body] pub struct ActorCell { _p: u8 }
impl ActorCell {
    pub uninterp spec fn pid(&self) -> u64;
    pub uninterp spec fn remotable(&self) -> bool;
    #[verifier::external_body]
    pub fn supports_remoting(&self) -> (r: bool) ensures r == self.remotable() { unimplemented!() }
}
impl RemoteRef { pub uninterp spec fn rid(&self) -> u64; }

/// HashSet<u64> stand-in (A-std)
#[verifier::external_body] pub struct PidSet { _p: u8 }
impl View for PidSet { type V = Set<u64>; uninterp spec fn view(&self) -> Set<u64>; }
impl PidSet {
    #[verifier::external_body]
    pub fn contains(&self, k: &u64) -> (r: bool) ensures r == self@.contains(*k) { unimplemented!() }
    #[verifier::external_body]
    pub fn remove(&mut self, k: &u64) -> (r: bool) ensures final(self)@ == old(self)@.remove(*k) { unimplemented!() }
}
/// HashMap<u64, ActorRef<RemoteActorMessage>> stand-in
#[verifier::external_body] pub struct RemoteActors { _p: u8 }
impl RemoteActors {
    pub uninterp spec fn has(&self, k: u64) -> bool;
    #[verifier::external_body]
    pub fn get(&self, k: &u64) -> (r: Option<&RemoteRef>)
        ensures r is Some <==> self.has(*k), r matches Some(x) ==> x.rid() == *k,
    { unimplemented!() }
}
impl Duration {
    #[verifier::external_body]
    pub fn from_millis(ms: u64) -> Duration { unimplemented!() }
}
#[verifier::external_body]
pub fn vx_oneshot() -> (OneshotTx, OneshotRx) { unimplemented!() }
/// reply-port conversions used when building a SerializedMessage::Call
#[verifier::external_body]
pub fn reply_port_from_tx(tx: OneshotTx) -> ReplyPortStub { unimplemented!() }
impl From<OneshotTx> for ReplyPortStub {
    #[verifier::external_body]
    fn from(t: OneshotTx) -> ReplyPortStub { unimplemented!() }
}
impl From<(OneshotTx, Duration)> for ReplyPortStub {
    #[verifier::external_body]
    fn from(t: (OneshotTx, Duration)) -> ReplyPortStub { unimplemented!() }
}
pub assume_specification<T, F: FnOnce(T) -> bool> [Option::<T>::is_some_and] (o: Option<T>, f: F) -> (r: bool)
    requires o is Some ==> f.requires((o.unwrap(),)),
    ensures o is None ==> !r, o is Some ==> f.ensures((o.unwrap(),), r);
} // verus!

pub mod vocab {
    use super::*;
    verus! {
    pub enum Effect {
        /// a payload from the peer was delivered to a LOCAL actor (its pid): which message
        DeliverLocal(u64, SerializedMessage),
        /// a call reply from the peer was delivered to a remote-actor proxy (its id): which message
        DeliverProxy(u64, SerializedMessage),
        /// a reply-forwarding task was spawned
        Spawn,
        /// pid registry lookup
        Lookup(u64),
        /// R19: everything handle_control does after its authentication gate (remote-actor creation, pg join/leave,
        /// session listing, tcp sends, node-server casts ...) is represented by this one opaque effect
        Rest,
    }
    pub enum Kind { DeliverLocal, DeliverProxy, Spawn, Lookup, Rest }
    pub open spec fn kind_of(e: Effect) -> Kind {
        match e { Effect::DeliverLocal(_, _) => Kind::DeliverLocal, Effect::DeliverProxy(_, _) => Kind::DeliverProxy, Effect::Spawn => Kind::Spawn, Effect::Lookup(_) => Kind::Lookup, Effect::Rest => Kind::Rest }
    }
    }
}
pub use vocab::*;
// @include ../_common/effectlog.rs

verus! {
/// C20 (peer side): what is delivered is what the wire message said -- same target, variant, arguments, metadata, tag
pub open spec fn delivery_matches(msg: Option<Msg>, e: Effect) -> bool {
    match e {
        Effect::DeliverLocal(p, m) => match (msg, m) {
            (Some(Msg::Cast(c)), SerializedMessage::Cast { variant, args, metadata }) => p == c.to && variant == c.variant && args == c.what && metadata == c.metadata,
            (Some(Msg::Call(c)), SerializedMessage::Call { variant, args, reply, metadata }) => p == c.to && variant == c.variant && args == c.what && metadata == c.metadata,
            _ => false,
        },
        Effect::DeliverProxy(rid, m) => match (msg, m) {
            (Some(Msg::Reply(r)), SerializedMessage::CallReply(tag, what)) => tag == r.tag && what == r.what,
            _ => false,
        },
        _ => true,
    }
}
pub open spec fn deliveries_match(a: Seq<Effect>, b: Seq<Effect>, msg: Option<Msg>) -> bool {
    forall|i: int| a.len() <= i < b.len() ==> delivery_matches(msg, #[trigger] b[i])
}
/// the handshake message as far as the session's guards can see it: a payload or none (the state machines of unit auth look inside)
#[verifier::external_body] pub struct AuthPayload { _p: u8 }
pub struct AuthenticationMessage { pub msg: Option<AuthPayload> }
pub open spec fn authed(a: AuthenticationState) -> bool {
    match a {
        AuthenticationState::AsClient(c) => c is Ok,
        AuthenticationState::AsServer(s) => s is Ok,
    }
}
/// every local delivery added after `a` goes to a pid that was advertised to this peer
pub open spec fn deliveries_only_to(a: Seq<Effect>, b: Seq<Effect>, allowed: Set<u64>) -> bool {
    forall|i: int| a.len() <= i < b.len() ==> ((#[trigger] b[i]) matches Effect::DeliverLocal(p, _) ==> allowed.contains(p))
}
} // verus!

#[verus_verify]
impl ActorCell {
    #[verus_verify(external_body)]
    #[verus_spec(r =>
        with Tracked(log): Tracked<&mut EffectLog>
        ensures final(log).s == old(log).s.push(Effect::DeliverLocal(self.pid(), m)),
    )]
    pub fn send_serialized(&self, m: SerializedMessage) -> Result<(), Opaque> { unimplemented!() }
}
#[verus_verify]
impl RemoteRef {
    #[verus_verify(external_body)]
    #[verus_spec(r =>
        with Tracked(log): Tracked<&mut EffectLog>
        ensures final(log).s == old(log).s.push(Effect::DeliverProxy(self.rid(), m)),
    )]
    pub fn send_serialized(&self, m: SerializedMessage) -> Result<(), Opaque> { unimplemented!() }
}
/// ractor::registry::where_is_pid (contract: unit pidregistry): the actor registered under that local pid, if any
#[verus_verify(external_body)]
#[verus_spec(r =>
    with Tracked(log): Tracked<&mut EffectLog>
    ensures
        final(log).s == old(log).s.push(Effect::Lookup(match id { ActorId::Local(p) => p, ActorId::Remote { node_id, pid } => pid })),
        r matches Some(a) ==> (id matches ActorId::Local(p) && a.pid() == p),
)]
pub fn where_is_pid(id: ActorId) -> Option<ActorCell> { unimplemented!() }

/// R8: the spawned reply-forwarding future is erased; the call is kept as an effect
#[verus_verify(external_body)]
#[verus_spec(
    with Tracked(log): Tracked<&mut EffectLog>
    ensures final(log).s == old(log).s.push(Effect::Spawn),
)]
pub fn vx_spawn(f: ()) { unimplemented!() }

/// R19: the erased remainder of a gated handler: may do anything to the session state and return anything
#[verus_verify(external_body)]
#[verus_spec(r =>
    with Tracked(log): Tracked<&mut EffectLog>
    ensures final(log).s == old(log).s.push(Effect::Rest),
)]
pub fn vx_rest_tail<T>() -> T { unimplemented!() }
