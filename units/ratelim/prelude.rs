// ---- unit ratelim: prelude (ghost vocabulary, dependency stubs with ASSUMED specs) ----
#![feature(proc_macro_hygiene)]
#![allow(unused, non_snake_case, non_camel_case_types, dead_code)]
use vstd::prelude::*;
use verus_builtin_macros::{verus_spec, verus_verify};
use std::time::Duration;

verus! {

global size_of usize == 8;

// ---------------------------------------------------------------- A-std: Duration
pub uninterp spec fn dur_nanos(d: Duration) -> nat;

pub open spec fn DUR_MAX_NANOS() -> nat { 18446744073709551616 * 1000000000 }

pub assume_specification [Duration::as_nanos] (d: &Duration) -> (r: u128)
    ensures r as nat == dur_nanos(*d), (r as nat) < DUR_MAX_NANOS();

pub assume_specification [Duration::new] (secs: u64, nanos: u32) -> (r: Duration)
    requires secs as nat + (nanos as nat) / 1000000000 <= u64::MAX as nat,   // std panics otherwise
    ensures dur_nanos(r) == secs as nat * 1000000000 + nanos as nat;

pub assume_specification [Duration::saturating_sub] (a: Duration, b: Duration) -> (r: Duration)
    ensures dur_nanos(r) == (if dur_nanos(a) >= dur_nanos(b) { dur_nanos(a) - dur_nanos(b) } else { 0 }) as nat;

pub assume_specification<T, E> [Result::<T, E>::unwrap_or] (r: Result<T, E>, d: T) -> (o: T)
    ensures o == (match r { Ok(v) => v, Err(_) => d });

// ---------------------------------------------------------------- A-clock: Instant is an abstract point on a nat timeline (ns)
#[verifier::external_body]
pub struct Instant { _p: u8 }

impl Copy for Instant {}
impl Clone for Instant {
    #[verifier::external_body]
    fn clone(&self) -> (r: Self) ensures r == *self { unimplemented!() }
}

impl View for Instant {
    type V = nat;
    uninterp spec fn view(&self) -> nat;
}

impl Instant {
    #[verifier::external_body]
    pub fn now() -> (r: Instant) { unimplemented!() }

    #[verifier::external_body]
    pub fn checked_add(&self, d: Duration) -> (r: Option<Instant>)
        ensures r matches Some(x) ==> x@ == self@ + dur_nanos(d),
    { unimplemented!() }

    #[verifier::external_body]
    pub fn saturating_duration_since(&self, earlier: Instant) -> (r: Duration)
        ensures dur_nanos(r) == (if self@ >= earlier@ { self@ - earlier@ } else { 0 }) as nat,
    { unimplemented!() }
}

impl PartialEq for Instant {
    #[verifier::external_body]
    fn eq(&self, other: &Self) -> (r: bool) ensures r == (self@ == other@) { unimplemented!() }
}
impl PartialOrd for Instant {
    #[verifier::external_body]
    fn partial_cmp(&self, other: &Self) -> (r: Option<core::cmp::Ordering>) { unimplemented!() }
    #[verifier::external_body]
    fn lt(&self, other: &Self) -> (r: bool) ensures r == (self@ < other@) { unimplemented!() }
}

// ---------------------------------------------------------------- spec vocabulary for the leaky bucket
pub open spec fn sat_add_usize(a: nat, b: nat) -> nat { if a + b > usize::MAX as nat { usize::MAX as nat } else { a + b } }
pub open spec fn sat_mul_usize(a: nat, b: nat) -> nat { if a * b > usize::MAX as nat { usize::MAX as nat } else { a * b } }
pub open spec fn min_nat(a: nat, b: nat) -> nat { if a <= b { a } else { b } }
pub open spec fn sat_usize(a: nat) -> nat { if a > usize::MAX as nat { usize::MAX as nat } else { a } }

/// number of whole period boundaries d, d+I, d+2I, ... that are <= now   (now >= d, I > 0)
pub open spec fn lb_periods(now: nat, d: nat, i: nat) -> nat
    recommends i > 0, now >= d
{ ((now - d) as nat) / i + 1 }

/// the refresh branch that pays out
pub open spec fn pays(deadline: Option<Instant>, now: Instant) -> bool {
    deadline matches Some(d) && now@ >= d@
}

/// everything nonlinear the body of `refresh` relies on, stated over spec values only
pub proof fn lemma_refresh(now: nat, d: nat, i: nat, refill: nat)
    requires now >= d, i > 0, i < DUR_MAX_NANOS()
    ensures
        ({ let s = (now - d) as nat;
           &&& s % i < i
           &&& (s % i) / 1000000000 < 18446744073709551616
           &&& ((s % i) / 1000000000) * 1000000000 + (s % i) % 1000000000 == s % i
           &&& (s % i) % 1000000000 < 1000000000
           &&& d + lb_periods(now, d, i) * i == now + i - s % i
           &&& d + (lb_periods(now, d, i) - 1) * i <= now
           &&& now < d + lb_periods(now, d, i) * i
           &&& lb_periods(now, d, i) == s / i + 1
        })
{
    let s = (now - d) as nat;
    vstd::arithmetic::div_mod::lemma_fundamental_div_mod(s as int, i as int);
    vstd::arithmetic::div_mod::lemma_mod_bound(s as int, i as int);
    vstd::arithmetic::div_mod::lemma_fundamental_div_mod((s % i) as int, 1000000000);
    vstd::arithmetic::div_mod::lemma_div_pos_is_pos(s as int, i as int);
    let q = s / i;
    assert(s == i * q + s % i);
    assert((q + 1) * i == i * q + i) by (nonlinear_arith);
    assert(((q + 1) - 1) * i == i * q) by (nonlinear_arith);
    assert((s % i) / 1000000000 < 18446744073709551616) by (nonlinear_arith)
        requires s % i < i, i < 18446744073709551616 * 1000000000;
}

pub proof fn lemma_sat_mul_le(k: nat, refill: nat)
    ensures min_nat(sat_mul_usize(sat_usize(k), refill), MAX_LB_BALANCE as nat) <= k * refill
{
    if k > usize::MAX as nat {
        assert(sat_usize(k) * refill <= k * refill) by (nonlinear_arith) requires sat_usize(k) <= k;
    }
}

} // verus!
