// ---- unit rpc: the call kernel -- one reply channel per call, the result is what arrived on THAT channel ----
#![feature(proc_macro_hygiene)]
#![allow(unused, non_snake_case, non_camel_case_types, dead_code, unreachable_code)]
use vstd::prelude::*;
use verus_builtin_macros::{verus_spec, verus_verify, proof, proof_decl};

pub mod ports {
    use super::*;
    verus! {
    /// `RpcReplyPort<T>`: can only be made from a channel's sender (the two `From` impls of ractor/src/port.rs)
    #[verifier::external_body] #[verifier::reject_recursive_types(T)] pub struct RpcReplyPort<T> { _p: core::marker::PhantomData<T> }
    impl<T> RpcReplyPort<T> { pub uninterp spec fn chan(&self) -> int; }
    /// the port made from channel `c`'s sender (with or without a deadline)
    pub uninterp spec fn port_mk<T>(c: int) -> RpcReplyPort<T>;
    #[verifier::external_body]
    pub broadcast proof fn axiom_port_chan<T>(c: int)
        ensures (#[trigger] port_mk::<T>(c)).chan() == c,
    {}
    }
}
pub use ports::*;
verus! {
broadcast use {effectlog::group_effectlog, ports::axiom_port_chan};
pub trait Message: Sized {}
#[verifier::external_body] #[derive(Clone, Copy)] pub struct Duration { _p: u8 }
impl Duration {
    #[verifier::external_body]
    pub fn is_zero(&self) -> bool { unimplemented!() }
}
#[verifier::external_body] pub struct RecvErr { _p: u8 }
#[verifier::external_body] pub struct Elapsed { _p: u8 }
#[verifier::reject_recursive_types(T)]
pub enum MessagingErr<T> { SendErr(T), ChannelClosed, InvalidActorType }
/// oneshot sender / receiver: `chan` = identity of the channel they belong to
#[verifier::external_body] #[verifier::reject_recursive_types(T)] pub struct Tx<T> { _p: core::marker::PhantomData<T> }
#[verifier::external_body] #[verifier::reject_recursive_types(T)] pub struct Rx<T> { _p: core::marker::PhantomData<T> }
impl<T> Tx<T> { pub uninterp spec fn chan(&self) -> int; }
impl<T> Rx<T> { pub uninterp spec fn chan(&self) -> int; }
/// the reply channel whose port a message carries (the builder embeds the port it is given: precondition of multi_call)
pub uninterp spec fn port_in<M>(m: M) -> int;
/// `ActorRef<M>`: `@` = the actor's identity
#[verifier::external_body] #[verifier::reject_recursive_types(M)] pub struct ActorRef<M> { _p: core::marker::PhantomData<M> }
impl<M> View for ActorRef<M> { type V = int; uninterp spec fn view(&self) -> int; }
#[verifier::external_body] pub struct JoinErr { _p: u8 }
/// tokio JoinSet after R7 (each spawned async block is evaluated where it is spawned): the values in spawn order, how many have
/// not been handed out by join_next yet, and which have
#[verifier::external_body] #[verifier::reject_recursive_types(T)] pub struct JoinSet<T> { _p: core::marker::PhantomData<T> }
impl<T> JoinSet<T> {
    pub uninterp spec fn spawned(&self) -> Seq<T>;
    pub uninterp spec fn taken(&self) -> Set<int>;
    pub uninterp spec fn remaining(&self) -> nat;
    /// which task join_next hands out next (any not yet taken: completion order is not specified)
    pub uninterp spec fn next_pick(&self) -> int;
}
/// A-chan: the value (if any) that was sent into channel `c` -- a oneshot channel carries at most one
pub uninterp spec fn sent_on<T>(c: int, v: T) -> bool;

impl<T> core::convert::From<Tx<T>> for RpcReplyPort<T> {
    #[verifier::external_body]
    fn from(t: Tx<T>) -> (r: Self) { unimplemented!() }
}
impl<T> vstd::std_specs::convert::FromSpecImpl<Tx<T>> for RpcReplyPort<T> {
    open spec fn obeys_from_spec() -> bool { true }
    open spec fn from_spec(v: Tx<T>) -> RpcReplyPort<T> { port_mk::<T>(v.chan()) }
}
impl<T> core::convert::From<(Tx<T>, Duration)> for RpcReplyPort<T> {
    #[verifier::external_body]
    fn from(t: (Tx<T>, Duration)) -> (r: Self) { unimplemented!() }
}
impl<T> vstd::std_specs::convert::FromSpecImpl<(Tx<T>, Duration)> for RpcReplyPort<T> {
    open spec fn obeys_from_spec() -> bool { true }
    open spec fn from_spec(v: (Tx<T>, Duration)) -> RpcReplyPort<T> { port_mk::<T>(v.0.chan()) }
}
/// the channel created for the i-th actor of a multi_call (read back from the log)
pub open spec fn chan_at(a: Seq<Effect>, b: Seq<Effect>, i: int) -> int { match b[a.len() + 2 * i] { Effect::Oneshot(c) => c, _ => arbitrary() } }
/// the first `n` actors each got a fresh channel and a message carrying its port, in request order
pub open spec fn fanned_out<M>(a: Seq<Effect>, b: Seq<Effect>, actors: Seq<ActorRef<M>>, n: int) -> bool {
    forall|i: int| 0 <= i < n ==> #[trigger] b[a.len() + 2 * i] is Oneshot && b[a.len() + 2 * i + 1] == Effect::CastTo(actors[i]@, chan_at(a, b, i))
}
/// the k-th receiver belongs to the k-th created channel
pub open spec fn rx_chans<T>(rxs: Seq<Rx<T>>, a: Seq<Effect>, b: Seq<Effect>, n: int) -> bool { forall|k: int| 0 <= k < n ==> (#[trigger] rxs[k]).chan() == chan_at(a, b, k) }
/// the first `m` spawned values carry their own index and a result consistent with their receiver's channel
pub open spec fn spawned_ok<T>(sp: Seq<(usize, CallResult<T>)>, rxs: Seq<Rx<T>>, m: int) -> bool { forall|k: int| 0 <= k < m ==> (#[trigger] sp[k]).0 == k && result_ok(sp[k].1, rxs[k].chan()) }
pub open spec fn indexed<T>(sp: Seq<(usize, CallResult<T>)>, n: int) -> bool { forall|k: int| 0 <= k < n ==> (#[trigger] sp[k]).0 == k }
pub open spec fn landed<T>(taken: Set<int>, res: Seq<CallResult<T>>, sp: Seq<(usize, CallResult<T>)>, n: int) -> bool { forall|k: int| #[trigger] taken.contains(k) ==> 0 <= k < n && res[k] == sp[k].1 }
/// a call result that claims success carries what arrived on channel `c`
pub open spec fn result_ok<T>(r: CallResult<T>, c: int) -> bool { match r { CallResult::Success(v) => sent_on(c, v), _ => true } }
} // verus!

pub mod vocab {
    use super::*;
    verus! {
    pub enum Effect {
        /// a oneshot channel was created (its identity)
        Oneshot(int),
        /// the caller started waiting on the receiver of that channel (with a deadline?)
        Wait(int, bool),
        /// a message carrying the reply port of channel `c` was cast to actor `a`
        CastTo(int, int),
        /// a task was handed to the executor (its text is erased, R8)
        Spawn,
    }
    pub enum Kind { Oneshot, Wait, CastTo, Spawn }
    pub open spec fn kind_of(e: Effect) -> Kind { match e { Effect::Oneshot(_) => Kind::Oneshot, Effect::Wait(_, _) => Kind::Wait, Effect::CastTo(_, _) => Kind::CastTo, Effect::Spawn => Kind::Spawn } }
    }
}
pub use vocab::*;
// @include ../_common/effectlog.rs

#[verus_verify(external_body)]
#[verus_spec(r =>
    with Tracked(log): Tracked<&mut EffectLog>
    ensures r.0.chan() == r.1.chan(), final(log).s == old(log).s.push(Effect::Oneshot(r.0.chan())))]
pub fn vx_oneshot<T>() -> (Tx<T>, Rx<T>) { unimplemented!() }

/// R7 (await erased): `timeout(d, rx).await` -- the value that arrived on rx's channel, the channel's sender being dropped, or the deadline
#[verus_verify(external_body)]
#[verus_spec(r =>
    with Tracked(log): Tracked<&mut EffectLog>
    ensures final(log).s == old(log).s.push(Effect::Wait(rx.chan(), true)), r matches Ok(Ok(v)) ==> sent_on(rx.chan(), v))]
pub fn vx_timeout<T>(d: Duration, rx: Rx<T>) -> Result<Result<T, RecvErr>, Elapsed> { unimplemented!() }

/// R7 ("call" mode): `rx.await`
#[verus_verify(external_body)]
#[verus_spec(r =>
    with Tracked(log): Tracked<&mut EffectLog>
    ensures final(log).s == old(log).s.push(Effect::Wait(rx.chan(), false)), r matches Ok(v) ==> sent_on(rx.chan(), v))]
pub fn vx_await<T>(rx: Rx<T>) -> Result<T, RecvErr> { unimplemented!() }

#[verus_verify]
impl<M> ActorRef<M> {
    #[verus_verify(external_body)]
    #[verus_spec(r =>
        with Tracked(log): Tracked<&mut EffectLog>
        ensures final(log).s == old(log).s.push(Effect::CastTo(self@, port_in(msg))))]
    pub fn cast(&self, msg: M) -> Result<(), MessagingErr<M>> { unimplemented!() }
}
verus! {
/// `drop(x)` (pathmap): the value is given up where it stands; dropping an `RpcReplyPort` sends nothing and records nothing
pub fn vx_drop<T>(t: T) {}
/// an untyped actor reference: which actor
#[verifier::external_body] pub struct ActorCell { _p: u8 }
impl View for ActorCell { type V = int; uninterp spec fn view(&self) -> int; }
#[verifier::external_body] #[verifier::reject_recursive_types(T)] pub struct JoinHandle<T> { _p: core::marker::PhantomData<T> }
}
verus! {
impl ActorCell {
    #[verifier::external_body] pub fn clone(&self) -> (r: ActorCell) ensures r@ == self@ { unimplemented!() }
    /// reading the published status / the message type has no effect
    #[verifier::external_body] pub fn get_status(&self) -> ActorStatus { unimplemented!() }
    #[verifier::external_body] pub fn is_message_type_of<M>(&self) -> Option<bool> { unimplemented!() }
}
}
// @include ../_common/status_order.rs
#[verus_verify]
impl ActorCell {
    /// `actor.send_message::<M>(m)`: the message is offered to the actor's mailbox now (logged whether or not it is accepted)
    #[verus_verify(external_body)]
    #[verus_spec(r =>
        with Tracked(log): Tracked<&mut EffectLog>
        ensures final(log).s == old(log).s.push(Effect::CastTo(self@, port_in(msg))))]
    pub fn send_message<M>(&self, msg: M) -> Result<(), MessagingErr<M>> { unimplemented!() }
}
/// R8: `crate::concurrency::spawn(async move { .. })` with the task's text erased
#[verus_verify(external_body)]
#[verus_spec(r =>
    with Tracked(log): Tracked<&mut EffectLog>
    ensures final(log).s == old(log).s.push(Effect::Spawn))]
pub fn vx_spawn<T>(erased: ()) -> JoinHandle<T> { unimplemented!() }
#[verus_verify]
impl<T> JoinSet<T> {
    #[verus_verify(external_body)]
    #[verus_spec(r => ensures r.spawned() == Seq::<T>::empty(), r.taken() == Set::<int>::empty(), r.remaining() == 0)]
    pub fn new() -> JoinSet<T> { unimplemented!() }
    /// R7: `spawn(async move { E })` -- E's value (the block is projected to its value)
    #[verus_verify(external_body)]
    #[verus_spec(ensures final(self).spawned() == old(self).spawned().push(v), final(self).taken() == old(self).taken(), final(self).remaining() == old(self).remaining() + 1)]
    pub fn spawn(&mut self, v: T) { unimplemented!() }
    #[verus_verify(external_body)]
    #[verus_spec(r => ensures r == self.remaining())]
    pub fn len(&self) -> usize { unimplemented!() }
    /// R7 (await erased): the next completed task, in any order; `None` when every task has been handed out
    #[verus_verify(external_body)]
    #[verus_spec(r =>
        ensures final(self).spawned() == old(self).spawned(),
            (r is None) == (old(self).remaining() == 0),
            r is None ==> final(self).taken() == old(self).taken() && final(self).remaining() == 0
                && (forall|k: int| 0 <= k < old(self).spawned().len() ==> #[trigger] old(self).taken().contains(k)),
            r is Some ==> ({ let k = old(self).next_pick();
                0 <= k < old(self).spawned().len() && !old(self).taken().contains(k) && final(self).taken() == old(self).taken().insert(k)
                && final(self).remaining() == old(self).remaining() - 1
                && (r matches Some(Ok(x)) ==> x == old(self).spawned()[k]) }))]
    pub fn join_next(&mut self) -> Option<Result<T, JoinErr>> { unimplemented!() }
}
verus! {
/// `v.into_iter().enumerate()` (R22) as the vector of (index, element) pairs
#[verifier::external_body]
pub fn vx_enumerate<T>(v: Vec<T>) -> (r: Vec<(usize, T)>)
    ensures r@.len() == v@.len(), forall|i: int| 0 <= i < v@.len() ==> (#[trigger] r@[i]).0 == i && r@[i].1 == v@[i],
{ unimplemented!() }
/// `v.resize_with(n, f)` (R22) for growing an EMPTY vector: n values produced by f
#[verifier::external_body]
pub fn vx_resize_with<T, F: FnMut() -> T>(v: &mut Vec<T>, n: usize, f: F)
    requires old(v)@.len() == 0, f.requires(()),
    ensures final(v)@.len() == n,
{ unimplemented!() }
}
