// ---- unit electfn: elect_sessions against its specification function (C18), unbounded ----
#![feature(proc_macro_hygiene)]
#![allow(unused, non_snake_case, non_camel_case_types, dead_code, unreachable_code)]
use vstd::prelude::*;
use verus_builtin_macros::{verus_spec, verus_verify, proof, proof_decl};
use core::cmp::Ordering;

verus! {
global size_of usize == 8;
pub type NodeId = u64;

} // verus!
// @include ../_common/iter_stubs.rs
// @include ../_common/elect_spec.rs
// @include ../_common/elect_lemmas.rs
