// ---- unit admission: prelude (ghost vocabulary, protocol lemmas, dependency stubs with ASSUMED specs) ----
#![feature(proc_macro_hygiene)]
#![allow(unused, non_snake_case, non_camel_case_types, dead_code, unreachable_code)]
use vstd::prelude::*;
use verus_builtin_macros::{verus_spec, verus_verify, proof, proof_decl};
use vstd::std_specs::cmp::*;

verus! {

global size_of usize == 8;

} // verus!
pub mod bitlemmas {
    use super::*;
    verus! {
    pub broadcast proof fn lemma_one_shl(k: u32)
        requires k < 64,
        ensures #[trigger] (1usize << k) >= 1,
    { assert(k < 64 ==> (1usize << k) >= 1) by (bit_vector); }
    }
}
verus! {
broadcast use {bitlemmas::lemma_one_shl, effectlog::group_effectlog};

// ------------------------------------------------------------------ opaque stand-ins (R9) for fields no function under contract touches
#[verifier::external_body] pub struct Opaque { _p: u8 }
#[verifier::external_body] pub struct AnyBox { _p: u8 }
#[verifier::external_body] pub struct SpanStub { _p: u8 }
#[verifier::external_body] #[derive(Debug)] pub struct BoxedDowncastErr { _p: u8 }
#[verifier::external_body] pub struct SerializedMessage { _p: u8 }
pub type ActorName = String;

/// std::sync::atomic::Ordering stand-in: the contracts do not depend on the ordering argument (A-atomic)
pub enum Ordering { Relaxed, Release, Acquire, AcqRel, SeqCst }

// ------------------------------------------------------------------ std::any::TypeId stand-in
#[verifier::external_body] pub struct TypeIdStub { _p: u8 }
/// the kill signal / the stop message: opaque here
#[verifier::external_body] pub struct Signal { _p: u8 }
#[verifier::external_body] pub struct StopMessage { _p: u8 }
impl View for TypeIdStub { type V = int; uninterp spec fn view(&self) -> int; }
pub uninterp spec fn spec_type_id_of<T>() -> int;
#[verifier::external_body]
pub fn type_id_of<T>() -> (r: TypeIdStub) ensures r@ == spec_type_id_of::<T>() { unimplemented!() }
impl PartialEq for TypeIdStub {
    #[verifier::external_body]
    fn eq(&self, other: &Self) -> (r: bool) ensures r == (self@ == other@) { unimplemented!() }
}
impl PartialEqSpecImpl for TypeIdStub {
    open spec fn obeys_eq_spec() -> bool { true }
    open spec fn eq_spec(&self, b: &TypeIdStub) -> bool { self@ == b@ }
}

// ------------------------------------------------------------------ A-std: derive(PartialEq, PartialOrd) on the fieldless repr(u8) enum ActorStatus compares discriminants
pub open spec fn status_cmp(a: ActorStatus, b: ActorStatus) -> Option<core::cmp::Ordering> {
    if (a as u8) < (b as u8) { Some(core::cmp::Ordering::Less) }
    else if (a as u8) == (b as u8) { Some(core::cmp::Ordering::Equal) }
    else { Some(core::cmp::Ordering::Greater) }
}
pub assume_specification [<ActorStatus as PartialEq>::eq] (a: &ActorStatus, b: &ActorStatus) -> (r: bool)
    ensures r == (*a == *b);
pub assume_specification [<ActorStatus as PartialOrd>::partial_cmp] (a: &ActorStatus, b: &ActorStatus) -> (r: Option<core::cmp::Ordering>)
    ensures r == status_cmp(*a, *b);
impl PartialOrdSpecImpl for ActorStatus {
    open spec fn obeys_partial_cmp_spec() -> bool { true }
    open spec fn partial_cmp_spec(&self, b: &ActorStatus) -> Option<core::cmp::Ordering> { status_cmp(*self, *b) }
}
impl PartialEqSpecImpl for ActorStatus {
    open spec fn obeys_eq_spec() -> bool { true }
    open spec fn eq_spec(&self, b: &ActorStatus) -> bool { *self == *b }
}

/// the property-level decoding of the status byte
pub open spec fn status_of(v: u8) -> ActorStatus {
    if v == 0 { ActorStatus::Unstarted } else if v == 1 { ActorStatus::Starting } else if v == 2 { ActorStatus::Running }
    else if v == 3 { ActorStatus::Upgrading } else if v == 4 { ActorStatus::Draining } else if v == 5 { ActorStatus::Stopping }
    else { ActorStatus::Stopped }
}

/// the real constants are the ones the vocabulary speaks about (fails if the bit layout changes)
// @props C07
pub proof fn lemma_consts()
    ensures
        MESSAGE_ADMISSION_CLOSED == W_CLOSED(),
        DRAIN_MARKER_SENT == W_SENT(),
        MESSAGE_ADMISSION_COUNT_MASK == W_MASK(),
{
    assert(usize::BITS == 64);
    assert(1usize << 63u32 == 0x8000_0000_0000_0000usize) by (bit_vector);
    assert(1usize << 62u32 == 0x4000_0000_0000_0000usize) by (bit_vector);
    assert(MESSAGE_ADMISSION_CLOSED == W_CLOSED());
    assert(DRAIN_MARKER_SENT == W_SENT());
}

pub proof fn lemma_bits_admit(w: usize)
    requires !closed(w), count(w) < W_MASK(),
    ensures w < usize::MAX, !closed((w + 1) as usize), sent((w + 1) as usize) == sent(w), count((w + 1) as usize) == count(w) + 1,
{
    assert(w & 0x8000_0000_0000_0000usize == 0 && (w & 0x3fff_ffff_ffff_ffffusize) < 0x3fff_ffff_ffff_ffffusize ==>
        w < 0xffff_ffff_ffff_ffffusize
        && add(w, 1) & 0x8000_0000_0000_0000usize == 0
        && (add(w, 1) & 0x4000_0000_0000_0000usize) == (w & 0x4000_0000_0000_0000usize)
        && (add(w, 1) & 0x3fff_ffff_ffff_ffffusize) == add(w & 0x3fff_ffff_ffff_ffffusize, 1)) by (bit_vector);
}

pub proof fn lemma_bits_release(w: usize)
    requires count(w) >= 1,
    ensures w >= 1, closed((w - 1) as usize) == closed(w), sent((w - 1) as usize) == sent(w), count((w - 1) as usize) == count(w) - 1,
{
    assert((w & 0x3fff_ffff_ffff_ffffusize) >= 1 ==>
        w >= 1
        && (sub(w, 1) & 0x8000_0000_0000_0000usize) == (w & 0x8000_0000_0000_0000usize)
        && (sub(w, 1) & 0x4000_0000_0000_0000usize) == (w & 0x4000_0000_0000_0000usize)
        && (sub(w, 1) & 0x3fff_ffff_ffff_ffffusize) == sub(w & 0x3fff_ffff_ffff_ffffusize, 1)) by (bit_vector);
}

pub proof fn lemma_bits_or(w: usize)
    ensures
        closed(w | W_CLOSED()), sent(w | W_CLOSED()) == sent(w), count(w | W_CLOSED()) == count(w),
        sent(w | W_SENT()), closed(w | W_SENT()) == closed(w), count(w | W_SENT()) == count(w),
{
    assert((w | 0x8000_0000_0000_0000usize) & 0x8000_0000_0000_0000usize != 0
        && ((w | 0x8000_0000_0000_0000usize) & 0x4000_0000_0000_0000usize) == (w & 0x4000_0000_0000_0000usize)
        && ((w | 0x8000_0000_0000_0000usize) & 0x3fff_ffff_ffff_ffffusize) == (w & 0x3fff_ffff_ffff_ffffusize)
        && (w | 0x4000_0000_0000_0000usize) & 0x4000_0000_0000_0000usize != 0
        && ((w | 0x4000_0000_0000_0000usize) & 0x8000_0000_0000_0000usize) == (w & 0x8000_0000_0000_0000usize)
        && ((w | 0x4000_0000_0000_0000usize) & 0x3fff_ffff_ffff_ffffusize) == (w & 0x3fff_ffff_ffff_ffffusize)) by (bit_vector);
}

} // verus!
pub mod vocab {
    use super::*;
    verus! {
// ------------------------------------------------------------------ the admission word: spec vocabulary
pub open spec fn W_CLOSED() -> usize { 0x8000_0000_0000_0000usize }
pub open spec fn W_SENT() -> usize { 0x4000_0000_0000_0000usize }
pub open spec fn W_MASK() -> usize { 0x3fff_ffff_ffff_ffffusize }
pub open spec fn closed(w: usize) -> bool { w & W_CLOSED() != 0 }
pub open spec fn sent(w: usize) -> bool { w & W_SENT() != 0 }
pub open spec fn count(w: usize) -> usize { w & W_MASK() }

/// the four atomic steps the protocol allows on the word
pub open spec fn step_admit(cur: usize, new: usize) -> bool { !closed(cur) && count(cur) < W_MASK() && new == cur + 1 }
pub open spec fn step_mark(cur: usize, new: usize) -> bool { closed(cur) && count(cur) == 0 && !sent(cur) && new == cur | W_SENT() }
pub open spec fn step_release(cur: usize, new: usize) -> bool { count(cur) >= 1 && new == cur - 1 }
pub open spec fn step_close(cur: usize, new: usize) -> bool { new == cur | W_CLOSED() }

// ------------------------------------------------------------------ ghost effect log (R6)
pub enum Effect {
    /// successful compare-exchange on the admission word: old -> new
    WordCas(usize, usize),
    /// fetch_sub(1) on the admission word; argument = previous value
    WordSub(usize),
    /// fetch_or(mask); (previous value, mask)
    WordOr(usize, usize),
    /// value observed on the admission word by a load or by a failed compare-exchange
    WordLoad(usize),
    /// item accepted by the mailbox channel
    Enqueue(MuxedMessage),
    StatusLoad(u8),
    /// fetch_max(arg): (previous, arg)
    StatusMax(u8, u8),
    /// fetch_update by drain: (previous, Some(new) | None)
    StatusUpdate(u8, Option<u8>),
    NotifiedCreated,
    Await,
    NotifyWaiters,
    NotifyOne,
}

/// classification of effects for counting (position-independent contracts)
pub enum Kind { Admit, Mark, OtherCas, Release, Close, OtherOr, Load, EnqMsg, EnqDrain, StatusLoad, StatusMax, StatusUpdate, NotifiedCreated, Await, NotifyWaiters, NotifyOne }
pub open spec fn kind_of(e: Effect) -> Kind {
    match e {
        Effect::WordCas(c, n) => if step_admit(c, n) { Kind::Admit } else if step_mark(c, n) { Kind::Mark } else { Kind::OtherCas },
        Effect::WordSub(_) => Kind::Release,
        Effect::WordOr(_, m) => if m == W_CLOSED() { Kind::Close } else { Kind::OtherOr },
        Effect::WordLoad(_) => Kind::Load,
        Effect::Enqueue(MuxedMessage::Message(_)) => Kind::EnqMsg,
        Effect::Enqueue(MuxedMessage::Drain) => Kind::EnqDrain,
        Effect::StatusLoad(_) => Kind::StatusLoad,
        Effect::StatusMax(_, _) => Kind::StatusMax,
        Effect::StatusUpdate(_, _) => Kind::StatusUpdate,
        Effect::NotifiedCreated => Kind::NotifiedCreated,
        Effect::Await => Kind::Await,
        Effect::NotifyWaiters => Kind::NotifyWaiters,
        Effect::NotifyOne => Kind::NotifyOne,
    }
}

    } // verus!
}
pub use vocab::*;
verus! {
/// every kind of effect that changes the admission word or the mailbox occurs equally often in `a` and `b`, except those listed
pub open spec fn word_or_mailbox_kind(k: Kind) -> bool {
    k is Admit || k is Mark || k is OtherCas || k is Release || k is Close || k is OtherOr || k is EnqMsg || k is EnqDrain
}
pub open spec fn same_counts_except(a: Seq<Effect>, b: Seq<Effect>, x1: Kind, x2: Kind, x3: Kind) -> bool {
    forall|k: Kind| word_or_mailbox_kind(k) && k != x1 && k != x2 && k != x3 ==> #[trigger] cnt(b, k) == cnt(a, k)
}

} // verus!
// @include ../_common/effectlog.rs
verus! {

pub open spec fn is_admit(e: Effect) -> bool { e matches Effect::WordCas(c, n) && step_admit(c, n) }
pub open spec fn is_mark(e: Effect) -> bool { e matches Effect::WordCas(c, n) && step_mark(c, n) }
pub open spec fn is_release(e: Effect) -> bool { e matches Effect::WordSub(p) && count(p) >= 1 }
pub open spec fn is_close(e: Effect) -> bool { e matches Effect::WordOr(p, m) && m == W_CLOSED() }
pub open spec fn is_status_load(e: Effect, v: u8) -> bool { e == Effect::StatusLoad(v) }
pub open spec fn word_loaded(e: Effect) -> usize { match e { Effect::WordLoad(v) => v, _ => 0usize } }
/// a state in which the drain marker may (and must) be emitted
pub open spec fn eligible(w: usize) -> bool { closed(w) && count(w) == 0 && !sent(w) }
/// the effects added after `a` with relative index in [lo, hi) are all observations of the admission word
pub open spec fn only_word_loads(a: Seq<Effect>, b: Seq<Effect>, lo: int, hi: int) -> bool {
    forall|i: int| a.len() + lo <= i < a.len() + hi ==> (#[trigger] b[i]) is WordLoad
}
/// admission attempt inside the window [lo, hi) of the effects added after `a`: observations, then (admitted)
/// exactly one Admit step as the window's last effect; refused only after observing a closed word
pub open spec fn admit_window(a: Seq<Effect>, b: Seq<Effect>, lo: int, hi: int, admitted: bool) -> bool {
    &&& lo < hi && a.len() + hi <= b.len()
    &&& admitted ==> is_admit(b[a.len() + hi - 1]) && only_word_loads(a, b, lo, hi - 1)
    &&& !admitted ==> only_word_loads(a, b, lo, hi) && closed(word_loaded(b[a.len() + hi - 1]))
}
/// marker attempt inside the window [lo, hi): observations, then either nothing more (the last observation was not
/// eligible) or one Mark step followed by the Drain marker -- or by nothing if the channel refused it (receiver gone)
pub open spec fn marker_window(a: Seq<Effect>, b: Seq<Effect>, lo: int, hi: int) -> bool {
    &&& lo < hi && a.len() + hi <= b.len()
    &&& ( (only_word_loads(a, b, lo, hi) && !eligible(word_loaded(b[a.len() + hi - 1])))
       || (hi - lo >= 3 && only_word_loads(a, b, lo, hi - 2) && is_mark(b[a.len() + hi - 2]) && b[a.len() + hi - 1] == Effect::Enqueue(MuxedMessage::Drain))
       || (hi - lo >= 2 && only_word_loads(a, b, lo, hi - 1) && is_mark(b[a.len() + hi - 1])) )
}

/// no status was read in the effects added after `a`
pub open spec fn no_status_loads(a: Seq<Effect>, b: Seq<Effect>) -> bool { forall|i: int| a.len() <= i < b.len() ==> !((#[trigger] b[i]) is StatusLoad) }
pub open spec fn status_loaded(e: Effect) -> u8 { match e { Effect::StatusLoad(v) => v, _ => 255u8 } }
/// no mailbox item was enqueued among the effects added after `a`
pub open spec fn no_enqueue(a: Seq<Effect>, b: Seq<Effect>) -> bool { forall|i: int| a.len() <= i < b.len() ==> !(#[trigger] b[i] is Enqueue) }

// ------------------------------------------------------------------ Message trait (ASSUMED contract of box_message / from_boxed: a boxed message unboxes to itself)
pub uninterp spec fn boxed_of<T>(m: T) -> BoxedMessage;

pub trait Message: Sized {
    fn box_message(self, pid: &ActorId) -> (r: Result<BoxedMessage, BoxedDowncastErr>)
        ensures r matches Ok(b) ==> b == boxed_of::<Self>(self);
    fn from_boxed(m: BoxedMessage) -> (r: Result<Self, BoxedDowncastErr>)
        ensures forall|x: Self| m == boxed_of::<Self>(x) ==> r == Ok::<Self, BoxedDowncastErr>(x);
}


/// A-std: whether the thread is unwinding is not something a contract may depend on: any answer is possible
pub assume_specification [std::thread::panicking] () -> (r: bool);
/// A-std: the reflexive `From` impl used by `?` is the identity
pub assume_specification<T> [<T as core::convert::From<T>>::from] (t: T) -> (r: T)
    ensures r == t;

// ------------------------------------------------------------------ tokio unbounded mpsc sender stand-in (A-chan)
pub struct SendError<T>(pub T);
#[verifier::external_body] pub struct MessagePort { _p: u8 }

// ------------------------------------------------------------------ Notify stand-in (A-chan)
#[verifier::external_body] pub struct Notify { _p: u8 }
#[verifier::external_body] pub struct Notified { _p: u8 }

// ------------------------------------------------------------------ status word / admission word stand-ins (A-atomic)
#[verifier::external_body] pub struct StatusWord { _p: u8 }
#[verifier::external_body] pub struct AdmissionWord { _p: u8 }

// ================================================================== protocol lemmas over ALL interleavings (C07, C06)
//
// Abstract system: the shared word `w`, the number of outstanding tickets `t` (MessageAdmission values alive),
// `marks` = number of Drain markers enqueued.  Any thread may take any enabled step at any time; a Release is only
// taken by a ticket holder (the only Release site is MessageAdmission::drop, and a MessageAdmission is only
// created by a successful Admit: per-function contracts + shape checks).
pub struct Sys { pub w: usize, pub t: nat, pub marks: nat, pub ever_closed: bool }

pub open spec fn sys_init(s: Sys) -> bool { s.w == 0 && s.t == 0 && s.marks == 0 && !s.ever_closed }

pub open spec fn sys_inv(s: Sys) -> bool {
    &&& count(s.w) as nat == s.t
    &&& (sent(s.w) ==> closed(s.w))
    &&& s.marks == (if sent(s.w) { 1nat } else { 0nat })
    &&& s.ever_closed == closed(s.w)
    &&& (sent(s.w) ==> s.t == 0)
}

pub enum Step { Admit, Release, Close, Mark }

pub open spec fn sys_next(a: Sys, b: Sys, st: Step) -> bool {
    match st {
        Step::Admit => step_admit(a.w, b.w) && b.t == a.t + 1 && b.marks == a.marks && b.ever_closed == a.ever_closed,
        Step::Release => a.t >= 1 && step_release(a.w, b.w) && b.t == a.t - 1 && b.marks == a.marks && b.ever_closed == a.ever_closed,
        Step::Close => step_close(a.w, b.w) && b.t == a.t && b.marks == a.marks && b.ever_closed,
        Step::Mark => step_mark(a.w, b.w) && b.t == a.t && b.marks == a.marks + 1 && b.ever_closed == a.ever_closed,
    }
}

/// the invariant is inductive: holds initially and is preserved by every step of every thread
// @props C07
pub proof fn lemma_protocol_inductive(a: Sys, b: Sys, st: Step)
    requires sys_inv(a), sys_next(a, b, st),
    ensures
        sys_inv(b),
        // (1) at most one marker is ever enqueued
        b.marks <= 1,
        // (2) when the marker is enqueued no ticket is outstanding ...
        st is Mark ==> a.t == 0 && closed(a.w),
        // ... and none can be obtained afterwards / (3) after Close every admission attempt is refused
        closed(a.w) ==> !(st is Admit),
        // closed and sent are never cleared
        closed(a.w) ==> closed(b.w),
        sent(a.w) ==> sent(b.w),
{
    lemma_bits_or(a.w);
    match st {
        Step::Admit => { lemma_bits_admit(a.w); }
        Step::Release => { lemma_bits_release(a.w); }
        Step::Close => { }
        Step::Mark => { }
    }
}

// @props C07
pub proof fn lemma_protocol_init(s: Sys)
    requires sys_init(s),
    ensures sys_inv(s),
{
    assert(0usize & 0x8000_0000_0000_0000usize == 0 && 0usize & 0x4000_0000_0000_0000usize == 0 && 0usize & 0x3fff_ffff_ffff_ffffusize == 0) by (bit_vector);
}

/// whole histories: any finite run from the initial state satisfies the invariant (so: never two markers, a marker
/// only with no ticket outstanding), and once the word is closed it stays closed and no Admit step is ever taken again
pub open spec fn run_ok(states: Seq<Sys>, steps: Seq<Step>) -> bool {
    &&& states.len() == steps.len() + 1
    &&& sys_init(states[0])
    &&& forall|i: int| 0 <= i < steps.len() ==> sys_next(#[trigger] states[i], states[i + 1], steps[i])
}

// @props C07
pub proof fn lemma_protocol_runs(states: Seq<Sys>, steps: Seq<Step>, k: int)
    requires run_ok(states, steps), 0 <= k < states.len(),
    ensures sys_inv(states[k]), states[k].marks <= 1,
    decreases k,
{
    if k == 0 {
        lemma_protocol_init(states[0]);
    } else {
        lemma_protocol_runs(states, steps, k - 1);
        assert(sys_next(states[k - 1], states[k - 1 + 1], steps[k - 1]));
        lemma_protocol_inductive(states[k - 1], states[k], steps[k - 1]);
    }
}

// @props C07
pub proof fn lemma_closed_is_stable(states: Seq<Sys>, steps: Seq<Step>, j: int, k: int)
    requires run_ok(states, steps), 0 <= j <= k < states.len(), closed(states[j].w),
    ensures closed(states[k].w), k < steps.len() ==> !(steps[k] is Admit),
    decreases k - j,
{
    lemma_protocol_runs(states, steps, k);
    if j < k {
        lemma_closed_is_stable(states, steps, j, k - 1);
        lemma_protocol_runs(states, steps, k - 1);
        assert(sys_next(states[k - 1], states[k - 1 + 1], steps[k - 1]));
        lemma_protocol_inductive(states[k - 1], states[k], steps[k - 1]);
    }
    if k < steps.len() {
        assert(sys_next(states[k], states[k + 1], steps[k]));
        lemma_protocol_inductive(states[k], states[k + 1], steps[k]);
    }
}

/// status word: the only permitted writes are fetch_max(c) and drain's update to Draining taken only below Stopping;
/// every sequence of them is monotone (C06 "observed status never moves backwards")
pub open spec fn max_u8(a: u8, c: u8) -> u8 { if a >= c { a } else { c } }
pub open spec fn status_step(a: u8, b: u8) -> bool {
    (exists|c: u8| b == #[trigger] max_u8(a, c)) || (a < 5 && b == 4 && a <= 4) || (b == a)
}
// @props C06
pub proof fn lemma_status_monotone(a: u8, b: u8)
    requires status_step(a, b),
    ensures b >= a, (status_of(b) as u8) >= (status_of(a) as u8),
{
}

/// election: for any threshold T, among any sequence of fetch_max steps on one word at most one observes prev < T <= arg
pub open spec fn elected(prev: u8, arg: u8, thr: u8) -> bool { prev < thr && thr <= arg }
// @props C06
pub proof fn lemma_election_once(w0: u8, args: Seq<u8>, thr: u8, i: int, j: int)
    requires 0 <= i < j < args.len(),
    ensures !(elected(word_after(w0, args, i), args[i], thr) && elected(word_after(w0, args, j), args[j], thr)),
{
    lemma_word_after_ge(w0, args, i + 1, j);
    // after step i the word is >= args[i] >= thr if i was elected, so j observes prev >= thr
    assert(word_after(w0, args, i + 1) >= args[i]);
}
pub open spec fn word_after(w0: u8, args: Seq<u8>, n: int) -> u8
    decreases n,
{
    if n <= 0 { w0 } else {
        let p = word_after(w0, args, n - 1);
        if p >= args[n - 1] { p } else { args[n - 1] }
    }
}
pub proof fn lemma_word_after_ge(w0: u8, args: Seq<u8>, a: int, b: int)
    requires 0 <= a <= b,
    ensures word_after(w0, args, b) >= word_after(w0, args, a),
    decreases b - a,
{
    if a < b { lemma_word_after_ge(w0, args, a, b - 1); }
}

} // verus!

// ------------------------------------------------------------------ stubs with ghost effect-log arguments (attribute syntax so that `with` works)
#[verus_verify]
impl MessagePort {
    /// A-chan: unbounded FIFO; `send` either appends the item or (receiver closed) hands the same item back
    #[verus_verify(external_body)]
    #[verus_spec(r =>
        with Tracked(log): Tracked<&mut EffectLog>
        ensures
            r is Ok ==> final(log).s == old(log).s.push(Effect::Enqueue(item)),
            r matches Err(e) ==> final(log).s == old(log).s && e.0 == item,
    )]
    pub fn send(&self, item: MuxedMessage) -> Result<(), SendError<MuxedMessage>> { unimplemented!() }
}

#[verus_verify]
impl AdmissionWord {
    /// A-64: every observed value has fewer than 2^62-1 tickets outstanding
    #[verus_verify(external_body)]
    #[verus_spec(r =>
        with Tracked(log): Tracked<&mut EffectLog>
        ensures count(r) < W_MASK(), final(log).s == old(log).s.push(Effect::WordLoad(r)),
    )]
    pub fn load(&self, o: Ordering) -> usize { unimplemented!() }

    /// guard stub: the only compare-exchange transitions the protocol allows are Admit and Mark
    #[verus_verify(external_body)]
    #[verus_spec(r =>
        with Tracked(log): Tracked<&mut EffectLog>
        requires
            step_admit(current, new) || step_mark(current, new),
        ensures
            r matches Ok(v) ==> v == current && final(log).s == old(log).s.push(Effect::WordCas(current, new)),
            r matches Err(v) ==> final(log).s == old(log).s.push(Effect::WordLoad(v)) && count(v) < W_MASK(),
    )]
    pub fn compare_exchange_weak(&self, current: usize, new: usize, s: Ordering, f: Ordering) -> Result<usize, usize> { unimplemented!() }

    /// guard stub: Release = fetch_sub(1); ticket-holder invariant (protocol lemma): the holder's own ticket is counted
    #[verus_verify(external_body)]
    #[verus_spec(r =>
        with Tracked(log): Tracked<&mut EffectLog>
        requires
            val == 1,
        ensures
            final(log).s == old(log).s.push(Effect::WordSub(r)),
            count(r) >= 1,
    )]
    pub fn fetch_sub(&self, val: usize, o: Ordering) -> usize { unimplemented!() }

    /// guard stub: the only mask ever or-ed in is CLOSED
    #[verus_verify(external_body)]
    #[verus_spec(r =>
        with Tracked(log): Tracked<&mut EffectLog>
        requires
            val == W_CLOSED(),
        ensures
            final(log).s == old(log).s.push(Effect::WordOr(r, val)),
    )]
    pub fn fetch_or(&self, val: usize, o: Ordering) -> usize { unimplemented!() }

    // every other write is forbidden
    #[verus_verify(external_body)]
    #[verus_spec(requires false)]
    pub fn store(&self, val: usize, o: Ordering) { unimplemented!() }
    #[verus_verify(external_body)]
    #[verus_spec(requires false)]
    pub fn swap(&self, val: usize, o: Ordering) -> usize { unimplemented!() }
    #[verus_verify(external_body)]
    #[verus_spec(requires false)]
    pub fn fetch_add(&self, val: usize, o: Ordering) -> usize { unimplemented!() }
    #[verus_verify(external_body)]
    #[verus_spec(requires false)]
    pub fn fetch_and(&self, val: usize, o: Ordering) -> usize { unimplemented!() }
    #[verus_verify(external_body)]
    #[verus_spec(requires false)]
    pub fn fetch_xor(&self, val: usize, o: Ordering) -> usize { unimplemented!() }
    #[verus_verify(external_body)]
    #[verus_spec(requires step_admit(current, new) || step_mark(current, new))]
    pub fn compare_exchange(&self, current: usize, new: usize, s: Ordering, f: Ordering) -> Result<usize, usize> { unimplemented!() }
}

#[verus_verify]
impl StatusWord {
    #[verus_verify(external_body)]
    #[verus_spec(r =>
        with Tracked(log): Tracked<&mut EffectLog>
        ensures final(log).s == old(log).s.push(Effect::StatusLoad(r)),
    )]
    pub fn load(&self, o: Ordering) -> u8 { unimplemented!() }

    #[verus_verify(external_body)]
    #[verus_spec(r =>
        with Tracked(log): Tracked<&mut EffectLog>
        ensures final(log).s == old(log).s.push(Effect::StatusMax(r, val)),
    )]
    pub fn fetch_max(&self, val: u8, o: Ordering) -> u8 { unimplemented!() }

    /// guard stub: an update function may only move to Draining(4) and only from below Stopping(5)
    #[verus_verify(external_body)]
    #[verus_spec(r =>
        with Tracked(log): Tracked<&mut EffectLog>
        requires
            forall|x: u8| f.requires((x,)),
            forall|x: u8, y: Option<u8>| f.ensures((x,), y) ==> (y matches Some(v) ==> v == 4 && x < 5),
        ensures
            exists|p: u8, n: Option<u8>| f.ensures((p,), n) && final(log).s == old(log).s.push(Effect::StatusUpdate(p, n)),
    )]
    pub fn fetch_update<F: Fn(u8) -> Option<u8>>(&self, so: Ordering, fo: Ordering, f: F) -> Result<u8, u8> { unimplemented!() }

    #[verus_verify(external_body)]
    #[verus_spec(requires false)]
    pub fn store(&self, val: u8, o: Ordering) { unimplemented!() }
    #[verus_verify(external_body)]
    #[verus_spec(requires false)]
    pub fn swap(&self, val: u8, o: Ordering) -> u8 { unimplemented!() }
    #[verus_verify(external_body)]
    #[verus_spec(requires false)]
    pub fn fetch_min(&self, val: u8, o: Ordering) -> u8 { unimplemented!() }
    #[verus_verify(external_body)]
    #[verus_spec(requires false)]
    pub fn compare_exchange(&self, c: u8, n: u8, s: Ordering, f: Ordering) -> Result<u8, u8> { unimplemented!() }
}

#[verus_verify]
impl Notify {
    #[verus_verify(external_body)]
    #[verus_spec(r =>
        with Tracked(log): Tracked<&mut EffectLog>
        ensures final(log).s == old(log).s.push(Effect::NotifiedCreated),
    )]
    pub fn notified(&self) -> Notified { unimplemented!() }
    #[verus_verify(external_body)]
    #[verus_spec(
        with Tracked(log): Tracked<&mut EffectLog>
        ensures final(log).s == old(log).s.push(Effect::NotifyWaiters),
    )]
    pub fn notify_waiters(&self) { unimplemented!() }
    #[verus_verify(external_body)]
    #[verus_spec(
        with Tracked(log): Tracked<&mut EffectLog>
        ensures final(log).s == old(log).s.push(Effect::NotifyOne),
    )]
    pub fn notify_one(&self) { unimplemented!() }
}

/// guard stub: releasing an admission ticket explicitly before the end of the sending function is forbidden
/// (C07: the Enqueue must happen while the ticket is held; the implicit end-of-scope drop is A-rust)
#[verus_verify(external_body)]
#[verus_spec(requires false)]
pub fn drop<T>(t: T) { unimplemented!() }

/// R7 ("call" mode): `x.await` is projected to `vx_await(x)`; the only awaited future in this unit is `Notified`
#[verus_verify(external_body)]
#[verus_spec(
    with Tracked(log): Tracked<&mut EffectLog>
    ensures final(log).s == old(log).s.push(Effect::Await),
)]
pub fn vx_await(n: Notified) { unimplemented!() }

#[verus_verify]
impl ActorProperties {
    /// hands the signal to the single-shot signal port (Err when the port is already spent); no effect the log speaks about
    #[verus_verify(external_body)]
    pub fn send_signal(&self, signal: Signal) -> Result<(), MessagingErr<()>> { unimplemented!() }
    /// hands the stop message to the single-shot stop port
    #[verus_verify(external_body)]
    pub fn send_stop(&self, reason: Option<String>) -> Result<(), MessagingErr<StopMessage>> { unimplemented!() }
}

/// `std::any::type_name::<T>()`: a printed path -- NOT injective (two distinct types may print the same)
#[verus_verify(external_body)]
pub fn type_name_of<T>() -> &'static str { unimplemented!() }
