// ---- unit nodetable: the node server's session table (C18: an unauthenticated connection can neither displace nor veto) ----
#![feature(proc_macro_hygiene)]
#![allow(unused, non_snake_case, non_camel_case_types, dead_code, unreachable_code)]
use vstd::prelude::*;
use verus_builtin_macros::{verus_spec, verus_verify, proof, proof_decl};
use core::cmp::Ordering;

verus! {
global size_of usize == 8;
pub type NodeId = u64;
#[verifier::external_body] pub struct Opaque { _p: u8 }
#[verifier::external_body] pub struct SessionRef { _p: u8 }
/// HashMap<ActorId, NodeServerSessionInformation>: opaque, with its mathematical view
#[verifier::external_body] pub struct SessionsMap { _p: u8 }
impl View for SessionsMap { type V = Map<ActorId, NodeServerSessionInformation>; uninterp spec fn view(&self) -> Map<ActorId, NodeServerSessionInformation>; }
#[verifier::external_body] pub struct ConnIds { _p: u8 }
impl View for ConnIds { type V = Map<ActorId, Option<Nonce>>; uninterp spec fn view(&self) -> Map<ActorId, Option<Nonce>>; }
#[verifier::external_body] pub struct IdSet { _p: u8 }
impl View for IdSet { type V = Set<ActorId>; uninterp spec fn view(&self) -> Set<ActorId>; }
impl IdSet {
    #[verifier::external_body]
    pub fn contains(&self, k: &ActorId) -> (r: bool) ensures r == self@.contains(*k) { unimplemented!() }
    #[verifier::external_body]
    pub fn insert(&mut self, k: ActorId) -> (r: bool) ensures final(self)@ == old(self)@.insert(k), r == !old(self)@.contains(k) { unimplemented!() }
    #[verifier::external_body]
    pub fn remove(&mut self, k: &ActorId) -> (r: bool) ensures final(self)@ == old(self)@.remove(*k), r == old(self)@.contains(*k) { unimplemented!() }
}
impl SessionRef {
    #[verifier::external_body]
    pub fn clone(&self) -> (r: SessionRef) ensures r == *self { unimplemented!() }
}
impl SessionsMap {
    #[verifier::external_body]
    pub fn get(&self, k: &ActorId) -> (r: Option<&NodeServerSessionInformation>)
        ensures r == (if self@.contains_key(*k) { Some(&self@[*k]) } else { None::<&NodeServerSessionInformation> }) { unimplemented!() }
}
/// the nonce recorded for a session (none recorded, or the legacy zero nonce: None)
pub open spec fn nonce_at(m: Map<ActorId, Option<Nonce>>, id: ActorId) -> Option<Nonce> { if m.contains_key(id) { m[id] } else { None } }
impl ConnIds {
    /// `connection_ids.get(id).copied().flatten()` (R22)
    #[verifier::external_body]
    pub fn vx_get_flat(&self, k: &ActorId) -> (r: Option<Nonce>) ensures r == nonce_at(self@, *k) { unimplemented!() }
}
/// does the session claim to come from the peer with this name?
pub open spec fn claims(s: NodeServerSessionInformation, peer: Seq<char>) -> bool { s.peer_name matches Some(n) && n.name@ == peer }
/// `session.peer_name.as_ref().map(|name| name.name.as_str()) == Some(peer_name)` (R22): string comparison is outside Verus
#[verifier::external_body]
pub fn vx_claims(s: &&NodeServerSessionInformation, peer: &str) -> (r: bool) ensures r == claims(**s, peer@) { unimplemented!() }
pub type Info = NodeServerSessionInformation;
/// the candidate a registered session stands for in an election
pub open spec fn cand_fn(st: NodeServerState, peer: Seq<char>, auth_only: bool) -> spec_fn(ActorId, Info) -> Option<Cand> {
    |id: ActorId, s: Info| if claims(s, peer) && (!auth_only || st.authenticated_sessions@.contains(id)) {
        Some(SessionElectionCandidate { actor_id: id, is_server: s.is_server, connection_id: nonce_at(st.connection_ids@, id) })
    } else { None }
}
/// `r` is what `m.iter().filter_map(g).collect()` may return: one element per entry `g` maps to Some, every such entry once, in ANY order
pub open spec fn collected<T>(m: Map<ActorId, Info>, g: spec_fn(ActorId, Info) -> Option<T>, r: Seq<T>) -> bool {
    exists|ks: Seq<ActorId>| visit(m, g, r, ks)
}
pub open spec fn visit<T>(m: Map<ActorId, Info>, g: spec_fn(ActorId, Info) -> Option<T>, r: Seq<T>, ks: Seq<ActorId>) -> bool {
    ks.len() == r.len() && ks.no_duplicates()
    && (forall|j: int| 0 <= j < ks.len() ==> m.contains_key(#[trigger] ks[j]) && g(ks[j], m[ks[j]]) == Some(r[j]))
    && (forall|k: ActorId| m.contains_key(k) && g(k, m[k]) is Some ==> #[trigger] ks.contains(k))
}
/// elect_sessions: proved equal to the specification function in unit electfn (for every input); here that contract is ASSUMED
#[verifier::external_body]
pub fn elect_sessions(this_node_name: &str, peer_name: &str, candidates: Vec<SessionElectionCandidate>) -> (r: IdVec)
    ensures r@ == ids_of(elect_spec(this_node_name@, peer_name@, candidates@)),
{ unimplemented!() }
/// the `Vec<ActorId>` elect_sessions returns, as a stand-in with the one method its callers use
#[verifier::external_body] pub struct IdVec { _p: u8 }
impl View for IdVec { type V = Seq<ActorId>; uninterp spec fn view(&self) -> Seq<ActorId>; }
impl IdVec {
    /// slice `contains` with the derived (structural) PartialEq of ActorId
    #[verifier::external_body]
    pub fn contains(&self, x: &ActorId) -> (r: bool) ensures r == self@.contains(*x) { unimplemented!() }
}
/// `ids.iter().max()` / `.min()` on a vector of actor ids (derived Ord of ActorId = id_lt)
#[verifier::external_body]
pub fn vx_ids_max(v: &Vec<ActorId>) -> (r: Option<&ActorId>)
    ensures r == (match id_max(v@) { Some(a) => Some(&a), None => None::<&ActorId> }), v@.len() > 0 ==> r is Some && v@.contains(*r.unwrap())
{ unimplemented!() }
#[verifier::external_body]
pub fn vx_ids_min(v: &Vec<ActorId>) -> (r: Option<&ActorId>)
    ensures r == (match id_min(v@) { Some(a) => Some(&a), None => None::<&ActorId> }), v@.len() > 0 ==> r is Some && v@.contains(*r.unwrap())
{ unimplemented!() }
/// `NonZeroU64::new(x)` (R9: NonZeroU64 as a number)
#[verifier::external_body]
pub fn vx_nonce_new(x: u64) -> (r: Option<Nonce>) ensures r == nonce_new(x) { unimplemented!() }
pub open spec fn nonce_new(x: u64) -> Option<Nonce> { if x == 0 { None } else { Some(Nonce { v: x }) } }
/// `a.name < b.name` on Strings (A-str)
#[verifier::external_body]
pub fn vx_name_lt(a: &String, b: &String) -> (r: bool) ensures r == (str_ord(a@, b@) is Less) { unimplemented!() }
/// the peer name a registered session has announced
pub open spec fn named(st: NodeServerState, id: ActorId) -> bool { st.node_sessions@.contains_key(id) && st.node_sessions@[id].peer_name is Some }
pub open spec fn peer_of(st: NodeServerState, id: ActorId) -> Seq<char> { st.node_sessions@[id].peer_name.unwrap().name@ }
pub open spec fn cand_of(st: NodeServerState, id: ActorId) -> Cand {
    SessionElectionCandidate { actor_id: id, is_server: st.node_sessions@[id].is_server, connection_id: nonce_at(st.connection_ids@, id) }
}
/// an AUTHENTICATED session registered under the peer name `peer`
pub open spec fn rival(st: NodeServerState, peer: Seq<char>, j: ActorId) -> bool {
    st.authenticated_sessions@.contains(j) && st.node_sessions@.contains_key(j) && claims(st.node_sessions@[j], peer)
}
/// who takes part when session `id` is judged: itself and the authenticated sessions of the same peer -- nobody else
pub open spec fn takes_part(st: NodeServerState, id: ActorId, c: Cand) -> bool {
    c == cand_of(st, id) || (rival(st, peer_of(st, id), c.actor_id) && c == cand_of(st, c.actor_id))
}
pub open spec fn the_field(s: Seq<Cand>, st: NodeServerState, id: ActorId) -> bool { forall|c: Cand| s.contains(c) <==> takes_part(st, id, c) }
/// the same notions for the table as it is right after `actor_id` was admitted: `a1` = the authenticated set then
pub open spec fn cand_at(m: Map<ActorId, Info>, conn: Map<ActorId, Option<Nonce>>, id: ActorId) -> Cand {
    SessionElectionCandidate { actor_id: id, is_server: m[id].is_server, connection_id: nonce_at(conn, id) }
}
pub open spec fn rival_in(m: Map<ActorId, Info>, a1: Set<ActorId>, peer: Seq<char>, j: ActorId) -> bool { a1.contains(j) && m.contains_key(j) && claims(m[j], peer) }
pub open spec fn field_in(s: Seq<Cand>, m: Map<ActorId, Info>, conn: Map<ActorId, Option<Nonce>>, a1: Set<ActorId>, peer: Seq<char>) -> bool {
    forall|c: Cand| s.contains(c) <==> (rival_in(m, a1, peer, c.actor_id) && c == cand_at(m, conn, c.actor_id))
}
/// the outcome of admitting `id`, for a candidate list `s` with exactly the authenticated sessions of the peer: who stays authenticated, what is reported
pub open spec fn commit_outcome(m: Map<ActorId, Info>, conn: Map<ActorId, Option<Nonce>>, a1: Set<ActorId>, me: Seq<char>, peer: Seq<char>, id: ActorId,
                                s: Seq<Cand>, after: Set<ActorId>, survives: bool, handed_back: Seq<SessionRef>) -> bool {
    let el = elect_spec(me, peer, s);
    &&& survives == el.contains(cand_at(m, conn, id))
    // only authenticated sessions of that very peer that lost the election stop being authenticated; nobody is added
    &&& forall|j: ActorId| #[trigger] after.contains(j) == (a1.contains(j) && !(rival_in(m, a1, peer, j) && !el.contains(cand_at(m, conn, j))))
    // the sessions handed back to be stopped are exactly those
    &&& forall|i: int| 0 <= i < handed_back.len() ==> exists|j: ActorId| a1.contains(j) && !after.contains(j) && m.contains_key(j) && #[trigger] handed_back[i] == m[j].actor
    &&& forall|j: ActorId| a1.contains(j) && !#[trigger] after.contains(j) ==> handed_back.contains(m[j].actor)
}
pub open spec fn loser_fn(a1: Set<ActorId>, peer: Seq<char>, elected: Seq<ActorId>) -> spec_fn(ActorId, Info) -> Option<(ActorId, SessionRef)> {
    |id: ActorId, s: Info| if a1.contains(id) && claims(s, peer) && !elected.contains(id) { Some((id, s.actor)) } else { None }
}
pub open spec fn second() -> spec_fn((ActorId, SessionRef)) -> SessionRef { |p: (ActorId, SessionRef)| p.1 }
/// what check_candidate promises about its verdict on session `k`
pub open spec fn judged(st: NodeServerState, k: ActorId, r: SessionCheckReply) -> bool {
    &&& !named(st, k) ==> r is OtherConnectionContinues
    &&& named(st, k) ==> (forall|s: Seq<Cand>| #[trigger] the_field(s, st, k) ==>
            (r is OtherConnectionContinues) == !elect_spec(st.this_node_name.name@, peer_of(st, k), s).contains(cand_of(st, k)))
    &&& (r is NoOtherConnection && named(st, k)) ==> (forall|j: ActorId| j != k ==> !#[trigger] rival(st, peer_of(st, k), j))
}
/// a registration under this name with this nonce (how a session is recognised by the node server)
pub open spec fn registered_as(st: NodeServerState, nm: NameMessage, k: ActorId) -> bool {
    st.node_sessions@.contains_key(k) && claims(st.node_sessions@[k], nm.name@) && nonce_at(st.connection_ids@, k) == nonce_new(nm.connection_id)
}
pub open spec fn reg_fn(st: NodeServerState, nm: NameMessage) -> spec_fn(ActorId, Info) -> Option<ActorId> {
    |id: ActorId, s: Info| if claims(s, nm.name@) && nonce_at(st.connection_ids@, id) == nonce_new(nm.connection_id) { Some(id) } else { None }
}
/// `map.iter().filter_map(f).collect::<Vec<_>>()` over the session table (R22; HashMap iteration order is unspecified)
#[verifier::external_body]
pub fn vx_iter_filter_map_collect<T, F: Fn((&ActorId, &Info)) -> Option<T>>(m: &SessionsMap, f: F) -> (r: Vec<T>)
    requires forall|k: &ActorId, v: &Info| f.requires(((k, v),)),
    ensures forall|g: spec_fn(ActorId, Info) -> Option<T>| (forall|k: &ActorId, v: &Info, y: Option<T>| f.ensures(((k, v),), y) ==> y == g(*k, *v)) ==> #[trigger] collected(m@, g, r@),
{ unimplemented!() }
} // verus!
// @include ../_common/iter_stubs.rs
// @include ../_common/elect_spec.rs
// @include ../_common/elect_lemmas.rs

verus! {
pub mod table_lemmas {
use super::*;
use super::election_lemmas::*;
/// the candidate list check_candidate builds is exactly "the session itself and the authenticated sessions of its peer", each once
pub proof fn lemma_field(st: NodeServerState, id: ActorId, c0: Seq<Cand>, cs: Seq<Cand>)
    requires named(st, id),
        collected(st.node_sessions@, cand_fn(st, peer_of(st, id), true), c0),
        cs == (if st.authenticated_sessions@.contains(id) { c0 } else { c0.push(cand_of(st, id)) }),
    ensures the_field(cs, st, id),
        forall|c: Cand| #[trigger] cs.contains(c) && c.actor_id == id ==> c == cand_of(st, id),
        forall|c: Cand| #[trigger] cs.contains(c) ==> c == cand_of(st, c.actor_id),
        cs.len() <= 1 ==> (forall|j: ActorId| j != id ==> !#[trigger] rival(st, peer_of(st, id), j)),
{
    let m = st.node_sessions@; let peer = peer_of(st, id); let g = cand_fn(st, peer, true);
    let ks = choose|ks: Seq<ActorId>| visit(m, g, c0, ks);
    let own = cand_of(st, id);
    // what the authenticated-only scan returns
    assert forall|c: Cand| c0.contains(c) implies rival(st, peer, c.actor_id) && c == cand_of(st, c.actor_id) by {
        let j = choose|j: int| 0 <= j < c0.len() && c0[j] == c;
        assert(m.contains_key(ks[j]) && g(ks[j], m[ks[j]]) == Some(c0[j]));
    }
    assert forall|j: ActorId| rival(st, peer, j) implies c0.contains(cand_of(st, j)) by {
        assert(g(j, m[j]) is Some);
        assert(ks.contains(j));
        let i = choose|i: int| 0 <= i < ks.len() && ks[i] == j;
        assert(g(ks[i], m[ks[i]]) == Some(c0[i]));
        assert(c0[i] == cand_of(st, j));
    }
    assert(claims(m[id], peer));
    if st.authenticated_sessions@.contains(id) {
        assert(rival(st, peer, id));
        assert(cs.contains(own));
    } else {
        assert(cs[cs.len() - 1] == own);
        assert forall|c: Cand| cs.contains(c) implies c == own || c0.contains(c) by {
            let j = choose|j: int| 0 <= j < cs.len() && cs[j] == c;
            if j < c0.len() { assert(c0[j] == c); }
        }
        assert forall|c: Cand| c0.contains(c) implies cs.contains(c) by {
            let j = choose|j: int| 0 <= j < c0.len() && c0[j] == c; assert(cs[j] == c);
        }
    }
    assert forall|c: Cand| cs.contains(c) <==> takes_part(st, id, c) by {
        if takes_part(st, id, c) && c != own { assert(c0.contains(cand_of(st, c.actor_id))); }
    }
    if cs.len() <= 1 {
        assert forall|j: ActorId| j != id implies !#[trigger] rival(st, peer, j) by {
            if rival(st, peer, j) {
                assert(cs.contains(cand_of(st, j)) && cs.contains(own));
                let a = choose|a: int| 0 <= a < cs.len() && cs[a] == cand_of(st, j);
                let b = choose|b: int| 0 <= b < cs.len() && cs[b] == own;
                assert(a != b);
            }
        }
    }
}
/// the authenticated-only scan finds somebody exactly when the peer has an authenticated session
pub proof fn lemma_scan_finds_rivals(st: NodeServerState, peer: Seq<char>, c0: Seq<Cand>)
    requires collected(st.node_sessions@, cand_fn(st, peer, true), c0),
    ensures c0.len() > 0 ==> (exists|j: ActorId| rival(st, peer, j)),
        (forall|j: ActorId| !#[trigger] rival(st, peer, j)) ==> c0.len() == 0,
{
    let m = st.node_sessions@; let g = cand_fn(st, peer, true);
    let ks = choose|ks: Seq<ActorId>| visit(m, g, c0, ks);
    if c0.len() > 0 { assert(m.contains_key(ks[0]) && g(ks[0], m[ks[0]]) == Some(c0[0])); assert(rival(st, peer, ks[0])); }
}
/// how many registrations match, read off the collected list
pub proof fn lemma_registrations(st: NodeServerState, nm: NameMessage, r: Seq<ActorId>)
    requires collected(st.node_sessions@, reg_fn(st, nm), r),
    ensures
        r.len() == 0 ==> (forall|k: ActorId| !#[trigger] registered_as(st, nm, k)),
        r.len() == 1 ==> registered_as(st, nm, r[0]) && (forall|k: ActorId| #[trigger] registered_as(st, nm, k) ==> k == r[0]),
        r.len() >= 2 ==> (exists|k1: ActorId, k2: ActorId| k1 != k2 && registered_as(st, nm, k1) && registered_as(st, nm, k2)),
        forall|k1: ActorId, k2: ActorId| k1 != k2 && #[trigger] registered_as(st, nm, k1) && #[trigger] registered_as(st, nm, k2) ==> r.len() >= 2,
{
    let m = st.node_sessions@; let g = reg_fn(st, nm);
    let ks = choose|ks: Seq<ActorId>| visit(m, g, r, ks);
    assert forall|k: ActorId| #[trigger] registered_as(st, nm, k) implies ks.contains(k) by { assert(g(k, m[k]) is Some); }
    assert forall|j: int| 0 <= j < ks.len() implies registered_as(st, nm, #[trigger] ks[j]) && r[j] == ks[j] by { assert(g(ks[j], m[ks[j]]) == Some(r[j])); }
    if r.len() == 0 { assert forall|k: ActorId| !#[trigger] registered_as(st, nm, k) by { if registered_as(st, nm, k) { assert(ks.contains(k)); } } }
    if r.len() == 1 {
        assert(registered_as(st, nm, ks[0]));
        assert forall|k: ActorId| #[trigger] registered_as(st, nm, k) implies k == r[0] by { assert(ks.contains(k)); let i = choose|i: int| 0 <= i < ks.len() && ks[i] == k; }
    }
    if r.len() >= 2 { assert(registered_as(st, nm, ks[0]) && registered_as(st, nm, ks[1]) && ks[0] != ks[1]); }
    assert forall|k1: ActorId, k2: ActorId| k1 != k2 && #[trigger] registered_as(st, nm, k1) && #[trigger] registered_as(st, nm, k2) implies r.len() >= 2 by {
        assert(ks.contains(k1) && ks.contains(k2));
        let a = choose|a: int| 0 <= a < ks.len() && ks[a] == k1; let b = choose|b: int| 0 <= b < ks.len() && ks[b] == k2;
        assert(a != b);
    }
}
/// after the admission: who is elected, for the list the scan produced and for every other list with the same members
pub proof fn lemma_commit(me: Seq<char>, st1: NodeServerState, id: ActorId, cs: Seq<Cand>, elected: Seq<ActorId>)
    requires named(st1, id), st1.authenticated_sessions@.contains(id),
        collected(st1.node_sessions@, cand_fn(st1, peer_of(st1, id), true), cs),
        elected == ids_of(elect_spec(me, peer_of(st1, id), cs)),
    ensures
        field_in(cs, st1.node_sessions@, st1.connection_ids@, st1.authenticated_sessions@, peer_of(st1, id)),
        forall|j: ActorId| #[trigger] elected.contains(j) == elect_spec(me, peer_of(st1, id), cs).contains(cand_at(st1.node_sessions@, st1.connection_ids@, j)),
        forall|s: Seq<Cand>| #[trigger] field_in(s, st1.node_sessions@, st1.connection_ids@, st1.authenticated_sessions@, peer_of(st1, id)) ==>
            same_members(elect_spec(me, peer_of(st1, id), s), elect_spec(me, peer_of(st1, id), cs)),
{
    let peer = peer_of(st1, id); let m = st1.node_sessions@; let conn = st1.connection_ids@; let a1 = st1.authenticated_sessions@;
    lemma_field(st1, id, cs, cs);
    assert forall|c: Cand| cs.contains(c) <==> (rival_in(m, a1, peer, c.actor_id) && c == cand_at(m, conn, c.actor_id)) by {
        assert(cand_at(m, conn, c.actor_id) == cand_of(st1, c.actor_id));
        assert(rival_in(m, a1, peer, c.actor_id) == rival(st1, peer, c.actor_id));
        if rival(st1, peer, c.actor_id) && c == cand_of(st1, c.actor_id) { assert(takes_part(st1, id, c)); }
        if cs.contains(c) { assert(takes_part(st1, id, c)); assert(rival(st1, peer, id)); }
    }
    let e = elect_spec(me, peer, cs);
    lemma_elect_subset_nonempty(me, peer, cs);
    assert forall|j: ActorId| #[trigger] elected.contains(j) == e.contains(cand_at(m, conn, j)) by {
        if elected.contains(j) {
            let i = choose|i: int| 0 <= i < elected.len() && elected[i] == j;
            assert(e[i].actor_id == j); assert(e.contains(e[i])); assert(cs.contains(e[i]));
            assert(e[i] == cand_of(st1, e[i].actor_id));
            assert(e[i] == cand_at(m, conn, j));
        }
        if e.contains(cand_at(m, conn, j)) { let i = choose|i: int| 0 <= i < e.len() && e[i] == cand_at(m, conn, j); assert(elected[i] == j); }
    }
    assert forall|s: Seq<Cand>| #[trigger] field_in(s, m, conn, a1, peer) implies same_members(elect_spec(me, peer, s), e) by {
        assert(same_members(s, cs));
        lemma_order_independent(me, peer, s, cs);
    }
}
/// the scan for losers, read as a set of ids and as the list of their actor references
pub proof fn lemma_losers(st1: NodeServerState, peer: Seq<char>, elected: Seq<ActorId>, losers: Seq<(ActorId, SessionRef)>)
    requires collected(st1.node_sessions@, loser_fn(st1.authenticated_sessions@, peer, elected), losers),
    ensures
        forall|k: int| 0 <= k < losers.len() ==> st1.node_sessions@.contains_key((#[trigger] losers[k]).0) && losers[k].1 == st1.node_sessions@[losers[k].0].actor
            && loser_fn(st1.authenticated_sessions@, peer, elected)(losers[k].0, st1.node_sessions@[losers[k].0]) is Some,
        forall|j: ActorId| st1.node_sessions@.contains_key(j) && #[trigger] loser_fn(st1.authenticated_sessions@, peer, elected)(j, st1.node_sessions@[j]) is Some ==> (exists|k: int| 0 <= k < losers.len() && losers[k].0 == j),
{
    let m = st1.node_sessions@; let g = loser_fn(st1.authenticated_sessions@, peer, elected);
    let ks = choose|ks: Seq<ActorId>| visit(m, g, losers, ks);
    assert forall|k: int| 0 <= k < losers.len() implies m.contains_key((#[trigger] losers[k]).0) && losers[k].1 == m[losers[k].0].actor && g(losers[k].0, m[losers[k].0]) is Some by {
        assert(m.contains_key(ks[k]) && g(ks[k], m[ks[k]]) == Some(losers[k]));
    }
    assert forall|j: ActorId| m.contains_key(j) && #[trigger] g(j, m[j]) is Some implies (exists|k: int| 0 <= k < losers.len() && losers[k].0 == j) by {
        assert(ks.contains(j)); let k = choose|k: int| 0 <= k < ks.len() && ks[k] == j;
        assert(g(ks[k], m[ks[k]]) == Some(losers[k]));
    }
}
/// everything together: what commit_authenticated leaves behind and reports, for every candidate list with the right members
pub proof fn lemma_outcome(me: Seq<char>, st1: NodeServerState, id: ActorId, cs: Seq<Cand>, elected: Seq<ActorId>, losers: Seq<(ActorId, SessionRef)>, after: Set<ActorId>)
    requires named(st1, id), st1.authenticated_sessions@.contains(id),
        collected(st1.node_sessions@, cand_fn(st1, peer_of(st1, id), true), cs),
        elected == ids_of(elect_spec(me, peer_of(st1, id), cs)),
        collected(st1.node_sessions@, loser_fn(st1.authenticated_sessions@, peer_of(st1, id), elected), losers),
        forall|j: ActorId| #[trigger] after.contains(j) == (st1.authenticated_sessions@.contains(j) && !(exists|k: int| 0 <= k < losers.len() && losers[k].0 == j)),
    ensures forall|s: Seq<Cand>| #[trigger] field_in(s, st1.node_sessions@, st1.connection_ids@, st1.authenticated_sessions@, peer_of(st1, id)) ==>
        commit_outcome(st1.node_sessions@, st1.connection_ids@, st1.authenticated_sessions@, me, peer_of(st1, id), id, s, after, elected.contains(id), losers.map_values(second())),
{
    let peer = peer_of(st1, id); let m = st1.node_sessions@; let conn = st1.connection_ids@; let a1 = st1.authenticated_sessions@;
    lemma_commit(me, st1, id, cs, elected);
    lemma_losers(st1, peer, elected, losers);
    let g = loser_fn(a1, peer, elected);
    let hb = losers.map_values(second());
    assert forall|s: Seq<Cand>| #[trigger] field_in(s, m, conn, a1, peer) implies commit_outcome(m, conn, a1, me, peer, id, s, after, elected.contains(id), hb) by {
        let el = elect_spec(me, peer, s); let e = elect_spec(me, peer, cs);
        assert(same_members(el, e));
        assert forall|j: ActorId| #[trigger] after.contains(j) == (a1.contains(j) && !(rival_in(m, a1, peer, j) && !el.contains(cand_at(m, conn, j)))) by {
            assert(elected.contains(j) == e.contains(cand_at(m, conn, j)));
            if a1.contains(j) && rival_in(m, a1, peer, j) && !el.contains(cand_at(m, conn, j)) {
                assert(g(j, m[j]) is Some);
            }
            if exists|k: int| 0 <= k < losers.len() && losers[k].0 == j {
                let k = choose|k: int| 0 <= k < losers.len() && losers[k].0 == j;
                assert(g(losers[k].0, m[losers[k].0]) is Some);
            }
        }
        assert forall|i: int| 0 <= i < hb.len() implies exists|j: ActorId| a1.contains(j) && !after.contains(j) && m.contains_key(j) && #[trigger] hb[i] == m[j].actor by {
            let j = losers[i].0;
            assert(g(j, m[j]) is Some);
            assert(!after.contains(j));
            assert(hb[i] == m[j].actor);
        }
        assert forall|j: ActorId| a1.contains(j) && !#[trigger] after.contains(j) implies hb.contains(m[j].actor) by {
            let k = choose|k: int| 0 <= k < losers.len() && losers[k].0 == j;
            assert(hb[k] == m[j].actor);
        }
    }
}
/// the verdict on the session itself is the same for every list with those members (whatever the HashMap's iteration order was)
pub proof fn lemma_verdict(me: Seq<char>, st: NodeServerState, id: ActorId, cs: Seq<Cand>, elected: Seq<ActorId>)
    requires named(st, id), the_field(cs, st, id),
        forall|c: Cand| #[trigger] cs.contains(c) && c.actor_id == id ==> c == cand_of(st, id),
        elected == ids_of(elect_spec(me, peer_of(st, id), cs)),
    ensures elected.contains(id) == elect_spec(me, peer_of(st, id), cs).contains(cand_of(st, id)),
        forall|s: Seq<Cand>| #[trigger] the_field(s, st, id) ==>
            elect_spec(me, peer_of(st, id), s).contains(cand_of(st, id)) == elect_spec(me, peer_of(st, id), cs).contains(cand_of(st, id)),
{
    let peer = peer_of(st, id); let e = elect_spec(me, peer, cs); let own = cand_of(st, id);
    lemma_elect_subset_nonempty(me, peer, cs);
    if elected.contains(id) {
        let i = choose|i: int| 0 <= i < elected.len() && elected[i] == id;
        assert(e[i].actor_id == id);
        assert(e.contains(e[i]) && cs.contains(e[i]));
    }
    if e.contains(own) {
        let i = choose|i: int| 0 <= i < e.len() && e[i] == own;
        assert(elected[i] == id);
    }
    assert forall|s: Seq<Cand>| #[trigger] the_field(s, st, id) implies elect_spec(me, peer, s).contains(own) == e.contains(own) by {
        assert(same_members(cs, s));
        lemma_order_independent(me, peer, cs, s);
    }
}
}
} // verus!
