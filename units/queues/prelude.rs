// ---- unit queues: the shipped DefaultQueue meets the Queue contract assumed by unit factory ----
#![feature(proc_macro_hygiene)]
#![feature(allocator_api)]
#![allow(unused, non_snake_case, non_camel_case_types, dead_code, unreachable_code)]
use vstd::prelude::*;
use vstd::multiset::Multiset;
use verus_builtin_macros::{verus_spec, verus_verify, proof, proof_decl};
use std::collections::VecDeque;

verus! {
pub trait JobKey: Sized {}
pub trait Message: Sized {}
#[verifier::external_body] pub struct JobOptions { _p: u8 }
#[verifier::external_body] #[verifier::reject_recursive_types(K)] #[verifier::reject_recursive_types(M)]
pub struct ReplyPort<K, M> { _p: core::marker::PhantomData<(K, M)> }

pub assume_specification<T, A: core::alloc::Allocator> [VecDeque::<T, A>::front] (q: &VecDeque<T, A>) -> (r: Option<&T>)
    ensures r is None <==> q@.len() == 0, r matches Some(x) ==> *x == q@[0];
pub assume_specification<T, A: core::alloc::Allocator> [VecDeque::<T, A>::is_empty] (q: &VecDeque<T, A>) -> (r: bool)
    ensures r == (q@.len() == 0);

} // verus!
pub mod qlemmas {
    use super::*;
    verus! {
    pub uninterp spec fn jid_of<K, M>(k: K, m: M) -> int;
    pub open spec fn jid<K: JobKey, M: Message>(j: Job<K, M>) -> int { jid_of(j.key, j.msg) }
    pub open spec fn ids<K: JobKey, M: Message>(q: Seq<Job<K, M>>) -> Seq<int> { q.map_values(|j: Job<K, M>| jid(j)) }
    pub broadcast proof fn lemma_ids_len<K: JobKey, M: Message>(s: Seq<Job<K, M>>)
        ensures #[trigger] ids(s).to_multiset().len() == s.len(),
    {
        ids(s).to_multiset_ensures();
    }
    pub broadcast proof fn lemma_has_push<K: JobKey, M: Message>(s: Seq<Job<K, M>>, j: Job<K, M>)
        ensures #[trigger] ids(s.push(j)).to_multiset() =~= ids(s).to_multiset().insert(jid(j)),
    {
        assert(ids(s.push(j)) =~= ids(s).push(jid(j)));
        ids(s).to_multiset_ensures();
    }
    pub broadcast proof fn lemma_has_pop<K: JobKey, M: Message>(s: Seq<Job<K, M>>)
        requires s.len() > 0,
        ensures #[trigger] ids(s.subrange(1, s.len() as int)).to_multiset() =~= ids(s).to_multiset().remove(jid(s[0])),
            ids(s).to_multiset().contains(jid(s[0])),
    {
        let t = ids(s);
        assert(ids(s.subrange(1, s.len() as int)) =~= t.subrange(1, t.len() as int));
        assert(t =~= seq![t[0]] + t.subrange(1, t.len() as int));
        vstd::seq_lib::lemma_multiset_commutative(seq![t[0]], t.subrange(1, t.len() as int));
        seq![t[0]].to_multiset_ensures();
        assert(seq![t[0]] =~= Seq::<int>::empty().push(t[0]));
        Seq::<int>::empty().to_multiset_ensures();
        t.to_multiset_ensures();
        assert(t[0] == jid(s[0]));
    }
    pub broadcast proof fn lemma_head_is_member<K: JobKey, M: Message>(s: Seq<Job<K, M>>)
        requires s.len() > 0,
        ensures #[trigger] ids(s).to_multiset().contains(jid(s[0])),
    {
        ids(s).to_multiset_ensures();
        assert(ids(s)[0] == jid(s[0]));
        assert(ids(s).contains(jid(s[0])));
    }
    pub broadcast proof fn lemma_drop_first<K: JobKey, M: Message>(s: Seq<Job<K, M>>)
        requires s.len() > 0,
        ensures #[trigger] ids(s.drop_first()).to_multiset() =~= ids(s).to_multiset().remove(jid(s[0])),
    {
        assert(s.drop_first() =~= s.subrange(1, s.len() as int));
        lemma_has_pop(s);
    }
    pub broadcast group group_q { lemma_ids_len, lemma_has_push, lemma_has_pop, lemma_head_is_member, lemma_drop_first }
    }
}
pub use qlemmas::*;
verus! {
broadcast use qlemmas::group_q;
pub open spec fn has<K: JobKey, M: Message>(q: DefaultQueue<K, M>) -> Multiset<int> { ids(q.q@).to_multiset() }
} // verus!
