// ---- unit notifysup: prelude (SupervisionTree::notify_supervisor: a supervision event is handed to the actor's CURRENT supervisor,
// exactly once, whatever else is going on -- C04 "reported exactly once") ----
#![feature(proc_macro_hygiene)]
#![allow(unused, non_snake_case, non_camel_case_types, dead_code, unreachable_code)]
use vstd::prelude::*;
use verus_builtin_macros::{verus_spec, verus_verify, proof, proof_decl};

verus! {
broadcast use effectlog::group_effectlog;
#[verifier::external_body] pub struct Opaque { _p: u8 }
#[verifier::external_body] pub struct SupervisionEvent { _p: u8 }
#[verifier::external_body] pub struct SendFail { _p: u8 }
#[verifier::external_body] pub struct ActorCell { _p: u8 }
impl View for ActorCell { type V = int; uninterp spec fn view(&self) -> int; }
/// `Mutex<Option<ActorCell>>` holding the actor's supervisor pointer (A-lock): `current()` is the pointer at the moment the lock is
/// taken; a blocking `lock()` always gets to read it, a `try_lock()` may come back empty-handed at any time
#[verifier::external_body] pub struct SupMutex { _p: u8 }
#[verifier::external_body] pub struct SupGuard { _p: u8 }
pub struct VxLock<G> { pub v: G }
pub struct PoisonError<G> { pub g: G }
pub enum TryLockError<G> { Poisoned(PoisonError<G>), WouldBlock }
impl<G> VxLock<G> {
    pub fn unwrap(self) -> (r: G) ensures r == self.v { self.v }
}
impl<G> PoisonError<G> {
    pub fn into_inner(self) -> (r: G) ensures r == self.g { self.g }
}
impl SupMutex {
    pub uninterp spec fn current(&self) -> Option<ActorCell>;
    #[verifier::external_body]
    pub fn lock(&self) -> (r: VxLock<SupGuard>) ensures r.v.held() == self.current() { unimplemented!() }
    #[verifier::external_body]
    pub fn try_lock(&self) -> (r: Result<SupGuard, TryLockError<SupGuard>>)
        ensures r matches Ok(g) ==> g.held() == self.current(), r matches Err(TryLockError::Poisoned(p)) ==> p.g.held() == self.current(),
    { unimplemented!() }
}
impl SupGuard {
    pub uninterp spec fn held(&self) -> Option<ActorCell>;
    /// `(*guard).clone()` (R22): a copy of the pointer read under the lock (a clone of a cell is a handle to the same actor)
    #[verifier::external_body]
    pub fn vx_read_clone(&self) -> (r: Option<ActorCell>)
        ensures r is Some <==> self.held() is Some, r matches Some(c) ==> c@ == self.held()->Some_0@,
    { unimplemented!() }
}
} // verus!

pub mod vocab {
    use super::*;
    verus! {
    pub enum Effect {
        /// the event was offered to that actor's supervision port (contract of the real function: unit supsend)
        SupEvt(int),
    }
    pub enum Kind { SupEvt }
    pub open spec fn kind_of(e: Effect) -> Kind { Kind::SupEvt }
    }
}
pub use vocab::*;
// @include ../_common/effectlog.rs

#[verus_verify]
impl ActorCell {
    #[verus_verify(external_body)]
    #[verus_spec(r =>
        with Tracked(log): Tracked<&mut EffectLog>
        ensures final(log).s == old(log).s.push(Effect::SupEvt(self@)))]
    pub fn send_supervisor_evt(&self, evt: SupervisionEvent) -> Result<(), SendFail> { unimplemented!() }
}
