enum Solo {
    SetTarget(u64),
    #[rpc]
    Read(Vec<u8>, RpcReplyPort<u64>),
}
