// ---- unit outport: the default (v1) output port -- the per-subscriber forwarding task, subscribe, send ----
#![feature(proc_macro_hygiene)]
#![allow(unused, non_snake_case, non_camel_case_types, dead_code, unreachable_code)]
use vstd::prelude::*;
use verus_builtin_macros::{verus_spec, verus_verify, proof, proof_decl};
use vstd::std_specs::cmp::*;

verus! {
broadcast use effectlog::group_effectlog;
pub trait Message: Sized {}
pub trait OutputMessage: Message + Clone {}
/// tokio broadcast receiver of `Option<T>` (A-chan: every value published after the subscription is seen once, in publication
/// order, unless the receiver lags more than the buffer behind: then `Lagged` is reported once and later values follow in order)
#[verifier::external_body] #[verifier::reject_recursive_types(T)] pub struct BReceiver<T> { _p: core::marker::PhantomData<T> }
#[verifier::external_body] #[verifier::reject_recursive_types(T)] pub struct BSender<T> { _p: core::marker::PhantomData<T> }
pub enum RecvError { Closed, Lagged(u64) }
impl<T> BSender<T> {
    /// how many published values the channel retains for a receiver that is behind (tokio rounds the request UP to a power of two,
    /// so this is a lower bound of the real buffer)
    pub uninterp spec fn retains(&self) -> nat;
}
/// `tokio::sync::broadcast::channel(capacity)` (A-chan): a channel that retains at least `capacity` values per lagging receiver
#[verifier::external_body]
pub fn vx_broadcast_channel<T>(capacity: usize) -> (r: (BSender<T>, BReceiver<T>))
    requires capacity > 0
    ensures r.0.retains() >= capacity
{ unimplemented!() }
/// `RwLock::new(vec![])`
#[verifier::external_body]
pub fn vx_subs_lock_new(v: Vec<OutputPortSubscription>) -> SubsLock { unimplemented!() }
/// the buffer the module documentation promises: "limited to 10 messages successively sent for each subscribed actor"
pub spec const DOCUMENTED_BUFFER: nat = 10;
pub assume_specification [<ActorStatus as PartialEq>::eq] (a: &ActorStatus, b: &ActorStatus) -> (r: bool)
    ensures r == (*a == *b);
impl PartialEqSpecImpl for ActorStatus {
    open spec fn obeys_eq_spec() -> bool { true }
    open spec fn eq_spec(&self, b: &ActorStatus) -> bool { *self == *b }
}
/// A-std: slice `contains` (nothing about WHICH statuses are listed is needed here)
pub assume_specification<T: PartialEq> [<[T]>::contains] (v: &[T], x: &T) -> (r: bool);
#[verifier::external_body] #[verifier::reject_recursive_types(T)] pub struct JoinHandle<T> { _p: core::marker::PhantomData<T> }
#[verifier::external_body] #[verifier::reject_recursive_types(M)] pub struct ActorRef<M> { _p: core::marker::PhantomData<M> }
#[verifier::external_body] pub struct MessagingErr { _p: u8 }
#[verifier::external_body] pub struct SendErr { _p: u8 }
/// `RwLock<Vec<OutputPortSubscription>>`
#[verifier::external_body] pub struct SubsLock { _p: u8 }
pub struct VxLock<G> { pub v: G }
/// the write guard: `@` = the subscriptions it guards (A-lock)
pub struct SubsGuard { pub subs: Vec<OutputPortSubscription> }
} // verus!

pub mod vocab {
    use super::*;
    verus! {
    pub enum Effect {
        /// one poll of the broadcast receiver: 0 = a published message, 1 = the `None` sentinel, 2 = channel closed, 3 = lagged
        Recv(u8),
        /// a converted message was offered to the subscriber (did it take it)
        Forward(bool),
        /// the publisher handed a message to the broadcast channel
        Publish,
        /// a new receiver was attached to the broadcast channel
        Attach,
    }
    pub enum Kind { RecvMsg, RecvEnd, RecvLagged, ForwardTaken, ForwardRefused, Publish, Attach }
    pub open spec fn kind_of(e: Effect) -> Kind {
        match e {
            Effect::Recv(k) => if k == 0 { Kind::RecvMsg } else if k == 3 { Kind::RecvLagged } else { Kind::RecvEnd },
            Effect::Forward(t) => if t { Kind::ForwardTaken } else { Kind::ForwardRefused },
            Effect::Publish => Kind::Publish,
            Effect::Attach => Kind::Attach,
        }
    }
    }
}
pub use vocab::*;
// @include ../_common/effectlog.rs

verus! {
/// the task's last effect is what ended it: the port's end (None sentinel / channel closed) or a refused forward
pub open spec fn final_effect_is_the_reason(l: Seq<Effect>) -> bool {
    l.len() > 0 && (kind_of(l.last()) == Kind::RecvEnd || kind_of(l.last()) == Kind::ForwardRefused)
}
}
/// R7: `spawn(async move { E })` -- E evaluated where it is spawned
#[verus_verify(external_body)]
pub fn vx_spawn_value<T>(v: T) -> JoinHandle<T> { unimplemented!() }

#[verus_verify]
impl<T> BReceiver<T> {
    /// R7 (await erased): the next value of the broadcast channel
    #[verus_verify(external_body)]
    #[verus_spec(r =>
        with Tracked(log): Tracked<&mut EffectLog>
        ensures final(log).s == old(log).s.push(Effect::Recv(match r { Ok(Some(_)) => 0u8, Ok(None) => 1u8, Err(RecvError::Closed) => 2u8, Err(RecvError::Lagged(_)) => 3u8 })))]
    pub fn recv(&mut self) -> Result<Option<T>, RecvError> { unimplemented!() }
}
#[verus_verify]
impl<T> BSender<T> {
    #[verus_verify(external_body)]
    #[verus_spec(r =>
        with Tracked(log): Tracked<&mut EffectLog>
        ensures final(log).s == old(log).s.push(Effect::Attach))]
    pub fn subscribe(&self) -> BReceiver<T> { unimplemented!() }
    #[verus_verify(external_body)]
    pub fn receiver_count(&self) -> usize { unimplemented!() }
    /// never blocks (tokio broadcast `send` is synchronous)
    #[verus_verify(external_body)]
    #[verus_spec(r =>
        with Tracked(log): Tracked<&mut EffectLog>
        ensures final(log).s == old(log).s.push(Effect::Publish))]
    pub fn send(&self, v: Option<T>) -> Result<usize, SendErr> { unimplemented!() }
}
#[verus_verify]
impl<M> ActorRef<M> {
    /// the receiver's status, whatever it is: a subscription does not depend on it
    #[verus_verify(external_body)]
    pub fn get_status(&self) -> ActorStatus { unimplemented!() }
    #[verus_verify(external_body)]
    #[verus_spec(r =>
        with Tracked(log): Tracked<&mut EffectLog>
        ensures final(log).s == old(log).s.push(Effect::Forward(r is Ok)))]
    pub fn cast(&self, m: M) -> Result<(), MessagingErr> { unimplemented!() }
}
#[verus_verify]
impl<T> JoinHandle<T> {
    #[verus_verify(external_body)]
    pub fn is_finished(&self) -> bool { unimplemented!() }
}
#[verus_verify]
impl SubsLock {
    #[verus_verify(external_body)]
    pub fn write(&self) -> VxLock<SubsGuard> { unimplemented!() }
}
#[verus_verify]
impl<G> VxLock<G> {
    #[verus_verify(external_body)]
    #[verus_spec(r => ensures r == self.v)]
    pub fn unwrap(self) -> G { unimplemented!() }
}
#[verus_verify]
impl SubsGuard {
    /// `subs.retain(f)` (R22): keeps exactly the elements f accepts, in order
    #[verus_verify(external_body)]
    #[verus_spec(
        requires forall|x: &OutputPortSubscription| f.requires((x,))
        ensures final(self).subs@.len() <= old(self).subs@.len())]
    pub fn vx_retain<F: FnMut(&OutputPortSubscription) -> bool>(&mut self, f: F) { unimplemented!() }
    #[verus_verify(external_body)]
    #[verus_spec(ensures final(self).subs@ == old(self).subs@.push(s))]
    pub fn push(&mut self, s: OutputPortSubscription) { unimplemented!() }
}
