// ---- unit factory: prelude = shared factory vocabulary and stand-ins + the assumed contract of try_route_next_active_job ----
// @include ../_common/factory_base.rs
/// FactoryState::try_route_next_active_job is NOT under contract (closures borrowing `self.router` mutably, rejected by
/// Verus): trusted signature; it may route/reject queued jobs but does not touch the pool size, drain state or settings
#[verus_verify]
impl<TKey: JobKey, TMsg: Message, TRouter: Router<TKey, TMsg>, TQueue: Queue<TKey, TMsg>> FactoryState<TKey, TMsg, TRouter, TQueue> {
    #[verus_verify(external_body)]
    #[verus_spec(r =>
        with Tracked(log): Tracked<&mut EffectLog>
        ensures final(log).s == old(log).s.push(Effect::RouteNext(worker_hint)),
            final(self).pool_size == old(self).pool_size, final(self).drain_state == old(self).drain_state,
            final(self).router.notes() == old(self).router.notes(),
    )]
    pub fn try_route_next_active_job(&mut self, worker_hint: Option<WorkerId>) -> Result<(), ActorProcessingErr> { unimplemented!() }
}
