// ---- unit factory: prelude (FactoryState::dispatch / maybe_enqueue against abstract Router and Queue contracts) ----
#![feature(proc_macro_hygiene)]
#![allow(unused, non_snake_case, non_camel_case_types, dead_code, unreachable_code)]
use vstd::prelude::*;
use vstd::multiset::Multiset;
use verus_builtin_macros::{verus_spec, verus_verify, proof, proof_decl};
use vstd::std_specs::cmp::*;
use std::sync::Arc;

verus! {
broadcast use effectlog::group_effectlog;

pub type WorkerId = usize;
pub trait JobKey: Sized {
    fn clone(&self) -> (r: Self) ensures r == *self;
}
pub trait Message: Sized {}

#[verifier::external_body] pub struct Opaque { _p: u8 }
#[verifier::external_body] pub struct StatsStub { _p: u8 }
#[verifier::external_body] pub struct ActorProcessingErr { _p: u8 }
#[verifier::external_body] pub struct JobOptions { _p: u8 }
pub uninterp spec fn opts_expired(o: JobOptions) -> bool;
#[verifier::external_body] #[verifier::reject_recursive_types(K)] #[verifier::reject_recursive_types(M)]
pub struct ReplyPort<K, M> { _p: core::marker::PhantomData<(K, M)> }
#[verifier::external_body] #[verifier::reject_recursive_types(K)] #[verifier::reject_recursive_types(M)]
pub struct DiscardHandlerObj<K, M> { _p: core::marker::PhantomData<(K, M)> }

/// the worker pool as the factory sees it (R9 stand-in for HashMap<WorkerId, WorkerProperties>): `@` is the ghost history of
/// job identities the router handed to workers (per-worker bookkeeping is unit `worker`)
#[verifier::external_body] #[verifier::reject_recursive_types(K)] #[verifier::reject_recursive_types(M)]
pub struct Pool<K, M> { _p: core::marker::PhantomData<(K, M)> }
impl<K, M> View for Pool<K, M> { type V = Seq<int>; uninterp spec fn view(&self) -> Seq<int>; }

pub uninterp spec fn jid_of<K, M>(k: K, m: M) -> int;

/// A-std: derive(PartialEq) on the fieldless enum DrainState
pub assume_specification [<DrainState as PartialEq>::eq] (a: &DrainState, b: &DrainState) -> (r: bool)
    ensures r == (*a == *b);
impl PartialEqSpecImpl for DrainState {
    open spec fn obeys_eq_spec() -> bool { true }
    open spec fn eq_spec(&self, b: &DrainState) -> bool { *self == *b }
}
/// A-std: the reflexive `From` impl used by `?` is the identity
pub assume_specification<T> [<T as core::convert::From<T>>::from] (t: T) -> (r: T)
    ensures r == t;
} // verus!

pub mod vocab {
    use super::*;
    verus! {
    pub enum Effect {
        Discard(DiscardReason, int),
        Accepted,
        Rejected(int),
    }
    pub enum Kind { DiscardTtl, DiscardLoadshed, DiscardRateLimited, DiscardShutdown, Accepted, Rejected }
    pub open spec fn kind_of(e: Effect) -> Kind {
        match e {
            Effect::Discard(DiscardReason::TtlExpired, _) => Kind::DiscardTtl,
            Effect::Discard(DiscardReason::Loadshed, _) => Kind::DiscardLoadshed,
            Effect::Discard(DiscardReason::RateLimited, _) => Kind::DiscardRateLimited,
            Effect::Discard(DiscardReason::Shutdown, _) => Kind::DiscardShutdown,
            Effect::Accepted => Kind::Accepted,
            Effect::Rejected(_) => Kind::Rejected,
        }
    }
    }
}
pub use vocab::*;
// @include ../_common/effectlog.rs

verus! {
pub open spec fn jid<K: JobKey, M: Message>(j: Job<K, M>) -> int { jid_of(j.key, j.msg) }
pub open spec fn expired<K: JobKey, M: Message>(j: Job<K, M>) -> bool { opts_expired(j.options) }

/// R9 stand-in for the `Queue` trait (same method signatures) with a ghost view: the multiset of queued job identities.
/// These are the ASSUMED contracts of a queue implementation; unit `queues` proves them for the shipped DefaultQueue.
pub trait Queue<TKey: JobKey, TMsg: Message>: Sized {
    spec fn has(&self) -> Multiset<int>;
    spec fn discardable(&self, key: &TKey) -> bool;

    fn len(&self) -> (r: usize)
        ensures r == self.has().len();
    fn is_empty(&self) -> (r: bool)
        ensures r == (self.has().len() == 0);
    fn pop_front(&mut self) -> (r: Option<Job<TKey, TMsg>>)
        ensures
            old(self).has().len() == 0 ==> r is None && final(self).has() == old(self).has(),
            old(self).has().len() > 0 ==> (r matches Some(j) && old(self).has().contains(jid(j)) && final(self).has() == old(self).has().remove(jid(j))),
            forall|k: &TKey| final(self).discardable(k) == old(self).discardable(k);
    /// needed for termination of the shedding loop: a non-empty queue always gives one up
    fn discard_oldest(&mut self) -> (r: Option<Job<TKey, TMsg>>)
        ensures
            old(self).has().len() == 0 ==> r is None && final(self).has() == old(self).has(),
            old(self).has().len() > 0 ==> (r matches Some(j) && old(self).has().contains(jid(j)) && final(self).has() == old(self).has().remove(jid(j))),
            forall|k: &TKey| final(self).discardable(k) == old(self).discardable(k);
    fn peek(&self) -> (r: Option<&Job<TKey, TMsg>>)
        ensures
            r is None <==> self.has().len() == 0,
            r matches Some(j) ==> self.has().contains(jid(*j));
    fn push_back(&mut self, job: Job<TKey, TMsg>)
        ensures
            final(self).has() == old(self).has().insert(jid(job)),
            forall|k: &TKey| final(self).discardable(k) == old(self).discardable(k);
    fn is_job_discardable(&self, key: &TKey) -> (r: bool)
        ensures r == self.discardable(key);
}

/// R9 stand-in for the `Router` trait: ASSUMED contract of `route_message` (proved for RateLimitedRouter in unit ratelim-router)
pub trait Router<TKey: JobKey, TMsg: Message>: Sized {
    fn route_message(&mut self, job: Job<TKey, TMsg>, pool_size: usize, worker_hint: Option<WorkerId>, worker_pool: &mut Pool<TKey, TMsg>)
        -> (r: Result<RouteResult<TKey, TMsg>, ActorProcessingErr>)
        ensures
            // handed to exactly one worker, or given back unchanged (identity, expiry and acceptance port) with the pool untouched
            r matches Ok(RouteResult::Handled) ==> final(worker_pool)@ == old(worker_pool)@.push(jid(job)),
            r matches Ok(RouteResult::Backlog(j)) ==> final(worker_pool)@ == old(worker_pool)@ && jid(j) == jid(job) && j.accepted == job.accepted && j.options == job.options && j.key == job.key,
            r matches Ok(RouteResult::RateLimited(j)) ==> final(worker_pool)@ == old(worker_pool)@ && jid(j) == jid(job) && j.accepted == job.accepted && j.options == job.options && j.key == job.key,
            r is Err ==> final(worker_pool)@ == old(worker_pool)@;
}

pub open spec fn lam_of(s: DiscardSettings) -> Option<(usize, DiscardMode)> {
    match s {
        DiscardSettings::None => None,
        DiscardSettings::Static { limit, mode } => Some((limit, mode)),
        DiscardSettings::Dynamic { limit, mode, updater } => Some((limit, mode)),
    }
}
/// what telling the submitter / the discard handler about one refused job looks like, in order
pub open spec fn refusal(reason: DiscardReason, id: int, handler: bool, port: bool) -> Seq<Effect> {
    (if handler { seq![Effect::Discard(reason, id)] } else { Seq::<Effect>::empty() })
    + (if port { seq![Effect::Rejected(id)] } else { Seq::<Effect>::empty() })
}
pub open spec fn max_int(a: int, b: int) -> int { if a >= b { a } else { b } }
} // verus!

#[verus_verify]
impl<K: JobKey, M: Message> ReplyPort<K, M> {
    #[verus_verify(external_body)]
    #[verus_spec(r =>
        with Tracked(log): Tracked<&mut EffectLog>
        ensures final(log).s == old(log).s.push(match v { None => Effect::Accepted, Some(j) => Effect::Rejected(jid(j)) }),
    )]
    pub fn send(self, v: Option<Job<K, M>>) -> Result<(), ()> { unimplemented!() }
}

#[verus_verify]
impl<K: JobKey, M: Message> DiscardHandlerObj<K, M> {
    /// user callback; ASSUMED not to change the job's identity, options or acceptance port
    #[verus_verify(external_body)]
    #[verus_spec(
        with Tracked(log): Tracked<&mut EffectLog>
        ensures
            final(log).s == old(log).s.push(Effect::Discard(reason, jid(*old(job)))),
            jid(*final(job)) == jid(*old(job)), final(job).options == old(job).options, final(job).accepted == old(job).accepted,
    )]
    pub fn discard(&self, reason: DiscardReason, job: &mut Job<K, M>) { unimplemented!() }
}

#[verus_verify]
impl StatsStub {
    #[verus_verify(external_body)]
    pub fn job_ttl_expired(&self, f: &String, n: usize) { unimplemented!() }
    #[verus_verify(external_body)]
    pub fn job_discarded(&self, f: &String) { unimplemented!() }
    #[verus_verify(external_body)]
    pub fn job_rate_limited(&self, f: &String) { unimplemented!() }
    #[verus_verify(external_body)]
    pub fn new_job(&self, f: &String) { unimplemented!() }
}

#[verus_verify]
impl<TKey: JobKey, TMsg: Message> Job<TKey, TMsg> {
    #[verus_verify(external_body)]
    #[verus_spec(r => ensures r == expired(*self))]
    pub fn is_expired(&self) -> bool { unimplemented!() }
    /// stamps options.factory_time; ASSUMED not to affect identity, expiry or the acceptance port
    #[verus_verify(external_body)]
    #[verus_spec(ensures jid(*final(self)) == jid(*old(self)), final(self).key == old(self).key, final(self).accepted == old(self).accepted,
        expired(*final(self)) == expired(*old(self)))]
    pub fn set_factory_time(&mut self) { unimplemented!() }
}
