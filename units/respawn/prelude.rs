// ---- unit respawn: Factory::handle_supervisor_evt -- a dead worker is replaced in its slot ----
// @include ../_common/factory_base.rs

verus! {
/// `ActorRef<FactoryMessage<..>>` (the factory itself)
#[verifier::external_body] pub struct FactoryRef { _p: u8 }
#[verifier::external_body] pub struct ActorCell { _p: u8 }
impl View for ActorCell { type V = int; uninterp spec fn view(&self) -> int; }
#[verifier::external_body] pub struct BoxedState { _p: u8 }
#[verifier::external_body] pub struct SpawnErr { _p: u8 }
#[verifier::external_body] #[verifier::reject_recursive_types(T)] pub struct JoinHandle<T> { _p: core::marker::PhantomData<T> }
/// `Box<dyn WorkerBuilder<..>>`, the worker object and its start argument: opaque
#[verifier::external_body] pub struct BuilderBox { _p: u8 }
#[verifier::external_body] pub struct WorkerObj { _p: u8 }
#[verifier::external_body] pub struct StartArg { _p: u8 }
/// stand-in for `WorkerStartContext { wid, factory, custom_start }`
pub struct WorkerStartContext { pub wid: WorkerId, pub factory: FactoryRef, pub custom_start: StartArg }
/// the zero-sized Factory actor
pub struct Factory<TKey, TMsg, TRouter, TQueue> { pub _p: core::marker::PhantomData<(TKey, TMsg, TRouter, TQueue)> }
pub assume_specification<'a, T: Copy> [Option::<&'a T>::copied] (o: Option<&'a T>) -> (r: Option<T>)
    ensures r == (match o { Some(x) => Some(*x), None => None::<T> });
/// `?` on a SpawnErr inside a handler: boxed into an ActorProcessingErr
impl core::convert::From<SpawnErr> for ActorProcessingErr {
    #[verifier::external_body]
    fn from(e: SpawnErr) -> (r: Self) { unimplemented!() }
}
impl vstd::std_specs::convert::FromSpecImpl<SpawnErr> for ActorProcessingErr {
    open spec fn obeys_from_spec() -> bool { false }
    uninterp spec fn from_spec(v: SpawnErr) -> ActorProcessingErr;
}
}

#[verus_verify]
impl FactoryRef {
    #[verus_verify(external_body)]
    pub fn clone(&self) -> FactoryRef { unimplemented!() }
    #[verus_verify(external_body)]
    pub fn get_cell(&self) -> ActorCell { unimplemented!() }
}
#[verus_verify]
impl ActorCell {
    #[verus_verify(external_body)]
    #[verus_spec(r => ensures r@ == self@)]
    pub fn get_id(&self) -> ActorId { unimplemented!() }
}
#[verus_verify]
impl BuilderBox {
    #[verus_verify(external_body)]
    pub fn build(&mut self, wid: WorkerId) -> (WorkerObj, StartArg) { unimplemented!() }
}
/// `Actor::spawn_linked(None, worker, context, supervisor).await` (R7): a replacement worker actor for slot `spec.wid`, or a start-up error
#[verus_verify(external_body)]
#[verus_spec(r =>
    with Tracked(log): Tracked<&mut EffectLog>
    ensures final(log).s == old(log).s.push(Effect::SpawnWorker(spec.wid, r is Ok)))]
pub fn vx_spawn_linked<K: JobKey, M: Message>(name: Option<String>, w: WorkerObj, spec: WorkerStartContext, sup: ActorCell) -> Result<(WorkerRef<K, M>, JoinHandle<()>), SpawnErr> { unimplemented!() }

#[verus_verify]
impl<K: JobKey, M: Message> WorkerProperties<K, M> {
    /// contract of the real function: unit worker (the slot keeps its queue; what was in flight is abandoned)
    #[verus_verify(external_body)]
    #[verus_spec(r =>
        with Tracked(log): Tracked<&mut EffectLog>
        ensures final(log).s == old(log).s.push(Effect::ReplaceWorker(old(self).wid, nworker.aid())),
            final(self).wid == old(self).wid, final(self).is_draining == old(self).is_draining, r is Ok ==> final(self).actor.aid() == nworker.aid())]
    pub fn replace_worker(&mut self, nworker: WorkerRef<K, M>, handle: JoinHandle<()>) -> Result<(), ActorProcessingErr> { unimplemented!() }
    #[verus_verify(external_body)]
    #[verus_spec(r => ensures final(self).wid == old(self).wid, final(self).actor == old(self).actor, final(self).is_draining == old(self).is_draining)]
    pub fn send_factory_ping(&mut self) -> Result<(), ()> { unimplemented!() }
}
#[verus_verify]
impl ActorIndex {
    #[verus_verify(external_body)]
    pub fn get(&self, k: &ActorId) -> Option<&WorkerId> { unimplemented!() }
    #[verus_verify(external_body)]
    #[verus_spec(r =>
        with Tracked(log): Tracked<&mut EffectLog>
        ensures final(log).s == old(log).s.push(Effect::IndexInsert(k@, v)))]
    pub fn insert(&mut self, k: ActorId, v: WorkerId) -> Option<WorkerId> { unimplemented!() }
}
/// assumed contract of try_route_next_active_job (proved in unit routenext): nothing it does touches the pool's key set or the index
#[verus_verify]
impl<TKey: JobKey, TMsg: Message, TRouter: Router<TKey, TMsg>, TQueue: Queue<TKey, TMsg>> FactoryState<TKey, TMsg, TRouter, TQueue> {
    #[verus_verify(external_body)]
    #[verus_spec(r =>
        with Tracked(log): Tracked<&mut EffectLog>
        ensures final(log).s == old(log).s.push(Effect::RouteNext(worker_hint)),
            final(self).pool_size == old(self).pool_size, final(self).drain_state == old(self).drain_state,
            final(self).router.notes() == old(self).router.notes(),
    )]
    pub fn try_route_next_active_job(&mut self, worker_hint: Option<WorkerId>) -> Result<(), ActorProcessingErr> { unimplemented!() }
}
