// ---- unit factory: prelude (FactoryState::dispatch / maybe_enqueue against abstract Router and Queue contracts) ----
#![feature(proc_macro_hygiene)]
#![allow(unused, non_snake_case, non_camel_case_types, dead_code, unreachable_code)]
use vstd::prelude::*;
use vstd::multiset::Multiset;
use verus_builtin_macros::{verus_spec, verus_verify, proof, proof_decl};
use vstd::std_specs::cmp::*;
use std::sync::Arc;

verus! {
broadcast use effectlog::group_effectlog;

pub type WorkerId = usize;
pub trait JobKey: Sized {
    fn clone(&self) -> (r: Self) ensures r == *self;
}
pub trait Message: Sized {}

#[verifier::external_body] pub struct Opaque { _p: u8 }
#[verifier::external_body] pub struct StatsStub { _p: u8 }
#[verifier::external_body] pub struct ActorProcessingErr { _p: u8 }
#[verifier::external_body] pub struct JobOptions { _p: u8 }
#[verifier::external_body] pub struct MessagingErr { _p: u8 }
impl From<Box<MessagingErr>> for ActorProcessingErr {
    #[verifier::external_body]
    fn from(e: Box<MessagingErr>) -> ActorProcessingErr { unimplemented!() }
}
pub uninterp spec fn opts_expired(o: JobOptions) -> bool;
#[verifier::external_body] #[verifier::reject_recursive_types(K)] #[verifier::reject_recursive_types(M)]
pub struct ReplyPort<K, M> { _p: core::marker::PhantomData<(K, M)> }
#[verifier::external_body] #[verifier::reject_recursive_types(K)] #[verifier::reject_recursive_types(M)]
pub struct DiscardHandlerObj<K, M> { _p: core::marker::PhantomData<(K, M)> }

/// the worker pool as the factory sees it (R9 stand-in for HashMap<WorkerId, WorkerProperties>): `@` is the ghost history of
/// job identities the router handed to workers (per-worker bookkeeping is unit `worker`)
#[verifier::external_body] #[verifier::reject_recursive_types(K)] #[verifier::reject_recursive_types(M)]
pub struct Pool<K, M> { _p: core::marker::PhantomData<(K, M)> }
impl<K, M> View for Pool<K, M> { type V = Seq<int>; uninterp spec fn view(&self) -> Seq<int>; }

pub uninterp spec fn jid_of<K, M>(k: K, m: M) -> int;

// ---- per-worker record as the factory sees it (contracts of its methods: unit worker) ----
#[verifier::external_body] pub struct ActorId { _p: u8 }
impl View for ActorId { type V = int; uninterp spec fn view(&self) -> int; }
#[verifier::external_body] #[verifier::reject_recursive_types(K)] #[verifier::reject_recursive_types(M)]
pub struct WorkerRef<K, M> { _p: core::marker::PhantomData<(K, M)> }
impl<K, M> WorkerRef<K, M> {
    pub uninterp spec fn aid(&self) -> int;
    #[verifier::external_body]
    pub fn get_id(&self) -> (r: ActorId) ensures r@ == self.aid() { unimplemented!() }
}
#[verifier::reject_recursive_types(K)] #[verifier::reject_recursive_types(M)]
pub struct WorkerProperties<K, M> { pub wid: WorkerId, pub actor: WorkerRef<K, M>, pub is_draining: bool, pub ghost working: bool }
#[verifier::external_body] pub struct ActorIndex { _p: u8 }
#[verifier::external_body] #[verifier::reject_recursive_types(K)] #[verifier::reject_recursive_types(M)]
pub struct OccupiedEntry<'a, K, M> { _p: core::marker::PhantomData<&'a (K, M)> }
#[verifier::external_body] #[verifier::reject_recursive_types(K)] #[verifier::reject_recursive_types(M)]
pub struct VacantEntry<'a, K, M> { _p: core::marker::PhantomData<&'a (K, M)> }
#[verifier::reject_recursive_types(K)] #[verifier::reject_recursive_types(M)]
pub enum PoolEntry<'a, K, M> { Occupied(OccupiedEntry<'a, K, M>), Vacant(VacantEntry<'a, K, M>) }
#[verifier::external_body] #[verifier::reject_recursive_types(K)] #[verifier::reject_recursive_types(M)]
pub struct PoolValues<'a, K, M> { _p: core::marker::PhantomData<&'a (K, M)> }
impl<'a, K, M> OccupiedEntry<'a, K, M> {
    pub uninterp spec fn wid(&self) -> usize;
    pub uninterp spec fn aid(&self) -> int;
    pub uninterp spec fn working(&self) -> bool;
}
impl<K, M> Pool<K, M> {
    /// every worker record in the pool is available (idle, empty queue)
    pub uninterp spec fn all_available(&self) -> bool;
    pub uninterp spec fn has(&self, w: WorkerId) -> bool;
    /// the record stored under `w` is marked draining (scheduled for removal by a shrink)
    pub uninterp spec fn draining(&self, w: WorkerId) -> bool;
}
impl<'a, K, M> PoolValues<'a, K, M> {
    pub uninterp spec fn pool_all_available(&self) -> bool;
    /// A-std: Iterator::all over the values; the predicate must be "is this worker available"
    #[verifier::external_body]
    pub fn all<F: FnMut(&'a WorkerProperties<K, M>) -> bool>(&mut self, f: F) -> (r: bool)
        requires
            forall|w: &'a WorkerProperties<K, M>| f.requires((w,)),
            forall|w: &'a WorkerProperties<K, M>, b: bool| f.ensures((w,), b) ==> b == !w.working,
        ensures r == old(self).pool_all_available(),
    { unimplemented!() }
}

/// `values().filter(p)`: some of the records; nothing is promised about which (so a caller that needs ALL records cannot use it)
#[verifier::external_body] #[verifier::reject_recursive_types(K)] #[verifier::reject_recursive_types(M)]
pub struct PoolValuesFiltered<'a, K, M> { _p: core::marker::PhantomData<&'a (K, M)> }
impl<'a, K, M> PoolValues<'a, K, M> {
    #[verifier::external_body]
    pub fn filter<P: FnMut(&&'a WorkerProperties<K, M>) -> bool>(self, p: P) -> (r: PoolValuesFiltered<'a, K, M>)
        requires forall|w: &&'a WorkerProperties<K, M>| p.requires((w,)),
    { unimplemented!() }
}
impl<'a, K, M> PoolValuesFiltered<'a, K, M> {
    #[verifier::external_body]
    pub fn all<F: FnMut(&'a WorkerProperties<K, M>) -> bool>(&mut self, f: F) -> (r: bool)
        requires forall|w: &'a WorkerProperties<K, M>| f.requires((w,)),
    { unimplemented!() }
}
/// `Option::is_some_and` (std): None => false, Some(x) => f(x)
pub assume_specification<T, F: FnOnce(T) -> bool>[ Option::<T>::is_some_and ](o: Option<T>, f: F) -> (r: bool)
    requires o matches Some(x) ==> f.requires((x,)),
    ensures o is None ==> !r, o matches Some(x) ==> f.ensures((x,), r);
/// A-std: derive(PartialEq) on the fieldless enum DrainState
pub assume_specification [<DrainState as PartialEq>::eq] (a: &DrainState, b: &DrainState) -> (r: bool)
    ensures r == (*a == *b);
impl PartialEqSpecImpl for DrainState {
    open spec fn obeys_eq_spec() -> bool { true }
    open spec fn eq_spec(&self, b: &DrainState) -> bool { *self == *b }
}
/// A-std: the reflexive `From` impl used by `?` is the identity
pub assume_specification<T> [<T as core::convert::From<T>>::from] (t: T) -> (r: T)
    ensures r == t;
} // verus!

pub mod vocab {
    use super::*;
    verus! {
    pub enum Effect {
        Discard(DiscardReason, int),
        Accepted,
        Rejected(int),
        /// WorkerProperties::worker_complete(key) on worker `wid` (contract: unit worker)
        WorkerComplete(usize),
        /// the worker record `wid` (whose actor has id `a`) was taken out of the pool map
        PoolRemove(usize, int),
        /// the actor id `a` was taken out of the actor -> worker index
        IndexRemove(int),
        /// the worker actor with id `a` was told to stop
        StopActor(int),
        /// worker `wid` was marked draining / not draining
        SetDraining(usize, bool),
        /// the router was told that worker `wid` is (un)available
        RouterAvail(usize, bool),
        /// try_route_next_active_job(hint)
        RouteNext(Option<usize>),
        /// a statistics callback recorded that job `id` was refused for `reason`; the flag says whether the job still carried its
        /// acceptance port (ghost arguments supplied at the call site, unit routenext)
        Stat(DiscardReason, int, bool),
        /// a replacement worker actor was spawned for slot `wid` (did the start-up succeed) -- unit respawn
        SpawnWorker(usize, bool),
        /// WorkerProperties::replace_worker on slot `wid`: the new worker actor `a` takes the slot over (contract: unit worker)
        ReplaceWorker(usize, int),
        /// actor id `a` now maps to worker `wid` in the actor -> worker index
        IndexInsert(int, usize),
    }
    pub enum Kind { DiscardTtl, DiscardLoadshed, DiscardRateLimited, DiscardShutdown, Accepted, Rejected, WorkerComplete, PoolRemove, IndexRemove, StopActor, SetDraining, RouterAvail, RouteNext, StatPort, StatNoPort, SpawnWorker, ReplaceWorker, IndexInsert }
    pub open spec fn kind_of(e: Effect) -> Kind {
        match e {
            Effect::Discard(DiscardReason::TtlExpired, _) => Kind::DiscardTtl,
            Effect::Discard(DiscardReason::Loadshed, _) => Kind::DiscardLoadshed,
            Effect::Discard(DiscardReason::RateLimited, _) => Kind::DiscardRateLimited,
            Effect::Discard(DiscardReason::Shutdown, _) => Kind::DiscardShutdown,
            Effect::Accepted => Kind::Accepted,
            Effect::Rejected(_) => Kind::Rejected,
            Effect::WorkerComplete(_) => Kind::WorkerComplete,
            Effect::PoolRemove(_, _) => Kind::PoolRemove,
            Effect::IndexRemove(_) => Kind::IndexRemove,
            Effect::StopActor(_) => Kind::StopActor,
            Effect::SetDraining(_, _) => Kind::SetDraining,
            Effect::RouterAvail(_, _) => Kind::RouterAvail,
            Effect::RouteNext(_) => Kind::RouteNext,
            Effect::Stat(_, _, p) => if p { Kind::StatPort } else { Kind::StatNoPort },
            Effect::SpawnWorker(_, _) => Kind::SpawnWorker,
            Effect::ReplaceWorker(_, _) => Kind::ReplaceWorker,
            Effect::IndexInsert(_, _) => Kind::IndexInsert,
        }
    }
    }
}
pub use vocab::*;
// @include ../_common/effectlog.rs

verus! {
pub open spec fn jid<K: JobKey, M: Message>(j: Job<K, M>) -> int { jid_of(j.key, j.msg) }
pub open spec fn expired<K: JobKey, M: Message>(j: Job<K, M>) -> bool { opts_expired(j.options) }

/// R9 stand-in for the `Queue` trait (same method signatures) with a ghost view: the multiset of queued job identities.
/// These are the ASSUMED contracts of a queue implementation; unit `queues` proves them for the shipped DefaultQueue.
pub trait Queue<TKey: JobKey, TMsg: Message>: Sized {
    spec fn has(&self) -> Multiset<int>;
    spec fn discardable(&self, key: &TKey) -> bool;
    /// the job at the head (meaningful when the queue is not empty): what `peek` shows is what `pop_front` gives up
    /// (unit queues: peeks_a_queued_job / nonempty_gives_up_the_head, both `== q@[0]`)
    spec fn front(&self) -> Job<TKey, TMsg>;

    fn len(&self) -> (r: usize)
        ensures r == self.has().len();
    fn is_empty(&self) -> (r: bool)
        ensures r == (self.has().len() == 0);
    fn pop_front(&mut self) -> (r: Option<Job<TKey, TMsg>>)
        ensures
            old(self).has().len() == 0 ==> r is None && final(self).has() == old(self).has(),
            old(self).has().len() > 0 ==> (r matches Some(j) && old(self).has().contains(jid(j)) && final(self).has() == old(self).has().remove(jid(j))
                && j == old(self).front()),
            forall|k: &TKey| final(self).discardable(k) == old(self).discardable(k);
    /// needed for termination of the shedding loop: a non-empty queue always gives one up
    fn discard_oldest(&mut self) -> (r: Option<Job<TKey, TMsg>>)
        ensures
            old(self).has().len() == 0 ==> r is None && final(self).has() == old(self).has(),
            old(self).has().len() > 0 ==> (r matches Some(j) && old(self).has().contains(jid(j)) && final(self).has() == old(self).has().remove(jid(j))),
            forall|k: &TKey| final(self).discardable(k) == old(self).discardable(k);
    fn peek(&self) -> (r: Option<&Job<TKey, TMsg>>)
        ensures
            r is None <==> self.has().len() == 0,
            r matches Some(j) ==> self.has().contains(jid(*j)) && *j == self.front();
    fn push_back(&mut self, job: Job<TKey, TMsg>)
        ensures
            final(self).has() == old(self).has().insert(jid(job)),
            forall|k: &TKey| final(self).discardable(k) == old(self).discardable(k);
    fn is_job_discardable(&self, key: &TKey) -> (r: bool)
        ensures r == self.discardable(key);
}

/// R9 stand-in for the `Router` trait: ASSUMED contract of `route_message` (proved for RateLimitedRouter in unit ratelim-router)
pub trait Router<TKey: JobKey, TMsg: Message>: Sized {
    /// ghost history of availability notifications the router received
    spec fn notes(&self) -> Seq<(WorkerId, bool)>;
    fn on_worker_availability_change(&mut self, wid: WorkerId, available: bool)
        ensures final(self).notes() == old(self).notes().push((wid, available));
    /// A-router-promise (trait documentation of `choose_target_worker`: "It is assumed that if this returns Some(WorkerId), then
    /// the job is guaranteed to be routed"): the router has promised worker `w` for job `id`
    spec fn promised(&self, id: int, w: WorkerId) -> bool;
    fn choose_target_worker(&mut self, job: &Job<TKey, TMsg>, pool_size: usize, worker_hint: Option<WorkerId>, worker_pool: &Pool<TKey, TMsg>)
        -> (r: Option<WorkerId>)
        ensures
            r matches Some(w) ==> final(self).promised(jid(*job), w),
            final(self).notes() == old(self).notes();
    fn route_message(&mut self, job: Job<TKey, TMsg>, pool_size: usize, worker_hint: Option<WorkerId>, worker_pool: &mut Pool<TKey, TMsg>)
        -> (r: Result<RouteResult<TKey, TMsg>, ActorProcessingErr>)
        ensures
            (worker_hint matches Some(w) && old(self).promised(jid(job), w)) ==> !(r matches Ok(RouteResult::Backlog(_))),
            // handed to exactly one worker, or given back unchanged (identity, expiry and acceptance port) with the pool untouched
            r matches Ok(RouteResult::Handled) ==> final(worker_pool)@ == old(worker_pool)@.push(jid(job)),
            r matches Ok(RouteResult::Backlog(j)) ==> final(worker_pool)@ == old(worker_pool)@ && jid(j) == jid(job) && j.accepted == job.accepted && j.options == job.options && j.key == job.key,
            r matches Ok(RouteResult::RateLimited(j)) ==> final(worker_pool)@ == old(worker_pool)@ && jid(j) == jid(job) && j.accepted == job.accepted && j.options == job.options && j.key == job.key,
            r is Err ==> final(worker_pool)@ == old(worker_pool)@,
            final(self).notes() == old(self).notes();
}

pub open spec fn lam_of(s: DiscardSettings) -> Option<(usize, DiscardMode)> {
    match s {
        DiscardSettings::None => None,
        DiscardSettings::Static { limit, mode } => Some((limit, mode)),
        DiscardSettings::Dynamic { limit, mode, updater } => Some((limit, mode)),
    }
}
/// what telling the submitter / the discard handler about one refused job looks like, in order
pub open spec fn refusal(reason: DiscardReason, id: int, handler: bool, port: bool) -> Seq<Effect> {
    (if handler { seq![Effect::Discard(reason, id)] } else { Seq::<Effect>::empty() })
    + (if port { seq![Effect::Rejected(id)] } else { Seq::<Effect>::empty() })
}
/// every pool-changing effect added after `a` concerns a worker id in [lo, hi)
pub open spec fn only_wids_in(a: Seq<Effect>, b: Seq<Effect>, lo: int, hi: int) -> bool {
    forall|i: int| a.len() <= i < b.len() ==> (match #[trigger] b[i] {
        Effect::PoolRemove(w, _) => lo <= w < hi,
        Effect::SetDraining(w, _) => lo <= w < hi,
        _ => true,
    })
}
pub open spec fn max_int(a: int, b: int) -> int { if a >= b { a } else { b } }
} // verus!

#[verus_verify]
impl<K: JobKey, M: Message> ReplyPort<K, M> {
    #[verus_verify(external_body)]
    #[verus_spec(r =>
        with Tracked(log): Tracked<&mut EffectLog>
        ensures final(log).s == old(log).s.push(match v { None => Effect::Accepted, Some(j) => Effect::Rejected(jid(j)) }),
    )]
    pub fn send(self, v: Option<Job<K, M>>) -> Result<(), ()> { unimplemented!() }
}

#[verus_verify]
impl<K: JobKey, M: Message> DiscardHandlerObj<K, M> {
    /// user callback; ASSUMED not to change the job's identity, options or acceptance port
    #[verus_verify(external_body)]
    #[verus_spec(
        with Tracked(log): Tracked<&mut EffectLog>
        ensures
            final(log).s == old(log).s.push(Effect::Discard(reason, jid(*old(job)))),
            jid(*final(job)) == jid(*old(job)), final(job).options == old(job).options, final(job).accepted == old(job).accepted,
    )]
    pub fn discard(&self, reason: DiscardReason, job: &mut Job<K, M>) { unimplemented!() }
}

#[verus_verify]
impl StatsStub {
    #[verus_verify(external_body)]
    pub fn job_ttl_expired(&self, f: &String, n: usize) { unimplemented!() }
    #[verus_verify(external_body)]
    pub fn job_discarded(&self, f: &String) { unimplemented!() }
    #[verus_verify(external_body)]
    pub fn job_rate_limited(&self, f: &String) { unimplemented!() }
    #[verus_verify(external_body)]
    pub fn new_job(&self, f: &String) { unimplemented!() }
    #[verus_verify(external_body)]
    pub fn job_completed(&self, f: &String, o: &JobOptions) { unimplemented!() }
}

#[verus_verify]
impl<TKey: JobKey, TMsg: Message> Job<TKey, TMsg> {
    #[verus_verify(external_body)]
    #[verus_spec(r => ensures r == expired(*self))]
    pub fn is_expired(&self) -> bool { unimplemented!() }
    /// stamps options.factory_time; ASSUMED not to affect identity, expiry or the acceptance port
    #[verus_verify(external_body)]
    #[verus_spec(ensures jid(*final(self)) == jid(*old(self)), final(self).key == old(self).key, final(self).accepted == old(self).accepted,
        expired(*final(self)) == expired(*old(self)))]
    pub fn set_factory_time(&mut self) { unimplemented!() }
}

#[verus_verify]
impl<K: JobKey, M: Message> WorkerProperties<K, M> {
    /// contract proved in unit worker (stale completion changes nothing; next job comes from the queue front)
    #[verus_verify(external_body)]
    #[verus_spec(r =>
        with Tracked(log): Tracked<&mut EffectLog>
        ensures final(log).s == old(log).s.push(Effect::WorkerComplete(old(self).wid)), final(self).wid == old(self).wid,
            final(self).actor == old(self).actor, final(self).is_draining == old(self).is_draining,
    )]
    pub fn worker_complete(&mut self, key: K) -> Result<Option<JobOptions>, Box<MessagingErr>> { unimplemented!() }
    #[verus_verify(external_body)]
    #[verus_spec(r => ensures r == self.working)]
    pub fn is_working(&self) -> bool { unimplemented!() }
    /// how many jobs wait in the worker's own queue (a queued job makes the worker busy; a job in flight does so without being queued)
    #[verus_verify(external_body)]
    #[verus_spec(r => ensures r > 0 ==> self.working)]
    pub fn queued_job_count(&self) -> usize { unimplemented!() }
    #[verus_verify(external_body)]
    #[verus_spec(r => ensures r > 0 ==> self.working)]
    pub fn active_job_count(&self) -> usize { unimplemented!() }
    #[verus_verify(external_body)]
    #[verus_spec(r => ensures r == !self.working)]
    pub fn is_available(&self) -> bool { unimplemented!() }
    #[verus_verify(external_body)]
    #[verus_spec(
        with Tracked(log): Tracked<&mut EffectLog>
        ensures final(log).s == old(log).s.push(Effect::SetDraining(old(self).wid, d)), final(self).is_draining == d,
            final(self).wid == old(self).wid, final(self).actor == old(self).actor, final(self).working == old(self).working,
    )]
    pub fn set_draining(&mut self, d: bool) { unimplemented!() }
}
#[verus_verify]
impl<K: JobKey, M: Message> WorkerRef<K, M> {
    #[verus_verify(external_body)]
    #[verus_spec(
        with Tracked(log): Tracked<&mut EffectLog>
        ensures final(log).s == old(log).s.push(Effect::StopActor(self.aid())),
    )]
    pub fn stop(&self, reason: Option<String>) { unimplemented!() }
}
#[verus_verify]
impl ActorIndex {
    #[verus_verify(external_body)]
    #[verus_spec(r =>
        with Tracked(log): Tracked<&mut EffectLog>
        ensures final(log).s == old(log).s.push(Effect::IndexRemove(k@)),
    )]
    pub fn remove(&mut self, k: &ActorId) -> Option<WorkerId> { unimplemented!() }
}
#[verus_verify]
impl<K: JobKey, M: Message> Pool<K, M> {
    /// A-std (HashMap::get_mut): the record stored under `k`, if any; its `wid` field is its key
    #[verus_verify(external_body)]
    #[verus_spec(r => ensures r is Some <==> old(self).has(*k), r matches Some(w) ==> w.wid == *k && w.is_draining == old(self).draining(*k), final(self)@ == old(self)@)]
    pub fn get_mut(&mut self, k: &WorkerId) -> Option<&mut WorkerProperties<K, M>> { unimplemented!() }
    #[verus_verify(external_body)]
    #[verus_spec(r => ensures r matches Some(w) ==> w.wid == *k)]
    pub fn get(&self, k: &WorkerId) -> Option<&WorkerProperties<K, M>> { unimplemented!() }
    #[verus_verify(external_body)]
    #[verus_spec(r =>
        with Tracked(log): Tracked<&mut EffectLog>
        ensures
            r matches Some(w) ==> w.wid == *k && final(log).s == old(log).s.push(Effect::PoolRemove(*k, w.actor.aid())),
            r is None ==> final(log).s == old(log).s,
            final(self)@ == old(self)@,
    )]
    pub fn remove(&mut self, k: &WorkerId) -> Option<WorkerProperties<K, M>> { unimplemented!() }
    #[verus_verify(external_body)]
    #[verus_spec(r => ensures r matches PoolEntry::Occupied(o) ==> o.wid() == k, final(self)@ == old(self)@)]
    pub fn entry(&mut self, k: WorkerId) -> PoolEntry<'_, K, M> { unimplemented!() }
    #[verus_verify(external_body)]
    #[verus_spec(r => ensures r.pool_all_available() == self.all_available())]
    pub fn values(&self) -> PoolValues<'_, K, M> { unimplemented!() }
}
#[verus_verify]
impl<'a, K: JobKey, M: Message> OccupiedEntry<'a, K, M> {
    #[verus_verify(external_body)]
    #[verus_spec(r => ensures r.wid == old(self).wid(), r.actor.aid() == old(self).aid(), r.working == old(self).working(), final(self).wid() == old(self).wid(), final(self).aid() == old(self).aid(),
        final(self).working() == old(self).working())]
    pub fn get_mut(&mut self) -> &mut WorkerProperties<K, M> { unimplemented!() }
    #[verus_verify(external_body)]
    #[verus_spec(r =>
        with Tracked(log): Tracked<&mut EffectLog>
        // GUARD (C13/C14): a pool slot is dropped through its entry only when the worker is idle -- a worker with a job in flight or
        // queued stays in the pool (marked draining) until its last job has come back, so its bookkeeping (which keys it is busy
        // with, whose replies it owes) is not lost
        requires !self.working()
        ensures r.wid == self.wid(), r.actor.aid() == self.aid(), final(log).s == old(log).s.push(Effect::PoolRemove(self.wid(), self.aid())),
    )]
    pub fn remove(self) -> WorkerProperties<K, M> { unimplemented!() }
}


/// `drop(x)`: releases the value; no effect any contract here speaks about
#[verus_verify(external_body)]
pub fn vx_drop<T>(t: T) { }
