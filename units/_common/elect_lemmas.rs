// ---- lemmas over the specification function: what C18 asks of the election, derived from elect_spec ----
verus! {
pub mod election_lemmas {
use super::*;

// ----- generic facts about Seq::filter -----
pub proof fn lemma_filter_basic<A>(s: Seq<A>, p: spec_fn(A) -> bool)
    ensures
        forall|x: A| #[trigger] s.filter(p).contains(x) <==> s.contains(x) && p(x),
        s.filter(p).len() <= s.len(),
        (forall|i: int| 0 <= i < s.len() ==> p(#[trigger] s[i])) ==> s.filter(p) == s,
    decreases s.len(),
{
    reveal(Seq::filter);
    if s.len() > 0 {
        let init = s.drop_last();
        lemma_filter_basic(init, p);
        let f = s.filter(p);
        assert forall|x: A| #[trigger] f.contains(x) <==> s.contains(x) && p(x) by {
            if f.contains(x) {
                let i = choose|i: int| 0 <= i < f.len() && f[i] == x;
                if p(s.last()) && i == f.len() - 1 { assert(s[s.len() - 1] == x); }
                else { assert(init.filter(p)[i] == x); assert(init.filter(p).contains(x)); let k = choose|k: int| 0 <= k < init.len() && init[k] == x; assert(s[k] == x); }
            }
            if s.contains(x) && p(x) {
                let k = choose|k: int| 0 <= k < s.len() && s[k] == x;
                if k == s.len() - 1 { assert(f[f.len() - 1] == x); }
                else { assert(init[k] == x); assert(init.filter(p).contains(x)); let i = choose|i: int| 0 <= i < init.filter(p).len() && init.filter(p)[i] == x; assert(f[i] == x); }
            }
        }
        if forall|i: int| 0 <= i < s.len() ==> p(#[trigger] s[i]) {
            assert forall|i: int| 0 <= i < init.len() implies p(#[trigger] init[i]) by { assert(init[i] == s[i]); }
            assert(p(s[s.len() - 1]));
            assert(f =~= s);
        }
    }
}

/// filtering two sequences position by position with predicates that agree position by position keeps them related position by position
pub proof fn lemma_filter_zip<A>(s: Seq<A>, t: Seq<A>, p: spec_fn(A) -> bool, q: spec_fn(A) -> bool, rel: spec_fn(A, A) -> bool)
    requires s.len() == t.len(), forall|i: int| 0 <= i < s.len() ==> p(#[trigger] s[i]) == q(t[i]) && rel(s[i], t[i]),
    ensures s.filter(p).len() == t.filter(q).len(), forall|i: int| 0 <= i < s.filter(p).len() ==> rel(#[trigger] s.filter(p)[i], t.filter(q)[i]),
    decreases s.len(),
{
    reveal(Seq::filter);
    if s.len() > 0 {
        assert forall|i: int| 0 <= i < s.drop_last().len() implies p(#[trigger] s.drop_last()[i]) == q(t.drop_last()[i]) && rel(s.drop_last()[i], t.drop_last()[i]) by {
            assert(s.drop_last()[i] == s[i] && t.drop_last()[i] == t[i]);
        }
        lemma_filter_zip(s.drop_last(), t.drop_last(), p, q, rel);
        assert(p(s[s.len() - 1]) == q(t[s.len() - 1]) && rel(s[s.len() - 1], t[s.len() - 1]));
    }
}
/// keys that are pairwise distinct stay pairwise distinct in a filtered sequence
pub open spec fn distinct_by<A, K>(s: Seq<A>, key: spec_fn(A) -> K) -> bool {
    forall|i: int, j: int| 0 <= i < j < s.len() ==> key(s[i]) != key(s[j])
}
pub proof fn lemma_filter_distinct<A, K>(s: Seq<A>, p: spec_fn(A) -> bool, key: spec_fn(A) -> K)
    requires distinct_by(s, key),
    ensures distinct_by(s.filter(p), key),
    decreases s.len(),
{
    reveal(Seq::filter);
    if s.len() > 0 {
        let init = s.drop_last();
        assert forall|i: int, j: int| 0 <= i < j < init.len() implies key(init[i]) != key(init[j]) by { assert(init[i] == s[i] && init[j] == s[j]); }
        lemma_filter_distinct(init, p, key);
        lemma_filter_basic(init, p);
        let f = s.filter(p);
        assert forall|i: int, j: int| 0 <= i < j < f.len() implies key(f[i]) != key(f[j]) by {
            if p(s.last()) && j == f.len() - 1 {
                assert(init.filter(p)[i] == f[i]);
                assert(init.filter(p).contains(f[i]));
                let k = choose|k: int| 0 <= k < init.len() && init[k] == f[i];
                assert(s[k] == f[i] && s[s.len() - 1] == f[j]);
            } else {
                assert(init.filter(p)[i] == f[i] && init.filter(p)[j] == f[j]);
            }
        }
    }
}
/// a predicate that picks one key value keeps at most one element of a sequence with distinct keys
pub proof fn lemma_filter_unique<A, K>(s: Seq<A>, p: spec_fn(A) -> bool, key: spec_fn(A) -> K, k: K)
    requires distinct_by(s, key), forall|x: A| #[trigger] p(x) ==> key(x) == k,
    ensures s.filter(p).len() <= 1,
{
    lemma_filter_distinct(s, p, key);
    lemma_filter_basic(s, p);
    let f = s.filter(p);
    if f.len() > 1 {
        assert(f.contains(f[0]) && f.contains(f[1]));
        assert(key(f[0]) == k && key(f[1]) == k);
    }
}
// ----- the minima -----
pub proof fn lemma_opt_min(ns: Seq<Option<Nonce>>)
    ensures
        opt_min(ns) is None <==> (forall|i: int| 0 <= i < ns.len() ==> #[trigger] ns[i] is None),
        opt_min(ns) is Some ==> ns.contains(opt_min(ns)) && (forall|i: int| 0 <= i < ns.len() && #[trigger] ns[i] is Some ==> opt_min(ns).unwrap().v <= ns[i].unwrap().v),
    decreases ns.len(),
{
    if ns.len() > 0 {
        let init = ns.drop_last();
        lemma_opt_min(init);
        assert forall|i: int| 0 <= i < init.len() implies init[i] == ns[i] by {}
        let m = opt_min(ns);
        if m is Some {
            if m == ns.last() { assert(ns[ns.len() - 1] == m); } else {
                assert(init.contains(m)); let k = choose|k: int| 0 <= k < init.len() && init[k] == m; assert(ns[k] == m);
            }
            assert forall|i: int| 0 <= i < ns.len() && #[trigger] ns[i] is Some implies m.unwrap().v <= ns[i].unwrap().v by {
                if i < init.len() { assert(init[i] == ns[i]); }
            }
        }
        if opt_min(ns) is None { assert forall|i: int| 0 <= i < ns.len() implies #[trigger] ns[i] is None by { if i < init.len() { assert(init[i] == ns[i]); } } }
        if forall|i: int| 0 <= i < ns.len() ==> #[trigger] ns[i] is None { assert(ns[ns.len() - 1] is None); assert forall|i: int| 0 <= i < init.len() implies #[trigger] init[i] is None by { assert(init[i] == ns[i]); } }
    }
}
pub proof fn lemma_id_min(ids: Seq<ActorId>)
    ensures
        ids.len() > 0 ==> id_min(ids) is Some && ids.contains(id_min(ids).unwrap())
            && (forall|i: int| 0 <= i < ids.len() ==> !id_lt(#[trigger] ids[i], id_min(ids).unwrap())),
    decreases ids.len(),
{
    if ids.len() > 0 {
        let init = ids.drop_last();
        lemma_id_min(init);
        let m = id_min(ids).unwrap();
        if m == ids.last() { assert(ids[ids.len() - 1] == m); } else {
            assert(init.contains(m)); let k = choose|k: int| 0 <= k < init.len() && init[k] == m; assert(ids[k] == m);
        }
        assert forall|i: int| 0 <= i < ids.len() implies !id_lt(#[trigger] ids[i], m) by {
            if i < init.len() { assert(init[i] == ids[i]); }
        }
    }
}

// ----- the three stages of the election, by membership -----
pub open spec fn same_members(s: Seq<Cand>, t: Seq<Cand>) -> bool { forall|c: Cand| s.contains(c) <==> t.contains(c) }
pub open spec fn dir_ok(me: Seq<char>, peer: Seq<char>, s: Seq<Cand>, c: Cand) -> bool {
    (any_of(s, is_srv()) && any_of(s, is_cli()) && preferred(me, peer) is Some) ==> c.is_server == preferred(me, peer).unwrap()
}
pub open spec fn nonce_ok(s: Seq<Cand>, c: Cand) -> bool {
    opt_min(s.map_values(nonce_of())) is Some ==> c.connection_id == opt_min(s.map_values(nonce_of()))
}
pub open spec fn tie_ok(s: Seq<Cand>, c: Cand) -> bool {
    (s.len() > 0 && all_of(s, is_srv())) ==> Some(c.actor_id) == id_min(ids_of(s))
}
pub proof fn lemma_dir(me: Seq<char>, peer: Seq<char>, s: Seq<Cand>)
    ensures
        forall|c: Cand| #[trigger] by_direction(me, peer, s).contains(c) <==> s.contains(c) && dir_ok(me, peer, s, c),
        by_direction(me, peer, s).len() <= s.len(),
        s.len() > 0 ==> by_direction(me, peer, s).len() > 0,
{
    if any_of(s, is_srv()) && any_of(s, is_cli()) && preferred(me, peer) is Some {
        let x = preferred(me, peer).unwrap();
        lemma_filter_basic(s, dir_is(x));
        let i = choose|i: int| 0 <= i < s.len() && is_srv()(s[i]);
        let j = choose|j: int| 0 <= j < s.len() && is_cli()(s[j]);
        let w = if x { s[i] } else { s[j] };
        assert(s.contains(w) && dir_is(x)(w));
        assert(s.filter(dir_is(x)).contains(w));
    }
}
pub proof fn lemma_nonce(s: Seq<Cand>)
    ensures
        forall|c: Cand| #[trigger] by_nonce(s).contains(c) <==> s.contains(c) && nonce_ok(s, c),
        by_nonce(s).len() <= s.len(),
        s.len() > 0 ==> by_nonce(s).len() > 0,
{
    let ns = s.map_values(nonce_of());
    lemma_opt_min(ns);
    if opt_min(ns) is Some {
        let m = opt_min(ns).unwrap();
        lemma_filter_basic(s, nonce_is(m));
        let k = choose|k: int| 0 <= k < ns.len() && ns[k] == Some(m);
        assert(s.contains(s[k]) && nonce_is(m)(s[k]));
        assert(s.filter(nonce_is(m)).contains(s[k]));
    }
}
pub proof fn lemma_tie(s: Seq<Cand>)
    ensures
        forall|c: Cand| #[trigger] by_tie(s).contains(c) <==> s.contains(c) && tie_ok(s, c),
        by_tie(s).len() <= s.len(),
        s.len() > 0 ==> by_tie(s).len() > 0,
{
    let ids = ids_of(s);
    lemma_id_min(ids);
    if s.len() > 0 {
        let a = id_min(ids).unwrap();
        lemma_filter_basic(s, id_is(a));
        let k = choose|k: int| 0 <= k < ids.len() && ids[k] == a;
        assert(s.contains(s[k]) && id_is(a)(s[k]));
        assert(s.filter(id_is(a)).contains(s[k]));
        if s.len() == 1 {
            assert(id_min(ids.drop_last()) is None);
            assert(ids.last() == s[0].actor_id);
            assert forall|c: Cand| s.contains(c) implies c == s[0] by {}
        }
    }
}
/// every elected candidate was a candidate, and somebody is elected whenever there is a candidate
pub proof fn lemma_elect_subset_nonempty(me: Seq<char>, peer: Seq<char>, s: Seq<Cand>)
    ensures
        forall|c: Cand| #[trigger] elect_spec(me, peer, s).contains(c) ==> s.contains(c),
        elect_spec(me, peer, s).len() <= s.len(),
        s.len() > 0 ==> elect_spec(me, peer, s).len() > 0,
{
    let d = by_direction(me, peer, s); let n = by_nonce(d);
    lemma_dir(me, peer, s); lemma_nonce(d); lemma_tie(n);
}
/// membership in the result
pub open spec fn survives(me: Seq<char>, peer: Seq<char>, s: Seq<Cand>, c: Cand) -> bool {
    s.contains(c) && dir_ok(me, peer, s, c) && nonce_ok(by_direction(me, peer, s), c) && tie_ok(by_nonce(by_direction(me, peer, s)), c)
}
pub proof fn lemma_elect_members(me: Seq<char>, peer: Seq<char>, s: Seq<Cand>)
    ensures forall|c: Cand| #[trigger] elect_spec(me, peer, s).contains(c) <==> survives(me, peer, s, c),
{
    let d = by_direction(me, peer, s); let n = by_nonce(d);
    lemma_dir(me, peer, s); lemma_nonce(d); lemma_tie(n);
}
/// no candidate or a single one: elected as it stands (the function's short-cut is the general rule)
pub proof fn lemma_short_lists_elect_themselves(me: Seq<char>, peer: Seq<char>, s: Seq<Cand>)
    requires s.len() <= 1,
    ensures elect_spec(me, peer, s) == s,
{
    let d = by_direction(me, peer, s); let n = by_nonce(d);
    lemma_dir(me, peer, s); lemma_nonce(d); lemma_tie(n);
    if s.len() == 1 {
        assert(!(any_of(s, is_srv()) && any_of(s, is_cli()))) by {
            if any_of(s, is_srv()) && any_of(s, is_cli()) {
                let i = choose|i: int| 0 <= i < s.len() && is_srv()(s[i]);
                let j = choose|j: int| 0 <= j < s.len() && is_cli()(s[j]);
                assert(i == 0 && j == 0);
            }
        }
        assert(d == s);
        assert(n.len() == 1);
        assert(n.contains(n[0]) && s.contains(n[0]));
        assert(n =~= s);
    } else {
        assert(d =~= s); assert(n =~= s);
    }
}
// ----- C18: "the choice does not depend on the order in which the candidates are examined" -----
pub proof fn lemma_same_members_any_all(s: Seq<Cand>, t: Seq<Cand>, p: spec_fn(Cand) -> bool)
    requires same_members(s, t),
    ensures any_of(s, p) == any_of(t, p), all_of(s, p) == all_of(t, p), (s.len() > 0) == (t.len() > 0),
{
    if any_of(s, p) { let i = choose|i: int| 0 <= i < s.len() && p(s[i]); assert(s.contains(s[i])); let j = choose|j: int| 0 <= j < t.len() && t[j] == s[i]; assert(p(t[j])); }
    if any_of(t, p) { let i = choose|i: int| 0 <= i < t.len() && p(t[i]); assert(t.contains(t[i])); let j = choose|j: int| 0 <= j < s.len() && s[j] == t[i]; assert(p(s[j])); }
    if all_of(s, p) { assert forall|i: int| 0 <= i < t.len() implies p(t[i]) by { assert(t.contains(t[i])); let j = choose|j: int| 0 <= j < s.len() && s[j] == t[i]; assert(p(s[j])); } }
    if all_of(t, p) { assert forall|i: int| 0 <= i < s.len() implies p(s[i]) by { assert(s.contains(s[i])); let j = choose|j: int| 0 <= j < t.len() && t[j] == s[i]; assert(p(t[j])); } }
    if s.len() > 0 { assert(s.contains(s[0])); }
    if t.len() > 0 { assert(t.contains(t[0])); }
}
pub proof fn lemma_same_members_minima(s: Seq<Cand>, t: Seq<Cand>)
    requires same_members(s, t),
    ensures opt_min(s.map_values(nonce_of())) == opt_min(t.map_values(nonce_of())), id_min(ids_of(s)) == id_min(ids_of(t)),
{
    let ns = s.map_values(nonce_of()); let nt = t.map_values(nonce_of());
    lemma_opt_min(ns); lemma_opt_min(nt);
    lemma_same_members_any_all(s, t, is_srv());
    assert forall|i: int| 0 <= i < ns.len() implies nt.contains(#[trigger] ns[i]) by {
        assert(s.contains(s[i])); let j = choose|j: int| 0 <= j < t.len() && t[j] == s[i]; assert(nt[j] == ns[i]);
    }
    assert forall|i: int| 0 <= i < nt.len() implies ns.contains(#[trigger] nt[i]) by {
        assert(t.contains(t[i])); let j = choose|j: int| 0 <= j < s.len() && s[j] == t[i]; assert(ns[j] == nt[i]);
    }
    if opt_min(ns) is Some {
        let a = opt_min(ns); assert(ns.contains(a)); let i = choose|i: int| 0 <= i < ns.len() && ns[i] == a; assert(nt.contains(ns[i]));
        let j = choose|j: int| 0 <= j < nt.len() && nt[j] == a; assert(nt[j] is Some);
        let b = opt_min(nt); assert(nt.contains(b)); let k = choose|k: int| 0 <= k < nt.len() && nt[k] == b; assert(ns.contains(nt[k]));
        let l = choose|l: int| 0 <= l < ns.len() && ns[l] == b; assert(ns[l] is Some);
        assert(a.unwrap().v == b.unwrap().v);
    } else {
        assert forall|i: int| 0 <= i < nt.len() implies #[trigger] nt[i] is None by { assert(ns.contains(nt[i])); let l = choose|l: int| 0 <= l < ns.len() && ns[l] == nt[i]; }
    }
    let is = ids_of(s); let it = ids_of(t);
    lemma_id_min(is); lemma_id_min(it);
    if s.len() > 0 {
        let a = id_min(is).unwrap(); let b = id_min(it).unwrap();
        let i = choose|i: int| 0 <= i < is.len() && is[i] == a; assert(s.contains(s[i])); let j = choose|j: int| 0 <= j < t.len() && t[j] == s[i]; assert(it[j] == a);
        let k = choose|k: int| 0 <= k < it.len() && it[k] == b; assert(t.contains(t[k])); let l = choose|l: int| 0 <= l < s.len() && s[l] == t[k]; assert(is[l] == b);
        assert(!id_lt(a, b) && !id_lt(b, a));
    }
}
pub proof fn lemma_order_independent(me: Seq<char>, peer: Seq<char>, s: Seq<Cand>, t: Seq<Cand>)
    requires same_members(s, t),
    ensures same_members(elect_spec(me, peer, s), elect_spec(me, peer, t)),
{
    let ds = by_direction(me, peer, s); let dt = by_direction(me, peer, t);
    lemma_same_members_any_all(s, t, is_srv()); lemma_same_members_any_all(s, t, is_cli());
    lemma_dir(me, peer, s); lemma_dir(me, peer, t);
    assert(same_members(ds, dt));
    let n_s = by_nonce(ds); let n_t = by_nonce(dt);
    lemma_same_members_minima(ds, dt);
    lemma_nonce(ds); lemma_nonce(dt);
    assert(same_members(n_s, n_t));
    lemma_same_members_minima(n_s, n_t); lemma_same_members_any_all(n_s, n_t, is_srv());
    lemma_elect_members(me, peer, s); lemma_elect_members(me, peer, t);
}

// ----- C18: "both nodes keep the same single physical connection" -----
/// the same physical connections seen from the other end: same nonce, opposite role (the ids are local to each node)
pub open spec fn mirror_rel() -> spec_fn(Cand, Cand) -> bool { |c: Cand, d: Cand| d.connection_id == c.connection_id && d.is_server == !c.is_server }
pub open spec fn mirrored(s: Seq<Cand>, t: Seq<Cand>) -> bool {
    s.len() == t.len() && forall|i: int| 0 <= i < s.len() ==> mirror_rel()(#[trigger] s[i], t[i])
}
/// every connection carries a nonce of its own (the current protocol; the legacy zero nonce and repeats are excluded HERE only)
pub open spec fn own_nonces(s: Seq<Cand>) -> bool {
    distinct_by(s, nonce_of()) && forall|i: int| 0 <= i < s.len() ==> #[trigger] s[i].connection_id is Some
}
pub proof fn lemma_mirrored_any(s: Seq<Cand>, t: Seq<Cand>)
    requires mirrored(s, t),
    ensures any_of(s, is_srv()) == any_of(t, is_cli()), any_of(s, is_cli()) == any_of(t, is_srv()),
        s.map_values(nonce_of()) == t.map_values(nonce_of()),
{
    if any_of(s, is_srv()) { let i = choose|i: int| 0 <= i < s.len() && is_srv()(s[i]); assert(mirror_rel()(s[i], t[i])); assert(is_cli()(t[i])); }
    if any_of(t, is_cli()) { let i = choose|i: int| 0 <= i < t.len() && is_cli()(t[i]); assert(mirror_rel()(s[i], t[i])); assert(is_srv()(s[i])); }
    if any_of(s, is_cli()) { let i = choose|i: int| 0 <= i < s.len() && is_cli()(s[i]); assert(mirror_rel()(s[i], t[i])); assert(is_srv()(t[i])); }
    if any_of(t, is_srv()) { let i = choose|i: int| 0 <= i < t.len() && is_srv()(t[i]); assert(mirror_rel()(s[i], t[i])); assert(is_cli()(s[i])); }
    assert forall|i: int| 0 <= i < s.len() implies s.map_values(nonce_of())[i] == t.map_values(nonce_of())[i] by { assert(mirror_rel()(s[i], t[i])); }
    assert(s.map_values(nonce_of()) =~= t.map_values(nonce_of()));
}
/// two nodes with different names, looking at the same connections from both ends, elect the same single connection
pub proof fn lemma_both_ends_keep_the_same_connection(me: Seq<char>, peer: Seq<char>, s: Seq<Cand>, t: Seq<Cand>)
    requires me != peer, s.len() > 0, mirrored(s, t), own_nonces(s),
    ensures
        elect_spec(me, peer, s).len() == 1, elect_spec(peer, me, t).len() == 1,
        elect_spec(me, peer, s)[0].connection_id == elect_spec(peer, me, t)[0].connection_id,
{
    axiom_str_ord(me, peer); axiom_str_ord(peer, me);
    let x = preferred(me, peer).unwrap();
    assert(preferred(peer, me) == Some(!x));
    lemma_mirrored_any(s, t);
    let ds = by_direction(me, peer, s); let dt = by_direction(peer, me, t);
    lemma_dir(me, peer, s); lemma_dir(peer, me, t);
    if any_of(s, is_srv()) && any_of(s, is_cli()) {
        lemma_filter_zip(s, t, dir_is(x), dir_is(!x), mirror_rel());
        lemma_filter_distinct(s, dir_is(x), nonce_of());
        lemma_filter_basic(s, dir_is(x));
        assert forall|i: int| 0 <= i < ds.len() implies #[trigger] ds[i].connection_id is Some by {
            assert(ds.contains(ds[i])); let k = choose|k: int| 0 <= k < s.len() && s[k] == ds[i];
        }
    }
    assert(mirrored(ds, dt) && own_nonces(ds) && ds.len() > 0);
    lemma_mirrored_any(ds, dt);
    let ns = ds.map_values(nonce_of());
    lemma_opt_min(ns);
    assert(ns[0] is Some);
    let m = opt_min(ns).unwrap();
    let n_s = by_nonce(ds); let n_t = by_nonce(dt);
    lemma_filter_zip(ds, dt, nonce_is(m), nonce_is(m), mirror_rel());
    lemma_filter_unique(ds, nonce_is(m), nonce_of(), Some(m));
    lemma_nonce(ds);
    assert(n_s.len() == 1 && n_t.len() == 1 && mirror_rel()(n_s[0], n_t[0]));
    if s.len() == 1 {
        assert(ds == s && dt == t);
        lemma_filter_basic(s, nonce_is(m)); lemma_filter_basic(t, nonce_is(m));
        assert(n_s.contains(n_s[0]) && n_t.contains(n_t[0]));
        assert(s.contains(n_s[0]) && t.contains(n_t[0]));
        assert(n_s[0] == s[0] && n_t[0] == t[0]);
        assert(n_s =~= s && n_t =~= t);
    }
}
// ----- C18: who may break a tie between connections that carry the same (or no) nonce -----
/// the accepting side settles any remaining tie itself: of connections it accepted it keeps exactly one
pub proof fn lemma_accepting_side_elects_exactly_one(me: Seq<char>, peer: Seq<char>, s: Seq<Cand>)
    requires s.len() > 0, all_of(s, is_srv()), distinct_by(s, id_of()),
    ensures elect_spec(me, peer, s).len() == 1,
{
    lemma_elect_subset_nonempty(me, peer, s);
    if s.len() > 1 {
        assert(!any_of(s, is_cli()));
        let d = by_direction(me, peer, s); assert(d == s);
        let n = by_nonce(d);
        lemma_nonce(d);
        let ns = d.map_values(nonce_of());
        if opt_min(ns) is Some { lemma_filter_distinct(d, nonce_is(opt_min(ns).unwrap()), id_of()); }
        assert(distinct_by(n, id_of()));
        assert(all_of(n, is_srv())) by { assert forall|i: int| 0 <= i < n.len() implies is_srv()(n[i]) by { assert(n.contains(n[i])); let k = choose|k: int| 0 <= k < d.len() && d[k] == n[i]; } }
        if n.len() > 1 {
            lemma_id_min(ids_of(n));
            let a = id_min(ids_of(n)).unwrap();
            lemma_filter_unique(n, id_is(a), id_of(), a);
        }
    }
}
/// the initiating side never does: connections it dialled that cannot be told apart by nonce all stay until the peer decides
pub proof fn lemma_initiating_side_never_breaks_a_nonce_tie(me: Seq<char>, peer: Seq<char>, s: Seq<Cand>)
    requires all_of(s, is_cli()), forall|i: int| 0 <= i < s.len() ==> #[trigger] s[i].connection_id == s[0].connection_id,
    ensures elect_spec(me, peer, s) == s,
{
    if s.len() <= 1 { lemma_short_lists_elect_themselves(me, peer, s); }
    if s.len() > 1 {
        assert(!any_of(s, is_srv()));
        let d = by_direction(me, peer, s); assert(d == s);
        let ns = s.map_values(nonce_of());
        lemma_opt_min(ns);
        if opt_min(ns) is Some {
            let m = opt_min(ns).unwrap();
            let k = choose|k: int| 0 <= k < ns.len() && ns[k] == Some(m);
            assert(s[k].connection_id == s[0].connection_id);
            lemma_filter_basic(s, nonce_is(m));
            assert forall|i: int| 0 <= i < s.len() implies nonce_is(m)(#[trigger] s[i]) by {}
        }
        assert(by_nonce(d) == s);
        assert(!all_of(s, is_srv())) by { assert(is_cli()(s[0])); }
    }
}

/// ... in general: two dialled connections that cannot be told apart by nonce are elected together or not at all, whatever else
/// takes part in the election (the tie-break by actor id only ever applies when nothing but accepted connections is left)
pub proof fn lemma_dialled_ties_are_never_broken(me: Seq<char>, peer: Seq<char>, s: Seq<Cand>, c1: Cand, c2: Cand)
    requires s.contains(c1), s.contains(c2), !c1.is_server, !c2.is_server, c1.connection_id == c2.connection_id,
    ensures elect_spec(me, peer, s).contains(c1) == elect_spec(me, peer, s).contains(c2),
{
    lemma_elect_members(me, peer, s);
    let d = by_direction(me, peer, s); let n = by_nonce(d);
    lemma_dir(me, peer, s); lemma_nonce(d); lemma_tie(n);
    // a dialled candidate among the survivors of the first two stages rules the tie-break out
    if n.contains(c1) { let k = choose|k: int| 0 <= k < n.len() && n[k] == c1; assert(!is_srv()(n[k])); }
    if n.contains(c2) { let k = choose|k: int| 0 <= k < n.len() && n[k] == c2; assert(!is_srv()(n[k])); }
}
} // mod
} // verus!
