// ---- A-std: derive(PartialEq, PartialOrd) on the fieldless repr(u8) enum ActorStatus compares discriminants (shared) ----
verus! {
pub open spec fn status_cmp(a: ActorStatus, b: ActorStatus) -> Option<core::cmp::Ordering> {
    if (a as u8) < (b as u8) { Some(core::cmp::Ordering::Less) }
    else if (a as u8) == (b as u8) { Some(core::cmp::Ordering::Equal) }
    else { Some(core::cmp::Ordering::Greater) }
}
pub assume_specification [<ActorStatus as PartialEq>::eq] (a: &ActorStatus, b: &ActorStatus) -> (r: bool)
    ensures r == (*a == *b);
pub assume_specification [<ActorStatus as PartialOrd>::partial_cmp] (a: &ActorStatus, b: &ActorStatus) -> (r: Option<core::cmp::Ordering>)
    ensures r == status_cmp(*a, *b);
impl vstd::std_specs::cmp::PartialOrdSpecImpl for ActorStatus {
    open spec fn obeys_partial_cmp_spec() -> bool { true }
    open spec fn partial_cmp_spec(&self, b: &ActorStatus) -> Option<core::cmp::Ordering> { status_cmp(*self, *b) }
}
impl vstd::std_specs::cmp::PartialEqSpecImpl for ActorStatus {
    open spec fn obeys_eq_spec() -> bool { true }
    open spec fn eq_spec(&self, b: &ActorStatus) -> bool { *self == *b }
}
} // verus!
