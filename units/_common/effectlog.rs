// ---- common ghost effect-log algebra (textually included by vx: `// @include`); `Effect` is the unit's own enum ----
pub mod effectlog {
    use super::*;
    verus! {
    pub struct EffectLog { pub ghost s: Seq<Effect> }

    /// `b` extends `a` (nothing already logged is changed)
    pub open spec fn ext(a: Seq<Effect>, b: Seq<Effect>) -> bool {
        b.len() >= a.len() && (forall|i: int| 0 <= i < a.len() ==> #[trigger] b[i] == a[i])
    }
    /// `b` extends `a` by exactly `k` effects
    pub open spec fn grew(a: Seq<Effect>, b: Seq<Effect>, k: int) -> bool {
        k >= 0 && b.len() == a.len() + k && ext(a, b)
    }
    /// the i-th effect added after `a`
    pub open spec fn at(a: Seq<Effect>, b: Seq<Effect>, i: int) -> Effect { b[a.len() + i] }
    /// number of effects added
    pub open spec fn added(a: Seq<Effect>, b: Seq<Effect>) -> int { b.len() - a.len() }

    /// number of effects of kind `k` in the log (the unit defines `Kind` and `kind_of`)
    pub open spec fn cnt(s: Seq<Effect>, k: Kind) -> nat
        decreases s.len(),
    {
        if s.len() == 0 { 0 } else { cnt(s.drop_last(), k) + (if kind_of(s.last()) == k { 1nat } else { 0nat }) }
    }
    /// how many effects of kind `k` were added between `a` and `b`
    pub open spec fn delta(a: Seq<Effect>, b: Seq<Effect>, k: Kind) -> int { cnt(b, k) - cnt(a, k) }
    /// between `a` and `b` no effect of any kind other than the listed ones was added
    pub open spec fn no_other_effects(a: Seq<Effect>, b: Seq<Effect>, x1: Kind, x2: Kind, x3: Kind, x4: Kind) -> bool {
        forall|k: Kind| k != x1 && k != x2 && k != x3 && k != x4 ==> #[trigger] cnt(b, k) == cnt(a, k)
    }
    pub broadcast proof fn lemma_cnt_push(s: Seq<Effect>, e: Effect, k: Kind)
        ensures #[trigger] cnt(s.push(e), k) == cnt(s, k) + (if kind_of(e) == k { 1nat } else { 0nat }),
    {
        assert(s.push(e).drop_last() =~= s);
    }

    pub broadcast proof fn lemma_grew_push(a: Seq<Effect>, e: Effect)
        ensures grew(a, #[trigger] a.push(e), 1), at(a, a.push(e), 0) == e, ext(a, a.push(e)),
    {}
    pub broadcast proof fn lemma_ext_refl(a: Seq<Effect>)
        ensures #[trigger] ext(a, a), grew(a, a, 0),
    {}
    pub broadcast proof fn lemma_grew_zero(a: Seq<Effect>, b: Seq<Effect>)
        requires #[trigger] grew(a, b, 0),
        ensures a == b,
    { assert(a =~= b); }
    pub broadcast proof fn lemma_ext_trans(a: Seq<Effect>, b: Seq<Effect>, c: Seq<Effect>)
        requires #[trigger] ext(a, b), #[trigger] ext(b, c),
        ensures ext(a, c),
    {
        assert forall|i: int| 0 <= i < a.len() implies #[trigger] c[i] == a[i] by { assert(b[i] == a[i]); }
    }
    pub broadcast proof fn lemma_grew_trans(a: Seq<Effect>, b: Seq<Effect>, c: Seq<Effect>, j: int, k: int)
        requires #[trigger] grew(a, b, j), #[trigger] grew(b, c, k),
        ensures
            grew(a, c, j + k),
            forall|i: int| 0 <= i < j ==> #[trigger] at(a, c, i) == at(a, b, i),
            forall|i: int| 0 <= i < k ==> at(a, c, j + i) == #[trigger] at(b, c, i),
    {
        lemma_ext_trans(a, b, c);
        assert forall|i: int| 0 <= i < j implies #[trigger] at(a, c, i) == at(a, b, i) by { assert(c[a.len() + i] == b[a.len() + i]); }
    }
    /// a stretch of the log without any effect of kind `k` leaves the count of `k` unchanged
    pub proof fn lemma_cnt_region(a: Seq<Effect>, b: Seq<Effect>, k: Kind)
        requires ext(a, b), forall|i: int| a.len() <= i < b.len() ==> kind_of(#[trigger] b[i]) != k,
        ensures cnt(b, k) == cnt(a, k),
        decreases b.len() - a.len(),
    {
        if b.len() > a.len() {
            let c = b.drop_last();
            assert(ext(a, c)) by { assert forall|i: int| 0 <= i < a.len() implies #[trigger] c[i] == a[i] by { assert(b[i] == a[i]); } }
            assert forall|i: int| a.len() <= i < c.len() implies kind_of(#[trigger] c[i]) != k by { assert(c[i] == b[i]); }
            lemma_cnt_region(a, c, k);
        } else {
            assert(a =~= b);
        }
    }
    pub broadcast group group_effectlog { lemma_cnt_push, lemma_grew_push, lemma_ext_refl, lemma_grew_zero, lemma_ext_trans, lemma_grew_trans }
    }
}
pub use effectlog::*;
