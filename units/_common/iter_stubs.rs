// ---- std iterator chains as stand-ins over the closure's own postcondition (R22, trusted); shared by units electfn and nodeelect ----
verus! {
// ---------- trusted std semantics of the iterator chains (R22), stated over the closure's own postcondition ----------
/// `v.into_iter().map(f).collect::<Vec<_>>()`
#[verifier::external_body]
pub fn vx_map_collect<T, U, F: Fn(T) -> U>(v: Vec<T>, f: F) -> (r: Vec<U>)
    requires forall|x: T| f.requires((x,)),
    ensures forall|g: spec_fn(T) -> U| (forall|x: T, y: U| f.ensures((x,), y) ==> y == g(x)) ==> r@ == #[trigger] v@.map_values(g),
{ unimplemented!() }
/// `v.iter().any(f)`
#[verifier::external_body]
pub fn vx_any<T, F: Fn(&T) -> bool>(v: &Vec<T>, f: F) -> (r: bool)
    requires forall|x: &T| f.requires((x,)),
    ensures forall|p: spec_fn(T) -> bool| (forall|x: &T, b: bool| f.ensures((x,), b) ==> b == p(*x)) ==> r == #[trigger] any_of(v@, p),
{ unimplemented!() }
/// `v.iter().all(f)`
#[verifier::external_body]
pub fn vx_all<T, F: Fn(&T) -> bool>(v: &Vec<T>, f: F) -> (r: bool)
    requires forall|x: &T| f.requires((x,)),
    ensures forall|p: spec_fn(T) -> bool| (forall|x: &T, b: bool| f.ensures((x,), b) ==> b == p(*x)) ==> r == #[trigger] all_of(v@, p),
{ unimplemented!() }
/// `v.retain(f)`: exactly the elements `f` answers true for stay, in their order
#[verifier::external_body]
pub fn vx_retain<T, F: Fn(&T) -> bool>(v: &mut Vec<T>, f: F)
    requires forall|x: &T| f.requires((x,)),
    ensures forall|p: spec_fn(T) -> bool| (forall|x: &T, b: bool| f.ensures((x,), b) ==> b == p(*x)) ==> final(v)@ == #[trigger] old(v)@.filter(p),
{ unimplemented!() }
/// `v.iter().filter_map(f).min()` for an `Option<NonZeroU64>`-valued `f`
#[verifier::external_body]
pub fn vx_filter_map_min<T, F: Fn(&T) -> Option<Nonce>>(v: &Vec<T>, f: F) -> (r: Option<Nonce>)
    requires forall|x: &T| f.requires((x,)),
    ensures forall|g: spec_fn(T) -> Option<Nonce>| (forall|x: &T, y: Option<Nonce>| f.ensures((x,), y) ==> y == g(*x)) ==> r == opt_min(#[trigger] v@.map_values(g)),
{ unimplemented!() }
/// `v.iter().map(f).min()` for an ActorId-valued `f`
#[verifier::external_body]
pub fn vx_map_min<T, F: Fn(&T) -> ActorId>(v: &Vec<T>, f: F) -> (r: Option<ActorId>)
    requires forall|x: &T| f.requires((x,)),
    ensures forall|g: spec_fn(T) -> ActorId| (forall|x: &T, y: ActorId| f.ensures((x,), y) ==> y == g(*x)) ==> r == id_min(#[trigger] v@.map_values(g)),
        v@.len() > 0 ==> r is Some,
{ unimplemented!() }
/// greatest nonce / id: only here so that a `min` turned into a `max` is judged against the specification instead of being unreadable
pub open spec fn opt_max(s: Seq<Option<Nonce>>) -> Option<Nonce>
    decreases s.len(),
{
    if s.len() == 0 { None } else {
        match (opt_max(s.drop_last()), s.last()) {
            (None, x) => x,
            (Some(a), None) => Some(a),
            (Some(a), Some(b)) => if b.v >= a.v { Some(b) } else { Some(a) },
        }
    }
}
pub open spec fn id_max(s: Seq<ActorId>) -> Option<ActorId>
    decreases s.len(),
{
    if s.len() == 0 { None } else {
        match id_max(s.drop_last()) {
            None => Some(s.last()),
            Some(a) => if id_lt(s.last(), a) { Some(a) } else { Some(s.last()) },
        }
    }
}
#[verifier::external_body]
pub fn vx_filter_map_max<T, F: Fn(&T) -> Option<Nonce>>(v: &Vec<T>, f: F) -> (r: Option<Nonce>)
    requires forall|x: &T| f.requires((x,)),
    ensures forall|g: spec_fn(T) -> Option<Nonce>| (forall|x: &T, y: Option<Nonce>| f.ensures((x,), y) ==> y == g(*x)) ==> r == opt_max(#[trigger] v@.map_values(g)),
{ unimplemented!() }
#[verifier::external_body]
pub fn vx_map_max<T, F: Fn(&T) -> ActorId>(v: &Vec<T>, f: F) -> (r: Option<ActorId>)
    requires forall|x: &T| f.requires((x,)),
    ensures forall|g: spec_fn(T) -> ActorId| (forall|x: &T, y: ActorId| f.ensures((x,), y) ==> y == g(*x)) ==> r == id_max(#[trigger] v@.map_values(g)),
        v@.len() > 0 ==> r is Some,
{ unimplemented!() }
#[verifier::external_body]
pub fn vx_str_cmp(a: &str, b: &str) -> (r: Ordering)
    ensures r == str_ord(a@, b@),
{ unimplemented!() }
} // verus!
