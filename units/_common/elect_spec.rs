// ---- the election's specification function and the vocabulary it is written in (shared by units electfn and nodeelect) ----
verus! {
pub type Cand = SessionElectionCandidate;
/// stand-in for core::num::NonZeroU64 (R9): a value compared and ordered by its number
#[derive(Clone, Copy, PartialEq, Eq, Structural)]
pub struct Nonce { pub v: u64 }

pub open spec fn any_of<T>(s: Seq<T>, p: spec_fn(T) -> bool) -> bool { exists|i: int| 0 <= i < s.len() && p(s[i]) }
pub open spec fn all_of<T>(s: Seq<T>, p: spec_fn(T) -> bool) -> bool { forall|i: int| 0 <= i < s.len() ==> p(s[i]) }
/// least nonce of a sequence of optional nonces (None when there is none)
pub open spec fn opt_min(s: Seq<Option<Nonce>>) -> Option<Nonce>
    decreases s.len(),
{
    if s.len() == 0 { None } else {
        let m = opt_min(s.drop_last());
        match (m, s.last()) {
            (None, x) => x,
            (Some(a), None) => Some(a),
            (Some(a), Some(b)) => if b.v < a.v { Some(b) } else { Some(a) },
        }
    }
}
/// the derived `Ord` of ActorId: variants in declaration order, then fields lexicographically
pub open spec fn id_lt(a: ActorId, b: ActorId) -> bool {
    match (a, b) {
        (ActorId::Local(x), ActorId::Local(y)) => x < y,
        (ActorId::Local(_), ActorId::Remote { .. }) => true,
        (ActorId::Remote { .. }, ActorId::Local(_)) => false,
        (ActorId::Remote { node_id: n1, pid: p1 }, ActorId::Remote { node_id: n2, pid: p2 }) => n1 < n2 || (n1 == n2 && p1 < p2),
    }
}
pub open spec fn id_min(s: Seq<ActorId>) -> Option<ActorId>
    decreases s.len(),
{
    if s.len() == 0 { None } else {
        match id_min(s.drop_last()) {
            None => Some(s.last()),
            Some(a) => if id_lt(s.last(), a) { Some(s.last()) } else { Some(a) },
        }
    }
}
/// `a.cmp(b)` on `str`: an uninterpreted total order on strings (A-str)
pub uninterp spec fn str_ord(a: Seq<char>, b: Seq<char>) -> Ordering;
/// A-str: `str::cmp` is a total order: equal exactly on equal strings, antisymmetric
#[verifier::external_body]
pub broadcast proof fn axiom_str_ord(a: Seq<char>, b: Seq<char>)
    ensures (#[trigger] str_ord(a, b) is Equal) == (a == b),
        (str_ord(a, b) is Less) == (str_ord(b, a) is Greater),
{}

// ---------- the specification function ----------
pub open spec fn is_srv() -> spec_fn(Cand) -> bool { |c: Cand| c.is_server }
pub open spec fn is_cli() -> spec_fn(Cand) -> bool { |c: Cand| !c.is_server }
pub open spec fn dir_is(p: bool) -> spec_fn(Cand) -> bool { |c: Cand| c.is_server == p }
pub open spec fn nonce_is(m: Nonce) -> spec_fn(Cand) -> bool { |c: Cand| c.connection_id == Some(m) }
pub open spec fn id_is(a: ActorId) -> spec_fn(Cand) -> bool { |c: Cand| c.actor_id == a }
pub open spec fn nonce_of() -> spec_fn(Cand) -> Option<Nonce> { |c: Cand| c.connection_id }
pub open spec fn id_of() -> spec_fn(Cand) -> ActorId { |c: Cand| c.actor_id }
pub open spec fn ids_of(s: Seq<Cand>) -> Seq<ActorId> { s.map_values(id_of()) }
/// which direction survives a simultaneous connect: the one dialled by the node whose name sorts last
pub open spec fn preferred(me: Seq<char>, peer: Seq<char>) -> Option<bool> {
    match str_ord(peer, me) { Ordering::Less => Some(false), Ordering::Greater => Some(true), Ordering::Equal => None }
}
pub open spec fn by_direction(me: Seq<char>, peer: Seq<char>, s: Seq<Cand>) -> Seq<Cand> {
    if any_of(s, is_srv()) && any_of(s, is_cli()) && preferred(me, peer) is Some { s.filter(dir_is(preferred(me, peer).unwrap())) } else { s }
}
pub open spec fn by_nonce(s: Seq<Cand>) -> Seq<Cand> {
    match opt_min(s.map_values(nonce_of())) { Some(m) => s.filter(nonce_is(m)), None => s }
}
pub open spec fn by_tie(s: Seq<Cand>) -> Seq<Cand> {
    if s.len() > 1 && all_of(s, is_srv()) { s.filter(id_is(id_min(ids_of(s)).unwrap())) } else { s }
}
/// direction by name order, then the lowest nonce, then (accepting side only) the lowest actor id
pub open spec fn elect_spec(me: Seq<char>, peer: Seq<char>, s: Seq<Cand>) -> Seq<Cand> {
    by_tie(by_nonce(by_direction(me, peer, s)))
}
} // verus!
