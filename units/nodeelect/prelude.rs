// ---- unit nodeelect: who takes part in a session election (C18: an unauthenticated connection can neither displace nor veto) ----
#![feature(proc_macro_hygiene)]
#![allow(unused, non_snake_case, non_camel_case_types, dead_code, unreachable_code)]
use vstd::prelude::*;
use verus_builtin_macros::{verus_spec, verus_verify, proof, proof_decl};
use core::num::NonZeroU64;

verus! {
global size_of usize == 8;
pub type NodeId = u64;
#[verifier::external_body] pub struct Opaque { _p: u8 }
#[verifier::external_body] pub struct SessionRef { _p: u8 }
#[verifier::external_body] pub struct SessionsMap { _p: u8 }
#[verifier::external_body] pub struct ConnIds { _p: u8 }
#[verifier::external_body] pub struct IdSet { _p: u8 }
impl View for IdSet { type V = Set<ActorId>; uninterp spec fn view(&self) -> Set<ActorId>; }
impl IdSet {
    #[verifier::external_body]
    pub fn contains(&self, k: &ActorId) -> (r: bool) ensures r == self@.contains(*k) { unimplemented!() }
}
impl SessionsMap {
    #[verifier::external_body]
    pub fn get(&self, k: &ActorId) -> Option<&NodeServerSessionInformation> { unimplemented!() }
}
impl ConnIds {
    #[verifier::external_body]
    pub fn get(&self, k: &ActorId) -> Option<&Option<NonZeroU64>> { unimplemented!() }
}
pub assume_specification<'a, T: Copy> [Option::<&'a T>::copied] (o: Option<&'a T>) -> (r: Option<T>)
    ensures r == (match o { Some(x) => Some(*x), None => None::<T> });
pub assume_specification<T> [Option::<Option<T>>::flatten] (o: Option<Option<T>>) -> (r: Option<T>);

/// elect_sessions itself is checked (bounded) by unit `elect`; here: its result is a subset of the candidates
#[verifier::external_body]
pub fn elect_sessions(this_node_name: &str, peer_name: &str, candidates: Vec<SessionElectionCandidate>) -> (r: Vec<ActorId>)
    ensures forall|i: int| 0 <= i < r@.len() ==> exists|j: int| 0 <= j < candidates@.len() && candidates@[j].actor_id == #[trigger] r@[i],
{ unimplemented!() }
/// A-std: slice `contains` with the derived (structural) PartialEq of ActorId
pub assume_specification<T: PartialEq> [<[T]>::contains] (v: &[T], x: &T) -> (r: bool)
    ensures r ==> (exists|i: int| 0 <= i < v@.len() && #[trigger] v@[i] == *x);
} // verus!

#[verus_verify]
impl NodeServerState {
    /// the real function (iterator adapters over closures) is outside Verus; GUARD STUB: the election helpers may only ever
    /// ask for AUTHENTICATED candidates (`requires authenticated_only`), and what they get are authenticated sessions
    #[verus_verify(external_body)]
    #[verus_spec(r =>
        requires authenticated_only,
        ensures forall|i: int| 0 <= i < r@.len() ==> self.authenticated_sessions@.contains(#[trigger] r@[i].actor_id),
    )]
    pub fn candidates_for_peer(&self, peer_name: &str, authenticated_only: bool) -> Vec<SessionElectionCandidate> { unimplemented!() }
}
