//! BOUNDED Kani harnesses on the REAL `elect_sessions` (child module of ractor_cluster::node, cfg(kani) only).
//! Candidate count is the bound (N = 2 quick, N = 3 thorough); every field of every candidate is symbolic;
//! the name order is one of `<`, `>`, `==` (all three covered), plus one mixed-case pair in both roles.
use super::*;

fn names(sel: u8) -> (&'static str, &'static str) {
    match sel % 5 {
        0 => ("a@h", "b@h"),
        1 => ("b@h", "a@h"),
        2 => ("a@h", "a@h"),
        // mixed case: byte order ('Z' < 'a') and case-folded order ('a' < 'z') disagree, so an endpoint that compares anything
        // but the names as written is seen
        3 => ("Z@h", "a@h"),
        _ => ("a@h", "Z@h"),
    }
}
fn cand(id: u64) -> SessionElectionCandidate {
    SessionElectionCandidate {
        actor_id: ActorId::Local(id),
        is_server: kani::any(),
        connection_id: NonZeroU64::new(kani::any()),
    }
}
fn has(v: &[ActorId], id: u64) -> bool {
    let mut i = 0;
    let mut found = false;
    while i < v.len() {
        if v[i] == ActorId::Local(id) { found = true; }
        i += 1;
    }
    found
}

/// N = 2: the result is a non-empty subset of the candidates and does not depend on the order they are examined in
#[kani::proof]
#[kani::unwind(4)]
fn elect2_subset_nonempty_order_independent() {
    let sel: u8 = kani::any();
    let (me, peer) = names(sel);
    let a = cand(1);
    let b = cand(2);
    let r1 = elect_sessions(me, peer, vec![a, b]);
    let r2 = elect_sessions(me, peer, vec![b, a]);
    assert!(!r1.is_empty());
    assert!(r1.len() <= 2);
    assert!(has(&r1, 1) || has(&r1, 2));
    assert!(has(&r1, 1) == has(&r2, 1));
    assert!(has(&r1, 2) == has(&r2, 2));
    kani::cover!(r1.len() == 1);
    kani::cover!(r1.len() == 2);
}

/// N = 2: both endpoints keep the same physical connection when the nonces are distinct and non-zero; the accepting
/// side always resolves a tie to exactly one connection
#[kani::proof]
#[kani::unwind(4)]
fn elect2_mirror_agreement() {
    let sel: u8 = kani::any();
    let (me, peer) = names(sel);
    kani::assume(sel % 5 != 2); // two distinct nodes have distinct names
    let a = cand(1);
    let b = cand(2);
    kani::assume(a.connection_id.is_some() && b.connection_id.is_some() && a.connection_id != b.connection_id);
    // the peer's view of the same two physical connections: direction flipped, same nonce, its own (arbitrary, distinct) actor ids
    let pa = SessionElectionCandidate { actor_id: ActorId::Local(7), is_server: !a.is_server, connection_id: a.connection_id };
    let pb = SessionElectionCandidate { actor_id: ActorId::Local(5), is_server: !b.is_server, connection_id: b.connection_id };
    let mine = elect_sessions(me, peer, vec![a, b]);
    let theirs = elect_sessions(peer, me, vec![pb, pa]);
    assert!(mine.len() == 1 && theirs.len() == 1);
    // same physical connection on both sides
    assert!(has(&mine, 1) == has(&theirs, 7));
    assert!(has(&mine, 2) == has(&theirs, 5));
    kani::cover!(has(&mine, 1));
    kani::cover!(has(&mine, 2));
}

/// N = 2: when every surviving candidate is an accepted (server-side) connection exactly one is elected, whatever the nonces
#[kani::proof]
#[kani::unwind(4)]
fn elect2_accepting_side_elects_exactly_one() {
    let sel: u8 = kani::any();
    let (me, peer) = names(sel);
    let mut a = cand(1);
    let mut b = cand(2);
    a.is_server = true;
    b.is_server = true;
    let r = elect_sessions(me, peer, vec![a, b]);
    assert!(r.len() == 1);
    kani::cover!(a.connection_id == b.connection_id);
}

/// N = 2: the initiating side never resolves a nonce tie (legacy / repeated nonce) on its own: it keeps every tied outgoing
/// connection alive until the accepting side's decision arrives (otherwise the two ends could keep different connections)
#[kani::proof]
#[kani::unwind(4)]
fn elect2_initiator_keeps_ties_alive() {
    let sel: u8 = kani::any();
    let (me, peer) = names(sel);
    let mut a = cand(1);
    let mut b = cand(2);
    a.is_server = false;
    b.is_server = false;
    kani::assume(a.connection_id == b.connection_id);
    let r = elect_sessions(me, peer, vec![a, b]);
    assert!(r.len() == 2);
    kani::cover!(a.connection_id.is_none());
    kani::cover!(a.connection_id.is_some());
}

/// N = 3: non-empty subset, independent of the order (all six permutations via one rotation and one swap)
#[kani::proof]
#[kani::unwind(5)]
fn elect3_subset_nonempty_order_independent() {
    let sel: u8 = kani::any();
    let (me, peer) = names(sel);
    let a = cand(1);
    let b = cand(2);
    let c = cand(3);
    let r1 = elect_sessions(me, peer, vec![a, b, c]);
    let r2 = elect_sessions(me, peer, vec![b, c, a]);
    let r3 = elect_sessions(me, peer, vec![b, a, c]);
    assert!(!r1.is_empty());
    assert!(has(&r1, 1) == has(&r2, 1) && has(&r1, 2) == has(&r2, 2) && has(&r1, 3) == has(&r2, 3));
    assert!(has(&r1, 1) == has(&r3, 1) && has(&r1, 2) == has(&r3, 2) && has(&r1, 3) == has(&r3, 3));
    kani::cover!(r1.len() == 1);
}

/// N = 3: mirror agreement with distinct non-zero nonces
#[kani::proof]
#[kani::unwind(5)]
fn elect3_mirror_agreement() {
    let sel: u8 = kani::any();
    let (me, peer) = names(sel);
    kani::assume(sel % 5 != 2);
    let a = cand(1);
    let b = cand(2);
    let c = cand(3);
    kani::assume(a.connection_id.is_some() && b.connection_id.is_some() && c.connection_id.is_some());
    kani::assume(a.connection_id != b.connection_id && a.connection_id != c.connection_id && b.connection_id != c.connection_id);
    let pa = SessionElectionCandidate { actor_id: ActorId::Local(9), is_server: !a.is_server, connection_id: a.connection_id };
    let pb = SessionElectionCandidate { actor_id: ActorId::Local(4), is_server: !b.is_server, connection_id: b.connection_id };
    let pc = SessionElectionCandidate { actor_id: ActorId::Local(6), is_server: !c.is_server, connection_id: c.connection_id };
    let mine = elect_sessions(me, peer, vec![a, b, c]);
    let theirs = elect_sessions(peer, me, vec![pc, pa, pb]);
    assert!(mine.len() == 1 && theirs.len() == 1);
    assert!(has(&mine, 1) == has(&theirs, 9));
    assert!(has(&mine, 2) == has(&theirs, 4));
    assert!(has(&mine, 3) == has(&theirs, 6));
    kani::cover!(has(&mine, 3));
}

/// N = 3: dialled connections that cannot be told apart by nonce are never separated by an election on the dialling side, whatever
/// else takes part (accepted connections, other nonces): either all of them stay or none does
#[kani::proof]
#[kani::unwind(5)]
fn elect3_dialled_ties_are_never_broken() {
    let sel: u8 = kani::any();
    let (me, peer) = names(sel);
    let a = cand(1);
    let b = cand(2);
    let c = cand(3);
    let r = elect_sessions(me, peer, vec![a, b, c]);
    if !a.is_server && !b.is_server && a.connection_id == b.connection_id { assert!(has(&r, 1) == has(&r, 2)); }
    if !a.is_server && !c.is_server && a.connection_id == c.connection_id { assert!(has(&r, 1) == has(&r, 3)); }
    if !b.is_server && !c.is_server && b.connection_id == c.connection_id { assert!(has(&r, 2) == has(&r, 3)); }
    kani::cover!(!a.is_server && !b.is_server && a.connection_id == b.connection_id && c.is_server && has(&r, 1));
}
