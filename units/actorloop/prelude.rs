// ---- unit actorloop: the actor task's receive side (C01: one callback at a time, in lifecycle order; C03: kill > stop > supervision > messages) ----
#![feature(proc_macro_hygiene)]
#![allow(unused, non_snake_case, non_camel_case_types, dead_code, unreachable_code)]
use vstd::prelude::*;
use verus_builtin_macros::{verus_spec, verus_verify, proof, proof_decl};

verus! {
broadcast use effectlog::lemma_cnt_push;
#[verifier::external_body] pub struct SupervisionEvent { _p: u8 }
#[verifier::external_body] pub struct BoxedMessage { _p: u8 }
#[verifier::external_body] pub struct RecvError { _p: u8 }
/// the four receive ends (tokio oneshot / unbounded mpsc receivers): opaque, only WHICH of them is polled matters
#[verifier::external_body] pub struct SignalRx { _p: u8 }
#[verifier::external_body] pub struct StopRx { _p: u8 }
#[verifier::external_body] pub struct SupervisionRx { _p: u8 }
#[verifier::external_body] pub struct MessageRx { _p: u8 }
#[verifier::external_body] pub struct SupRecv { _p: u8 }
#[verifier::external_body] pub struct MsgRecv { _p: u8 }
/// the future of a user callback (pre_start, post_start, handle, handle_supervisor_evt, post_stop) as produced by the do_* / handle_*
/// wrappers; it makes progress only while it is polled
#[verifier::external_body] #[verifier::reject_recursive_types(T)] pub struct CbFut<T> { _p: core::marker::PhantomData<T> }
impl<T> CbFut<T> { pub uninterp spec fn cb(&self) -> Cb; }
/// did the callback whose future produced `v` return Ok?  (defined for the two result types callbacks have, see the axioms below)
pub uninterp spec fn went_well<T>(v: T) -> bool;
pub enum VxSel2<A, B> { A0(A), A1(B) }
#[verifier::external_body] pub struct ActorProcessingErr { _p: u8 }
#[verifier::external_body] pub struct ActorCell { _p: u8 }
#[verifier::external_body] pub struct ActorLifecycleGuard { _p: u8 }
#[verifier::external_body] pub struct PanicPayload { _p: u8 }
#[verifier::external_body] #[verifier::reject_recursive_types(M)] pub struct ActorRef<M> { _p: core::marker::PhantomData<M> }
pub trait Actor: Sized {
    type Msg;
    type State;
    type Arguments;
}
pub enum VxSel4<A, B, C, D> { A0(A), A1(B), A2(C), A3(D) }
} // verus!

pub mod vocab {
    use super::*;
    verus! {
    pub enum Port { Signal, Stop, Supervision, Message }
    pub enum Cb { PreStart, PostStart, Handle, SupEvt, PostStop }
    pub enum Effect {
        /// a receive end was polled in the deciding round of a select, and whether it had something
        Poll(Port, bool),
        /// a callback future was driven to completion, and whether the callback returned Ok
        Done(Cb, bool),
        /// a callback future was dropped before it completed (it makes no further progress)
        Abandoned(Cb),
        /// a callback future was polled on its own, outside a select (it started, or went on, without the kill port being looked at)
        Progress(Cb),
        SetStatus(ActorStatus),
        NotifyStarted,
        /// `terminate()`: the actor's children are told to die
        Terminate,
    }
    /// effects are counted individually
    pub type Kind = Effect;
    pub open spec fn kind_of(e: Effect) -> Kind { e }
    }
}
pub use vocab::*;
// @include ../_common/effectlog.rs

verus! {
pub open spec fn rank(p: Port) -> int { match p { Port::Signal => 0, Port::Stop => 1, Port::Supervision => 2, Port::Message => 3 } }
pub open spec fn port(i: int) -> Port { if i == 0 { Port::Signal } else if i == 1 { Port::Stop } else if i == 2 { Port::Supervision } else { Port::Message } }
/// one poll round in priority order that ends at port `p`: every port of higher priority was found empty, then `p` had something
pub open spec fn polled_in_priority_order(a: Seq<Effect>, b: Seq<Effect>, p: Port) -> bool {
    grew(a, b, rank(p) + 1) && at(a, b, rank(p)) == Effect::Poll(p, true)
        && forall|i: int| 0 <= i < rank(p) ==> #[trigger] at(a, b, i) == Effect::Poll(port(i), false)
}
pub open spec fn port_of(m: ActorPortMessage) -> Port {
    match m { ActorPortMessage::Signal(_) => Port::Signal, ActorPortMessage::Stop(_) => Port::Stop, ActorPortMessage::Supervision(_) => Port::Supervision, ActorPortMessage::Message(_) => Port::Message }
}
/// one poll round in priority order that finds its item at port `p`, appended to `a`
pub open spec fn round(a: Seq<Effect>, p: Port) -> Seq<Effect> {
    match p {
        Port::Signal => a.push(Effect::Poll(Port::Signal, true)),
        Port::Stop => a.push(Effect::Poll(Port::Signal, false)).push(Effect::Poll(Port::Stop, true)),
        Port::Supervision => a.push(Effect::Poll(Port::Signal, false)).push(Effect::Poll(Port::Stop, false)).push(Effect::Poll(Port::Supervision, true)),
        Port::Message => a.push(Effect::Poll(Port::Signal, false)).push(Effect::Poll(Port::Stop, false)).push(Effect::Poll(Port::Supervision, false)).push(Effect::Poll(Port::Message, true)),
    }
}
/// a callback future driven beside the kill port, appended to `a`: the kill port is looked at first; if it has something the
/// callback is abandoned, otherwise it runs to completion
pub open spec fn raced(a: Seq<Effect>, cb: Cb, killed: bool, ok: bool) -> Seq<Effect> {
    if killed { a.push(Effect::Poll(Port::Signal, true)).push(Effect::Abandoned(cb)) } else { a.push(Effect::Poll(Port::Signal, false)).push(Effect::Done(cb, ok)) }
}
pub open spec fn exits_killed(r: Result<ActorLoopResult, ActorProcessingErr>) -> bool { r matches Ok(l) && l.should_exit && l.was_killed }
pub open spec fn exits_gracefully(r: Result<ActorLoopResult, ActorProcessingErr>) -> bool { r matches Ok(l) && l.should_exit && !l.was_killed }
pub open spec fn goes_on_or_fails(r: Result<ActorLoopResult, ActorProcessingErr>) -> bool { r matches Ok(l) ==> !l.should_exit && !l.was_killed }
/// what one step of the actor loop may do, after the poll round found its item at port `p`
pub open spec fn step_at(a: Seq<Effect>, b: Seq<Effect>, p: Port, r: Result<ActorLoopResult, ActorProcessingErr>) -> bool {
    let base = round(a, p);
    let cb = if p == Port::Supervision { Cb::SupEvt } else { Cb::Handle };
    // the port was closed, or a kill was found: the children are taken along and the loop ends as killed; no callback starts
    ||| (b == base.push(Effect::Terminate) && exits_killed(r))
    // a stop request or the drain marker: no callback starts, the loop ends gracefully
    ||| ((p == Port::Stop || p == Port::Message) && b == base && exits_gracefully(r))
    // a supervision event or a message: ONE handler, driven beside the kill port, which completes (and the loop goes on, or fails with the handler's error) ..
    ||| ((p == Port::Supervision || p == Port::Message) && b == raced(base, cb, false, r is Ok) && goes_on_or_fails(r))
    // .. or is abandoned because a kill arrived
    ||| ((p == Port::Supervision || p == Port::Message) && b == raced(base, cb, true, false).push(Effect::Terminate) && exits_killed(r))
}
pub open spec fn step(a: Seq<Effect>, b: Seq<Effect>, r: Result<ActorLoopResult, ActorProcessingErr>) -> bool {
    step_at(a, b, Port::Signal, r) || step_at(a, b, Port::Stop, r) || step_at(a, b, Port::Supervision, r) || step_at(a, b, Port::Message, r)
}
/// no post_start / post_stop / pre_start effect was added
pub open spec fn no_hook_effects(a: Seq<Effect>, b: Seq<Effect>) -> bool {
    (forall|c: Cb, ok: bool| (c == Cb::PostStart || c == Cb::PostStop || c == Cb::PreStart) ==> #[trigger] delta(a, b, Effect::Done(c, ok)) == 0)
    && (forall|c: Cb| (c == Cb::PostStart || c == Cb::PostStop || c == Cb::PreStart) ==> #[trigger] delta(a, b, Effect::Abandoned(c)) == 0)
}
/// no kill was acted on, no handler was abandoned and no handler failed
pub open spec fn clean(a: Seq<Effect>, b: Seq<Effect>) -> bool {
    delta(a, b, Effect::Terminate) == 0 && (forall|c: Cb| #[trigger] delta(a, b, Effect::Abandoned(c)) == 0) && (forall|c: Cb| #[trigger] delta(a, b, Effect::Done(c, false)) == 0)
}
pub open spec fn handler_effects(a: Seq<Effect>, b: Seq<Effect>) -> int {
    delta(a, b, Effect::Done(Cb::Handle, true)) + delta(a, b, Effect::Done(Cb::Handle, false)) + delta(a, b, Effect::Abandoned(Cb::Handle))
    + delta(a, b, Effect::Done(Cb::SupEvt, true)) + delta(a, b, Effect::Done(Cb::SupEvt, false)) + delta(a, b, Effect::Abandoned(Cb::SupEvt))
}
/// how often a hook was driven (to completion, Ok or not, or abandoned)
pub open spec fn hook_effects(a: Seq<Effect>, b: Seq<Effect>, c: Cb) -> int {
    delta(a, b, Effect::Done(c, true)) + delta(a, b, Effect::Done(c, false)) + delta(a, b, Effect::Abandoned(c))
}
pub open spec fn no_failed_or_abandoned_handler(a: Seq<Effect>, b: Seq<Effect>) -> bool {
    delta(a, b, Effect::Done(Cb::Handle, false)) == 0 && delta(a, b, Effect::Abandoned(Cb::Handle)) == 0
    && delta(a, b, Effect::Done(Cb::SupEvt, false)) == 0 && delta(a, b, Effect::Abandoned(Cb::SupEvt)) == 0
}
pub open spec fn last_polled(s: Seq<Effect>) -> Port { match s.last() { Effect::Poll(p, _) => p, _ => Port::Signal } }

#[verifier::external_body]
pub fn vx_pin<T>(t: T) -> (r: T) ensures r == t { unimplemented!() }
impl SupervisionRx {
    #[verifier::external_body] pub fn recv(&mut self) -> SupRecv { unimplemented!() }
    #[verifier::external_body] pub fn len(&self) -> usize { unimplemented!() }
    #[verifier::external_body] pub fn is_empty(&self) -> bool { unimplemented!() }
}
impl MessageRx {
    #[verifier::external_body] pub fn recv(&mut self) -> MsgRecv { unimplemented!() }
    /// how many items sit in the queue right now (says nothing about admitted senders that have not enqueued yet)
    #[verifier::external_body] pub fn len(&self) -> usize { unimplemented!() }
    #[verifier::external_body] pub fn is_empty(&self) -> bool { unimplemented!() }
}
#[verifier::external_body] pub struct TryRecvError { _p: u8 }
impl<T> CbFut<T> {
    /// `Pin::as_mut`: the same future, reborrowed
    #[verifier::external_body]
    pub fn as_mut(&mut self) -> (r: CbFut<T>) ensures r.cb() == old(self).cb(), final(self).cb() == old(self).cb() { unimplemented!() }
}
/// `r.map(f).map_err(g)` on a Result (R22; std semantics over the closures' own postconditions)
#[verifier::external_body]
pub fn vx_result_map_map_err<T, E, U, F2, F: FnOnce(T) -> U, G: FnOnce(E) -> F2>(r: Result<T, E>, f: F, g: G) -> (o: Result<U, F2>)
    requires forall|x: T| f.requires((x,)), forall|x: E| g.requires((x,)),
    ensures match r { Ok(t) => o matches Ok(u) && f.ensures((t,), u), Err(e) => o matches Err(x) && g.ensures((e,), x) },
{ unimplemented!() }
/// `o.map(f).ok_or(e)` on an Option
#[verifier::external_body]
pub fn vx_option_map_ok_or<T, U, E, F: FnOnce(T) -> U>(o: Option<T>, f: F, e: E) -> (r: Result<U, E>)
    requires forall|x: T| f.requires((x,)),
    ensures match o { Some(t) => r matches Ok(u) && f.ensures((t,), u), None => r == Err::<U, E>(e) },
{ unimplemented!() }
pub assume_specification<T, E> [Result::<T, E>::unwrap_or] (r: Result<T, E>, d: T) -> (o: T)
    ensures o == (match r { Ok(t) => t, Err(_) => d });
} // verus!

// ---- tokio's `select!` (trusted, A-select): ONE poll round over the arms.  `biased;` = the arms are polled in their textual order
// and the first ready one wins; the futures of the other arms are dropped.  Without `biased;` the starting arm is random: nothing is
// known about the arms that were not taken.  What polling / completing / dropping a future means for the ghost log is the future's
// own business (trait VxFut): a receive end logs whether it had something, a callback future logs its completion or its abandonment.
verus! {
pub trait VxFut: Sized {
    type Out;
    spec fn on_ready(&self, s: Seq<Effect>, v: Self::Out) -> Seq<Effect>;
    spec fn on_pending(&self, s: Seq<Effect>) -> Seq<Effect>;
    spec fn on_dropped(&self, s: Seq<Effect>) -> Seq<Effect>;
}
impl<'a> VxFut for &'a mut SignalRx {
    type Out = Result<Signal, RecvError>;
    open spec fn on_ready(&self, s: Seq<Effect>, v: Self::Out) -> Seq<Effect> { s.push(Effect::Poll(Port::Signal, true)) }
    open spec fn on_pending(&self, s: Seq<Effect>) -> Seq<Effect> { s.push(Effect::Poll(Port::Signal, false)) }
    open spec fn on_dropped(&self, s: Seq<Effect>) -> Seq<Effect> { s }
}
impl<'a> VxFut for &'a mut StopRx {
    type Out = Result<StopMessage, RecvError>;
    open spec fn on_ready(&self, s: Seq<Effect>, v: Self::Out) -> Seq<Effect> { s.push(Effect::Poll(Port::Stop, true)) }
    open spec fn on_pending(&self, s: Seq<Effect>) -> Seq<Effect> { s.push(Effect::Poll(Port::Stop, false)) }
    open spec fn on_dropped(&self, s: Seq<Effect>) -> Seq<Effect> { s }
}
impl VxFut for SupRecv {
    type Out = Option<SupervisionEvent>;
    open spec fn on_ready(&self, s: Seq<Effect>, v: Self::Out) -> Seq<Effect> { s.push(Effect::Poll(Port::Supervision, true)) }
    open spec fn on_pending(&self, s: Seq<Effect>) -> Seq<Effect> { s.push(Effect::Poll(Port::Supervision, false)) }
    open spec fn on_dropped(&self, s: Seq<Effect>) -> Seq<Effect> { s }
}
impl VxFut for MsgRecv {
    type Out = Option<MuxedMessage>;
    open spec fn on_ready(&self, s: Seq<Effect>, v: Self::Out) -> Seq<Effect> { s.push(Effect::Poll(Port::Message, true)) }
    open spec fn on_pending(&self, s: Seq<Effect>) -> Seq<Effect> { s.push(Effect::Poll(Port::Message, false)) }
    open spec fn on_dropped(&self, s: Seq<Effect>) -> Seq<Effect> { s }
}
impl<T> VxFut for CbFut<T> {
    type Out = T;
    open spec fn on_ready(&self, s: Seq<Effect>, v: T) -> Seq<Effect> { s.push(Effect::Done(self.cb(), went_well(v))) }
    open spec fn on_pending(&self, s: Seq<Effect>) -> Seq<Effect> { s }
    open spec fn on_dropped(&self, s: Seq<Effect>) -> Seq<Effect> { s.push(Effect::Abandoned(self.cb())) }
}
} // verus!
#[verus_verify(external_body)]
#[verus_spec(r =>
    with Tracked(log): Tracked<&mut EffectLog>
    ensures match r {
        VxSel2::A0(x) => final(log).s == b.on_dropped(a.on_ready(old(log).s, x)),
        VxSel2::A1(y) => final(log).s == a.on_dropped(b.on_ready(a.on_pending(old(log).s), y)),
    }
)]
pub fn vx_select_biased_2<A: VxFut, B: VxFut>(a: A, b: B) -> VxSel2<A::Out, B::Out> { unimplemented!() }
#[verus_verify(external_body)]
#[verus_spec(r =>
    with Tracked(log): Tracked<&mut EffectLog>
    ensures match r {
        VxSel2::A0(x) => final(log).s == b.on_dropped(a.on_ready(old(log).s, x)),
        VxSel2::A1(y) => final(log).s == a.on_dropped(b.on_ready(old(log).s, y)),
    }
)]
pub fn vx_select_fair_2<A: VxFut, B: VxFut>(a: A, b: B) -> VxSel2<A::Out, B::Out> { unimplemented!() }
#[verus_verify(external_body)]
#[verus_spec(r =>
    with Tracked(log): Tracked<&mut EffectLog>
    ensures match r {
        VxSel4::A0(x) => final(log).s == d.on_dropped(c.on_dropped(b.on_dropped(a.on_ready(old(log).s, x)))),
        VxSel4::A1(x) => final(log).s == d.on_dropped(c.on_dropped(a.on_dropped(b.on_ready(a.on_pending(old(log).s), x)))),
        VxSel4::A2(x) => final(log).s == d.on_dropped(b.on_dropped(a.on_dropped(c.on_ready(b.on_pending(a.on_pending(old(log).s)), x)))),
        VxSel4::A3(x) => final(log).s == c.on_dropped(b.on_dropped(a.on_dropped(d.on_ready(c.on_pending(b.on_pending(a.on_pending(old(log).s))), x)))),
    }
)]
pub fn vx_select_biased_4<A: VxFut, B: VxFut, C: VxFut, D: VxFut>(a: A, b: B, c: C, d: D) -> VxSel4<A::Out, B::Out, C::Out, D::Out> { unimplemented!() }
#[verus_verify(external_body)]
#[verus_spec(r =>
    with Tracked(log): Tracked<&mut EffectLog>
    ensures match r {
        VxSel4::A0(x) => final(log).s == d.on_dropped(c.on_dropped(b.on_dropped(a.on_ready(old(log).s, x)))),
        VxSel4::A1(x) => final(log).s == d.on_dropped(c.on_dropped(a.on_dropped(b.on_ready(old(log).s, x)))),
        VxSel4::A2(x) => final(log).s == d.on_dropped(b.on_dropped(a.on_dropped(c.on_ready(old(log).s, x)))),
        VxSel4::A3(x) => final(log).s == c.on_dropped(b.on_dropped(a.on_dropped(d.on_ready(old(log).s, x)))),
    }
)]
pub fn vx_select_fair_4<A: VxFut, B: VxFut, C: VxFut, D: VxFut>(a: A, b: B, c: C, d: D) -> VxSel4<A::Out, B::Out, C::Out, D::Out> { unimplemented!() }

verus! {
/// definition of `went_well` for the value of a do_post_start / do_post_stop future: no panic was caught and the callback returned Ok
#[verifier::external_body]
pub broadcast proof fn axiom_went_well_hook(v: Result<Result<(), ActorProcessingErr>, ActorErr>)
    ensures #[trigger] went_well(v) == (v matches Ok(Ok(()))),
{}
/// ... and for the value of a handle_message / handle_supervision_message future
#[verifier::external_body]
pub broadcast proof fn axiom_went_well_handler(v: Result<(), ActorProcessingErr>)
    ensures #[trigger] went_well(v) == (v is Ok),
{}
/// GUARD (C03): a callback future awaited bare, not beside the kill port, cannot be interrupted by a kill: never allowed
#[verifier::external_body]
pub fn vx_await<T>(f: CbFut<T>) -> (r: T)
    requires false,
{ unimplemented!() }
#[verifier::external_body]
pub fn get_panic_string(p: PanicPayload) -> ActorProcessingErr { unimplemented!() }
#[verifier::external_body]
pub fn vx_started_event(c: ActorCell) -> SupervisionEvent { unimplemented!() }
/// `catch_unwind(AssertUnwindSafe(fut)).map_err(f).await` in the projection where `fut` has already been evaluated to `v`: either
/// its value, or (a panic unwound out of it) the mapped panic payload
#[verifier::external_body]
pub fn vx_catch_unwind<T, F: FnOnce(PanicPayload) -> ActorErr>(v: T, f: F) -> (r: Result<T, ActorErr>)
    requires forall|p: PanicPayload| f.requires((p,)),
    ensures r matches Ok(x) ==> x == v,
{ unimplemented!() }
/// `r.map_err(f)` on a Result
#[verifier::external_body]
pub fn vx_map_err<T, E, F2, F: FnOnce(E) -> F2>(r: Result<T, E>, f: F) -> (o: Result<T, F2>)
    requires forall|x: E| f.requires((x,)),
    ensures match r { Ok(t) => o == Ok::<T, F2>(t), Err(e) => o matches Err(x) && f.ensures((e,), x) },
{ unimplemented!() }
impl Signal {
    #[verifier::external_body]
    pub fn to_string(&self) -> String { unimplemented!() }
}
} // verus!
#[verus_verify]
impl<M> ActorRef<M> {
    #[verus_verify(external_body)]
    pub fn clone(&self) -> ActorRef<M> { unimplemented!() }
    #[verus_verify(external_body)]
    pub fn get_cell(&self) -> ActorCell { unimplemented!() }
    /// reading the published status has no effect (and tells nothing about what is still in flight towards the mailbox)
    #[verus_verify(external_body)]
    pub fn get_status(&self) -> ActorStatus { unimplemented!() }
    #[verus_verify(external_body)]
    #[verus_spec(r =>
        with Tracked(log): Tracked<&mut EffectLog>
        ensures final(log).s == old(log).s.push(Effect::SetStatus(status)))]
    pub fn set_status(&self, status: ActorStatus) -> ActorStatus { unimplemented!() }
    #[verus_verify(external_body)]
    #[verus_spec(
        with Tracked(log): Tracked<&mut EffectLog>
        ensures final(log).s == old(log).s.push(Effect::NotifyStarted))]
    pub fn notify_supervisor_and_monitors(&self, evt: SupervisionEvent) { unimplemented!() }
    #[verus_verify(external_body)]
    #[verus_spec(
        with Tracked(log): Tracked<&mut EffectLog>
        ensures final(log).s == old(log).s.push(Effect::Terminate))]
    pub fn terminate(&self) { unimplemented!() }
}
/// the wrappers that turn a user callback into a future (contracts of do_*: unit contain).  Creating the future runs nothing.
#[verus_verify]
impl<TActor: Actor> ActorRuntime<TActor> {
    #[verus_verify(external_body)]
    #[verus_spec(f => ensures f.cb() == Cb::PostStart)]
    pub fn do_post_start(myself: ActorRef<TActor::Msg>, handler: &TActor, state: &mut TActor::State) -> CbFut<Result<Result<(), ActorProcessingErr>, ActorErr>> { unimplemented!() }
    #[verus_verify(external_body)]
    #[verus_spec(f => ensures f.cb() == Cb::PostStop)]
    pub fn do_post_stop(myself: ActorRef<TActor::Msg>, handler: &TActor, state: &mut TActor::State) -> CbFut<Result<Result<(), ActorProcessingErr>, ActorErr>> { unimplemented!() }
    #[verus_verify(external_body)]
    #[verus_spec(f => ensures f.cb() == Cb::Handle)]
    pub fn handle_message(myself: ActorRef<TActor::Msg>, state: &mut TActor::State, handler: &TActor, msg: BoxedMessage) -> CbFut<Result<(), ActorProcessingErr>> { unimplemented!() }
    #[verus_verify(external_body)]
    #[verus_spec(f => ensures f.cb() == Cb::SupEvt)]
    pub fn handle_supervision_message(myself: ActorRef<TActor::Msg>, state: &mut TActor::State, handler: &TActor, message: SupervisionEvent) -> CbFut<Result<(), ActorProcessingErr>> { unimplemented!() }
}

/// the wrappers that turn a user callback into a future (contracts of do_*: unit contain).  Creating the future runs nothing.
#[verus_verify]
impl<TActor: Actor> ThreadLocalActorRuntime<TActor> {
    #[verus_verify(external_body)]
    #[verus_spec(f => ensures f.cb() == Cb::PostStart)]
    pub fn do_post_start(myself: ActorRef<TActor::Msg>, handler: &TActor, state: &mut TActor::State) -> CbFut<Result<Result<(), ActorProcessingErr>, ActorErr>> { unimplemented!() }
    #[verus_verify(external_body)]
    #[verus_spec(f => ensures f.cb() == Cb::PostStop)]
    pub fn do_post_stop(myself: ActorRef<TActor::Msg>, handler: &TActor, state: &mut TActor::State) -> CbFut<Result<Result<(), ActorProcessingErr>, ActorErr>> { unimplemented!() }
    #[verus_verify(external_body)]
    #[verus_spec(f => ensures f.cb() == Cb::Handle)]
    pub fn handle_message(myself: ActorRef<TActor::Msg>, state: &mut TActor::State, handler: &TActor, msg: BoxedMessage) -> CbFut<Result<(), ActorProcessingErr>> { unimplemented!() }
    #[verus_verify(external_body)]
    #[verus_spec(f => ensures f.cb() == Cb::SupEvt)]
    pub fn handle_supervision_message(myself: ActorRef<TActor::Msg>, state: &mut TActor::State, handler: &TActor, message: SupervisionEvent) -> CbFut<Result<(), ActorProcessingErr>> { unimplemented!() }
}

verus! {
pub mod loop_lemmas {
use super::*;
/// what one step adds, by count: no hook effect; and unless it ends as killed or with an error, no kill, no abandoned and no failed handler
pub proof fn lemma_step_counts(a: Seq<Effect>, b: Seq<Effect>, r: Result<ActorLoopResult, ActorProcessingErr>)
    requires step(a, b, r),
    ensures ext(a, b), no_hook_effects(a, b), (r matches Ok(l) && !l.was_killed) ==> clean(a, b),
{
    broadcast use effectlog::lemma_cnt_push;
}
/// the loop's stretch of the log, seen from the start of the function: the instances of its quantified facts the caller needs
pub proof fn lemma_segment(a: Seq<Effect>, b: Seq<Effect>, c: Seq<Effect>)
    requires ext(a, b), ext(b, c), no_hook_effects(b, c),
    ensures ext(a, c),
        hook_effects(b, c, Cb::PostStart) == 0, hook_effects(b, c, Cb::PostStop) == 0,
        clean(b, c) ==> delta(b, c, Effect::Terminate) == 0 && no_failed_or_abandoned_handler(b, c) && (forall|cb: Cb| #[trigger] delta(a, c, Effect::Done(cb, false)) == delta(a, b, Effect::Done(cb, false))),
{
    assert(delta(b, c, Effect::Done(Cb::PostStart, true)) == 0 && delta(b, c, Effect::Done(Cb::PostStart, false)) == 0 && delta(b, c, Effect::Abandoned(Cb::PostStart)) == 0);
    assert(delta(b, c, Effect::Done(Cb::PostStop, true)) == 0 && delta(b, c, Effect::Done(Cb::PostStop, false)) == 0 && delta(b, c, Effect::Abandoned(Cb::PostStop)) == 0);
    if clean(b, c) {
        assert(delta(b, c, Effect::Done(Cb::Handle, false)) == 0 && delta(b, c, Effect::Abandoned(Cb::Handle)) == 0);
        assert(delta(b, c, Effect::Done(Cb::SupEvt, false)) == 0 && delta(b, c, Effect::Abandoned(Cb::SupEvt)) == 0);
        assert forall|cb: Cb| #[trigger] delta(a, c, Effect::Done(cb, false)) == delta(a, b, Effect::Done(cb, false)) by { assert(delta(b, c, Effect::Done(cb, false)) == 0); }
    }
}
/// a step after a stretch of the log that had these properties keeps them for the whole stretch
pub broadcast proof fn lemma_step_extends(a: Seq<Effect>, b: Seq<Effect>, c: Seq<Effect>, r: Result<ActorLoopResult, ActorProcessingErr>)
    requires ext(a, b), #[trigger] no_hook_effects(a, b), #[trigger] step(b, c, r),
    ensures ext(a, c), no_hook_effects(a, c), (clean(a, b) && (r matches Ok(l) && !l.was_killed)) ==> clean(a, c),
{
    lemma_step_counts(b, c, r);
    assert forall|cb: Cb, ok: bool| (cb == Cb::PostStart || cb == Cb::PostStop || cb == Cb::PreStart) implies #[trigger] delta(a, c, Effect::Done(cb, ok)) == 0 by {
        assert(delta(a, b, Effect::Done(cb, ok)) == 0 && delta(b, c, Effect::Done(cb, ok)) == 0);
    }
    assert forall|cb: Cb| (cb == Cb::PostStart || cb == Cb::PostStop || cb == Cb::PreStart) implies #[trigger] delta(a, c, Effect::Abandoned(cb)) == 0 by {
        assert(delta(a, b, Effect::Abandoned(cb)) == 0 && delta(b, c, Effect::Abandoned(cb)) == 0);
    }
    if clean(a, b) && (r matches Ok(l) && !l.was_killed) {
        assert forall|cb: Cb| #[trigger] delta(a, c, Effect::Abandoned(cb)) == 0 by {
            assert(delta(a, b, Effect::Abandoned(cb)) == 0 && delta(b, c, Effect::Abandoned(cb)) == 0);
        }
        assert forall|cb: Cb| #[trigger] delta(a, c, Effect::Done(cb, false)) == 0 by {
            assert(delta(a, b, Effect::Done(cb, false)) == 0 && delta(b, c, Effect::Done(cb, false)) == 0);
        }
        assert(delta(a, b, Effect::Terminate) == 0 && delta(b, c, Effect::Terminate) == 0);
    }
}
}
} // verus!

// ---- non-blocking looks at a receive end (tokio `try_recv`): logged like a poll of that port ----
#[verus_verify]
impl SignalRx {
    #[verus_verify(external_body)]
    #[verus_spec(r => with Tracked(log): Tracked<&mut EffectLog> ensures final(log).s == old(log).s.push(Effect::Poll(Port::Signal, r is Ok)))]
    pub fn try_recv(&mut self) -> Result<Signal, TryRecvError> { unimplemented!() }
}
#[verus_verify]
impl StopRx {
    #[verus_verify(external_body)]
    #[verus_spec(r => with Tracked(log): Tracked<&mut EffectLog> ensures final(log).s == old(log).s.push(Effect::Poll(Port::Stop, r is Ok)))]
    pub fn try_recv(&mut self) -> Result<StopMessage, TryRecvError> { unimplemented!() }
}
#[verus_verify]
impl SupervisionRx {
    #[verus_verify(external_body)]
    #[verus_spec(r => with Tracked(log): Tracked<&mut EffectLog> ensures final(log).s == old(log).s.push(Effect::Poll(Port::Supervision, r is Ok)))]
    pub fn try_recv(&mut self) -> Result<SupervisionEvent, TryRecvError> { unimplemented!() }
}
#[verus_verify]
impl MessageRx {
    #[verus_verify(external_body)]
    #[verus_spec(r => with Tracked(log): Tracked<&mut EffectLog> ensures final(log).s == old(log).s.push(Effect::Poll(Port::Message, r is Ok)))]
    pub fn try_recv(&mut self) -> Result<MuxedMessage, TryRecvError> { unimplemented!() }
}
/// `FutureExt::now_or_never(fut)`: ONE poll of the future on its own
#[verus_verify(external_body)]
#[verus_spec(r =>
    with Tracked(log): Tracked<&mut EffectLog>
    ensures match r { Some(v) => final(log).s == old(log).s.push(Effect::Done(f.cb(), went_well(v))), None => final(log).s == old(log).s.push(Effect::Progress(f.cb())) })]
pub fn vx_now_or_never<T>(f: CbFut<T>) -> Option<T> { unimplemented!() }
