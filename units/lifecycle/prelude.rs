// ---- unit lifecycle: prelude ----
#![feature(proc_macro_hygiene)]
#![allow(unused, non_snake_case, non_camel_case_types, dead_code, unreachable_code)]
use vstd::prelude::*;
use verus_builtin_macros::{verus_spec, verus_verify, proof, proof_decl};
use vstd::std_specs::cmp::*;

verus! {
broadcast use {effectlog::group_effectlog, vocab::lemma_fcount_push};

// ------------------------------------------------------------------ opaque stand-ins (R9)
#[verifier::external_body] pub struct BoxedState { _p: u8 }
#[verifier::external_body] pub struct ActorProcessingErr { _p: u8 }
#[verifier::external_body] pub struct GroupChangeMessage { _p: u8 }
#[verifier::external_body] pub struct PidLifecycleEvent { _p: u8 }

/// ActorCell stand-in: an opaque handle; `@` is the identity of the actor it refers to
#[verifier::external_body] pub struct ActorCell { _p: u8 }
impl View for ActorCell { type V = int; uninterp spec fn view(&self) -> int; }
impl Clone for ActorCell {
    #[verifier::external_body]
    fn clone(&self) -> (r: Self) ensures r == *self { unimplemented!() }
}
} // verus!

pub mod vocab {
    use super::*;
    verus! {
    pub enum Effect {
        /// ActorCell::set_status(s) was called (its own contract: unit cellstatus)
        SetStatus(ActorStatus),
        /// ActorCell::terminate(): children are signalled
        Terminate,
        /// ActorCell::notify_supervisor(event)
        Notify(SupervisionEvent),
        /// ActorCell::try_get_supervisor() and what it returned
        GetSupervisor(Option<ActorCell>),
        /// ActorCell::unlink(supervisor)
        Unlink(ActorCell),
    }
    pub enum Kind { SetStatus, Terminate, Notify, GetSupervisor, Unlink }
    /// finer classification used by the order-insensitive clauses
    pub enum Fine { SetStopping, SetStopped, SetOther, Terminate, Notify, SupSome, SupNone, Unlink }
    pub open spec fn fine_of(e: Effect) -> Fine {
        match e {
            Effect::SetStatus(s) => if s == ActorStatus::Stopping { Fine::SetStopping } else if s == ActorStatus::Stopped { Fine::SetStopped } else { Fine::SetOther },
            Effect::Terminate => Fine::Terminate,
            Effect::Notify(_) => Fine::Notify,
            Effect::GetSupervisor(o) => if o is Some { Fine::SupSome } else { Fine::SupNone },
            Effect::Unlink(_) => Fine::Unlink,
        }
    }
    /// number of effects of fine kind `k` among b[from..]
    pub open spec fn fcount(b: Seq<Effect>, from: int, k: Fine) -> nat
        decreases b.len() - from,
    {
        if from >= b.len() || from < 0 { 0 } else { (if fine_of(b[from]) == k { 1nat } else { 0nat }) + fcount(b, from + 1, k) }
    }
    pub proof fn lemma_fcount_zero(b: Seq<Effect>, from: int, k: Fine)
        requires 0 <= from, fcount(b, from, k) == 0,
        ensures forall|i: int| from <= i < b.len() ==> fine_of(#[trigger] b[i]) != k,
        decreases b.len() - from,
    {
        if from < b.len() { lemma_fcount_zero(b, from + 1, k); }
    }
    pub broadcast proof fn lemma_fcount_push(b: Seq<Effect>, from: int, e: Effect, k: Fine)
        requires 0 <= from <= b.len(),
        ensures #[trigger] fcount(b.push(e), from, k) == fcount(b, from, k) + (if fine_of(e) == k { 1nat } else { 0nat }),
        decreases b.len() - from,
    {
        if from < b.len() {
            assert(b.push(e)[from] == b[from]);
            lemma_fcount_push(b, from + 1, e, k);
        } else {
            assert(fcount(b.push(e), from + 1, k) == 0);
        }
    }
    pub open spec fn kind_of(e: Effect) -> Kind {
        match e {
            Effect::SetStatus(_) => Kind::SetStatus,
            Effect::Terminate => Kind::Terminate,
            Effect::Notify(_) => Kind::Notify,
            Effect::GetSupervisor(_) => Kind::GetSupervisor,
            Effect::Unlink(_) => Kind::Unlink,
        }
    }
    }
}
pub use vocab::*;
// @include ../_common/effectlog.rs

verus! {

pub open spec fn opt_seq<T>(o: Option<T>, f: spec_fn(T) -> Effect) -> Seq<Effect> {
    match o { Some(x) => seq![f(x)], None => Seq::empty() }
}

/// the effects of the lifecycle cleanup, in order, for a guard that is (not) armed
pub open spec fn cleanup_log(armed: bool, event: Option<SupervisionEvent>, sup: Option<ActorCell>) -> Seq<Effect> {
    if !armed { Seq::empty() } else {
        seq![Effect::SetStatus(ActorStatus::Stopping), Effect::Terminate]
            + (match event { Some(e) => seq![Effect::Notify(e)], None => Seq::<Effect>::empty() })
            + seq![Effect::GetSupervisor(sup)]
            + (match sup { Some(s) => seq![Effect::Unlink(s)], None => Seq::<Effect>::empty() })
            + seq![Effect::SetStatus(ActorStatus::Stopped)]
    }
}
/// C04/C05/C06/C08, independent of the order of independent steps: an armed guard publishes Stopping once and Stopped once and
/// last, signals the children once, notifies the supervisor `n` times (and never after unlinking from it), looks up its current
/// supervisor exactly once and unlinks iff there is one, and does nothing else; a disarmed guard does nothing
pub open spec fn cleanup_shape(a: Seq<Effect>, b: Seq<Effect>, armed: bool, n: nat) -> bool {
    if !armed { b == a } else {
        &&& a.len() <= b.len() && (forall|i: int| 0 <= i < a.len() ==> #[trigger] b[i] == a[i])
        &&& b.len() > a.len() && b.last() == Effect::SetStatus(ActorStatus::Stopped)
        &&& fcount(b, a.len() as int, Fine::SetStopping) == 1 && fcount(b, a.len() as int, Fine::SetStopped) == 1 && fcount(b, a.len() as int, Fine::SetOther) == 0
        &&& fcount(b, a.len() as int, Fine::Terminate) == 1
        &&& fcount(b, a.len() as int, Fine::Notify) == n
        &&& fcount(b, a.len() as int, Fine::SupSome) + fcount(b, a.len() as int, Fine::SupNone) == 1
        &&& fcount(b, a.len() as int, Fine::Unlink) == fcount(b, a.len() as int, Fine::SupSome)
        &&& forall|i: int, j: int| a.len() <= i < j < b.len() && #[trigger] b[i] is Unlink ==> !(#[trigger] b[j] is Notify)
    }
}
/// every supervision event sent after position `from` is `e`
pub open spec fn notifies_only(b: Seq<Effect>, from: int, e: SupervisionEvent) -> bool {
    forall|i: int| from <= i < b.len() ==> (#[trigger] b[i] matches Effect::Notify(x) ==> x == e)
}
/// which supervisor the cleanup saw: read back from the log
pub open spec fn sup_seen(old_s: Seq<Effect>, new_s: Seq<Effect>, event: Option<SupervisionEvent>) -> Option<ActorCell> {
    let i = old_s.len() + 2 + (if event is Some { 1int } else { 0int });
    if 0 <= i < new_s.len() { match new_s[i] { Effect::GetSupervisor(o) => o, _ => None } } else { None }
}
/// the event Drop reports: ActorTerminated(actor, no state, "actor_task_cancelled") iff the actor had reached mark_running
/// (the identity of the reported actor cannot be stated: a closure specification may not mention captured variables)
pub open spec fn is_cancel_event(e: SupervisionEvent) -> bool {
    e matches SupervisionEvent::ActorTerminated(who, st, reason)
        && st is None && (reason matches Some(r) && r@ == "actor_task_cancelled"@)
}

/// ---- composition (C04: exactly one terminal event; C08: none for a never-started actor) ----
// @props C04 C08
pub proof fn lemma_cleanup_notifies(armed: bool, event: Option<SupervisionEvent>, sup: Option<ActorCell>)
    ensures
        cnt(cleanup_log(armed, event, sup), Kind::Notify) == (if armed && event is Some { 1nat } else { 0nat }),
        // Stopped is published last, after Terminate / Notify / Unlink (C06)
        armed ==> cleanup_log(armed, event, sup).last() == Effect::SetStatus(ActorStatus::Stopped),
        armed ==> cnt(cleanup_log(armed, event, sup), Kind::SetStatus) == 2,
        armed ==> cnt(cleanup_log(armed, event, sup), Kind::Terminate) == 1,
{
    let a = seq![Effect::SetStatus(ActorStatus::Stopping), Effect::Terminate];
    let b = match event { Some(e) => seq![Effect::Notify(e)], None => Seq::<Effect>::empty() };
    let c = seq![Effect::GetSupervisor(sup)];
    let d = match sup { Some(s) => seq![Effect::Unlink(s)], None => Seq::<Effect>::empty() };
    let e = seq![Effect::SetStatus(ActorStatus::Stopped)];
    if armed {
        lemma_cnt_concat(a, b, Kind::Notify); lemma_cnt_concat(a + b, c, Kind::Notify); lemma_cnt_concat(a + b + c, d, Kind::Notify); lemma_cnt_concat(a + b + c + d, e, Kind::Notify);
        lemma_cnt_concat(a, b, Kind::SetStatus); lemma_cnt_concat(a + b, c, Kind::SetStatus); lemma_cnt_concat(a + b + c, d, Kind::SetStatus); lemma_cnt_concat(a + b + c + d, e, Kind::SetStatus);
        lemma_cnt_concat(a, b, Kind::Terminate); lemma_cnt_concat(a + b, c, Kind::Terminate); lemma_cnt_concat(a + b + c, d, Kind::Terminate); lemma_cnt_concat(a + b + c + d, e, Kind::Terminate);
        lemma_cnt_small(a); lemma_cnt_small(b); lemma_cnt_small(c); lemma_cnt_small(d); lemma_cnt_small(e);
    } else {
    }
}

pub proof fn lemma_cnt_concat(a: Seq<Effect>, b: Seq<Effect>, k: Kind)
    ensures cnt(a + b, k) == cnt(a, k) + cnt(b, k),
    decreases b.len(),
{
    if b.len() == 0 {
        assert(a + b =~= a);
    } else {
        assert((a + b).drop_last() =~= a + b.drop_last());
        lemma_cnt_concat(a, b.drop_last(), k);
    }
}
pub proof fn lemma_cnt_small(a: Seq<Effect>)
    requires a.len() <= 2,
    ensures forall|k: Kind| #[trigger] cnt(a, k) ==
        (if a.len() >= 1 && kind_of(a[0]) == k { 1nat } else { 0nat }) + (if a.len() >= 2 && kind_of(a[1]) == k { 1nat } else { 0nat }),
{
    assert forall|k: Kind| #[trigger] cnt(a, k) ==
        (if a.len() >= 1 && kind_of(a[0]) == k { 1nat } else { 0nat }) + (if a.len() >= 2 && kind_of(a[1]) == k { 1nat } else { 0nat }) by {
        if a.len() == 2 { assert(a.drop_last().len() == 1); assert(a.drop_last().drop_last().len() == 0); reveal_with_fuel(cnt, 3); }
        else if a.len() == 1 { reveal_with_fuel(cnt, 2); }
    }
}

/// the three scenarios of the property, over the guard's two flags:
///   finish(ev) on an armed guard, followed by the implicit Drop  -> exactly one Notify (the event passed to finish)
///   bare Drop (task cancelled) after mark_running                -> exactly one Notify (the cancel event)
///   bare Drop before mark_running (failed / cancelled spawn)     -> no Notify at all
// @props C04 C08
pub proof fn lemma_exactly_one_terminal_event(ev: SupervisionEvent, cancel_ev: SupervisionEvent, s1: Option<ActorCell>, s2: Option<ActorCell>)
    ensures
        cnt(cleanup_log(true, Some(ev), s1) + cleanup_log(false, Some(cancel_ev), s2), Kind::Notify) == 1,
        cnt(cleanup_log(true, Some(cancel_ev), s1), Kind::Notify) == 1,
        cnt(cleanup_log(true, None, s1), Kind::Notify) == 0,
{
    lemma_cleanup_notifies(true, Some(ev), s1);
    lemma_cleanup_notifies(false, Some(cancel_ev), s2);
    lemma_cleanup_notifies(true, Some(cancel_ev), s1);
    lemma_cleanup_notifies(true, None, s1);
    lemma_cnt_concat(cleanup_log(true, Some(ev), s1), cleanup_log(false, Some(cancel_ev), s2), Kind::Notify);
}

} // verus!

#[verus_verify]
impl ActorCell {
    #[verus_verify(external_body)]
    #[verus_spec(r =>
        with Tracked(log): Tracked<&mut EffectLog>
        ensures final(log).s == old(log).s.push(Effect::SetStatus(status)),
    )]
    pub fn set_status(&self, status: ActorStatus) -> ActorStatus { unimplemented!() }

    #[verus_verify(external_body)]
    #[verus_spec(
        with Tracked(log): Tracked<&mut EffectLog>
        ensures final(log).s == old(log).s.push(Effect::Terminate),
    )]
    pub fn terminate(&self) { unimplemented!() }

    #[verus_verify(external_body)]
    #[verus_spec(
        with Tracked(log): Tracked<&mut EffectLog>
        ensures final(log).s == old(log).s.push(Effect::Notify(evt)),
    )]
    pub fn notify_supervisor(&self, evt: SupervisionEvent) { unimplemented!() }

    #[verus_verify(external_body)]
    #[verus_spec(r =>
        with Tracked(log): Tracked<&mut EffectLog>
        ensures final(log).s == old(log).s.push(Effect::GetSupervisor(r)),
    )]
    pub fn try_get_supervisor(&self) -> Option<ActorCell> { unimplemented!() }

    #[verus_verify(external_body)]
    #[verus_spec(
        with Tracked(log): Tracked<&mut EffectLog>
        ensures final(log).s == old(log).s.push(Effect::Unlink(supervisor)),
    )]
    pub fn unlink(&self, supervisor: ActorCell) { unimplemented!() }
}
