// ---- unit derive: the decoder the REAL RactorClusterMessage generator emits for a sample enum is total (C19) ----
#![feature(proc_macro_hygiene)]
#![allow(unused, non_snake_case, non_camel_case_types, dead_code, unreachable_code)]
use vstd::prelude::*;
use verus_builtin_macros::{verus_spec, verus_verify, proof, proof_decl};

verus! {
global size_of usize == 8;
#[verifier::external_body] pub struct ReplyPortStub { _p: u8 }
#[verifier::external_body] pub struct PanicPayload { _p: u8 }
pub struct AssertUnwindSafe<F>(pub F);

/// user/byte codecs: may panic on garbage (documented contract) — hence only ever called under catch_unwind (shape check)
pub trait BytesConvertable: Sized {
    fn from_bytes(bytes: Vec<u8>) -> Self;
}
impl BytesConvertable for u64 { #[verifier::external_body] fn from_bytes(bytes: Vec<u8>) -> u64 { unimplemented!() } }
impl BytesConvertable for Vec<u8> { #[verifier::external_body] fn from_bytes(bytes: Vec<u8>) -> Vec<u8> { unimplemented!() } }

/// A-std: catch_unwind(f) returns Ok(f()) or Err(payload)
#[verifier::external_body]
pub fn vx_catch_unwind<T, F: FnOnce() -> T>(f: AssertUnwindSafe<F>) -> (r: Result<T, PanicPayload>)
    requires f.0.requires(()),
    ensures r matches Ok(v) ==> f.0.ensures((), v),
{ unimplemented!() }
/// the number 8 big-endian bytes stand for
pub uninterp spec fn be(b: Seq<u8>) -> nat;
/// u64::from_be_bytes (pathmap: its std signature has an anonymous const array length Verus cannot name)
#[verifier::external_body]
pub fn vx_u64_from_be_bytes(b: [u8; 8]) -> (r: u64) ensures r as nat == be(b@) { unimplemented!() }
/// `a` is exactly `k` length-prefixed fields (8-byte big-endian length, then that many bytes), nothing before, between or after
pub open spec fn frames(a: Seq<u8>, k: nat) -> bool
    decreases k,
{
    if k == 0 { a.len() == 0 } else {
        a.len() >= 8 && 8 + be(a.subrange(0, 8)) <= a.len() && frames(a.subrange(8 + be(a.subrange(0, 8)) as int, a.len() as int), (k - 1) as nat)
    }
}

/// the typed reply port handed to the actor (bridged to the wire port by a spawned task whose text is erased, R8)
#[verifier::external_body] #[verifier::reject_recursive_types(T)] pub struct RpcReplyPort<T> { _p: core::marker::PhantomData<T> }
#[verifier::external_body] #[verifier::reject_recursive_types(T)] pub struct Tx<T> { _p: core::marker::PhantomData<T> }
#[verifier::external_body] #[verifier::reject_recursive_types(T)] pub struct Rx<T> { _p: core::marker::PhantomData<T> }
#[verifier::external_body] pub struct Duration { _p: u8 }
#[verifier::external_body] pub struct JoinHandle { _p: u8 }
#[verifier::external_body]
pub fn vx_oneshot<T>() -> (Tx<T>, Rx<T>) { unimplemented!() }
#[verifier::external_body]
pub fn vx_spawn(erased: ()) -> JoinHandle { unimplemented!() }
impl ReplyPortStub {
    #[verifier::external_body] pub fn get_timeout(&self) -> Option<Duration> { unimplemented!() }
}
impl<T> core::convert::From<Tx<T>> for RpcReplyPort<T> { #[verifier::external_body] fn from(t: Tx<T>) -> Self { unimplemented!() } }
impl<T> core::convert::From<(Tx<T>, Duration)> for RpcReplyPort<T> { #[verifier::external_body] fn from(t: (Tx<T>, Duration)) -> Self { unimplemented!() } }
pub assume_specification<T: Clone> [<[T]>::to_vec] (s: &[T]) -> (r: Vec<T>)
    ensures r@ == s@;
/// R35: one arm test of `match tag.as_str() { "Lit" => .. }` (A-std: string equality)
#[verifier::external_body]
pub fn vx_str_is(s: &String, lit: &'static str) -> (r: bool)
    ensures r == (s@ == lit@)
{ unimplemented!() }
} // verus!
