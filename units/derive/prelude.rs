// ---- unit derive: the decoder the REAL RactorClusterMessage generator emits for a sample enum is total (C19) ----
#![feature(proc_macro_hygiene)]
#![allow(unused, non_snake_case, non_camel_case_types, dead_code, unreachable_code)]
use vstd::prelude::*;
use verus_builtin_macros::{verus_spec, verus_verify, proof, proof_decl};

verus! {
global size_of usize == 8;
#[verifier::external_body] pub struct ReplyPortStub { _p: u8 }
#[verifier::external_body] pub struct PanicPayload { _p: u8 }
pub struct AssertUnwindSafe<F>(pub F);

/// user/byte codecs: may panic on garbage (documented contract) — hence only ever called under catch_unwind (shape check)
pub trait BytesConvertable: Sized {
    fn from_bytes(bytes: Vec<u8>) -> Self;
}
impl BytesConvertable for u64 { #[verifier::external_body] fn from_bytes(bytes: Vec<u8>) -> u64 { unimplemented!() } }
impl BytesConvertable for Vec<u8> { #[verifier::external_body] fn from_bytes(bytes: Vec<u8>) -> Vec<u8> { unimplemented!() } }

/// A-std: catch_unwind(f) returns Ok(f()) or Err(payload)
#[verifier::external_body]
pub fn vx_catch_unwind<T, F: FnOnce() -> T>(f: AssertUnwindSafe<F>) -> (r: Result<T, PanicPayload>)
    requires f.0.requires(()),
    ensures r matches Ok(v) ==> f.0.ensures((), v),
{ unimplemented!() }
/// u64::from_be_bytes (pathmap: its std signature has an anonymous const array length Verus cannot name)
#[verifier::external_body]
pub fn vx_u64_from_be_bytes(b: [u8; 8]) -> u64 { unimplemented!() }

pub assume_specification<T: Clone> [<[T]>::to_vec] (s: &[T]) -> (r: Vec<T>)
    ensures r@ == s@;
} // verus!
