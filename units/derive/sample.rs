enum Sample {
    Ping,
    Add(u64, Vec<u8>),
    Named { a: u64 },
    #[rpc]
    Status(RpcReplyPort<u64>),
    #[rpc]
    Query { reply: RpcReplyPort<u16> },
    #[rpc]
    Ask(u64, RpcReplyPort<u64>),
}
