// ---- unit routenext: prelude = shared factory vocabulary and stand-ins + a statistics stand-in that records refusals ----
// @include ../_common/factory_base.rs

verus! {
/// stand-in for `Option<Arc<dyn FactoryStatsLayer>>` in this unit: the two refusal counters record, as ghost effects, WHICH job was
/// refused and whether it still carried its acceptance port (ghost arguments given at the call sites by contracts.vx)
#[verifier::external_body] pub struct StatsLog { _p: u8 }
}
#[verus_verify]
impl StatsLog {
    #[verus_verify(external_body)]
    #[verus_spec(
        with Tracked(log): Tracked<&mut EffectLog>, Ghost(id): Ghost<int>, Ghost(port): Ghost<bool>
        ensures final(log).s == old(log).s.push(Effect::Stat(DiscardReason::TtlExpired, id, port)),
    )]
    pub fn job_ttl_expired(&self, f: &String, n: usize) { unimplemented!() }
    #[verus_verify(external_body)]
    #[verus_spec(
        with Tracked(log): Tracked<&mut EffectLog>, Ghost(id): Ghost<int>, Ghost(port): Ghost<bool>
        ensures final(log).s == old(log).s.push(Effect::Stat(DiscardReason::RateLimited, id, port)),
    )]
    pub fn job_rate_limited(&self, f: &String) { unimplemented!() }
}

verus! {
/// the block of effects that tells everybody about one refused job: the statistics record, then the discard handler (if there is
/// one), then the submitter's port (if the job had one)
pub open spec fn told(reason: DiscardReason, id: int, handler: bool, port: bool) -> Seq<Effect> {
    seq![Effect::Stat(reason, id, port)] + refusal(reason, id, handler, port)
}
/// every statistics record in `b` after position `from` is followed immediately by its discard/reject block
pub open spec fn every_refusal_is_told(b: Seq<Effect>, from: int, handler: bool) -> bool {
    forall|i: int| from <= i < b.len() ==> (#[trigger] b[i] matches Effect::Stat(reason, id, port) ==>
        i + 1 + refusal(reason, id, handler, port).len() <= b.len()
        && b.subrange(i + 1, i + 1 + refusal(reason, id, handler, port).len()) == refusal(reason, id, handler, port))
}
}

verus! {
/// appending one complete `told` block keeps "every refusal is told in full"
pub proof fn lemma_told_block(l0: Seq<Effect>, l3: Seq<Effect>, from: int, reason: DiscardReason, id: int, handler: bool, port: bool)
    requires
        every_refusal_is_told(l0, from, handler),
        0 <= from <= l0.len(),
        l3 =~= l0 + told(reason, id, handler, port),
    ensures
        every_refusal_is_told(l3, from, handler),
{
    let blk = refusal(reason, id, handler, port);
    assert forall|i: int| from <= i < l3.len() implies (#[trigger] l3[i] matches Effect::Stat(r2, id2, p2) ==>
        i + 1 + refusal(r2, id2, handler, p2).len() <= l3.len()
        && l3.subrange(i + 1, i + 1 + refusal(r2, id2, handler, p2).len()) == refusal(r2, id2, handler, p2)) by {
        if i < l0.len() {
            assert(l3[i] == l0[i]);
            match l0[i] {
                Effect::Stat(r2, id2, p2) => {
                    let n = refusal(r2, id2, handler, p2).len();
                    assert(i + 1 + n <= l0.len());
                    assert(l3 == l0 + told(reason, id, handler, port));
                    let a = i + 1; let b = i + 1 + n;
                    let s3 = l3.subrange(a, b); let s0 = l0.subrange(a, b);
                    assert(0 <= a <= b <= l0.len());
                    assert(l0.len() <= l3.len());
                    assert(s3.len() == n && s0.len() == n);
                    assert forall|k: int| 0 <= k < n implies #[trigger] s3[k] == s0[k] by {
                        assert(s3[k] == l3[a + k]);
                        assert(s0[k] == l0[a + k]);
                        assert(l3[a + k] == l0[a + k]);
                    }
                    assert(s3 =~= s0);
                }
                _ => {}
            }
        } else if i == l0.len() {
            assert(l3[i] == Effect::Stat(reason, id, port));
            assert(l3.subrange(i + 1, i + 1 + blk.len()) =~= blk);
        } else {
            // inside the block after the Stat: a Discard or a Rejected, never a Stat
            let k = i - l0.len();
            assert(l3[i] == told(reason, id, handler, port)[k]);
            assert(told(reason, id, handler, port)[k] == blk[k - 1]);
        }
    }
}
}
